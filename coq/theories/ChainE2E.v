(* ChainE2E.v — a STACK of adapters of any height, evaluated lazily as nested poll loops
   (ChainPoll.gpoll at every level, ChainView.v), whose bottom inner stream is the PLAIN stream of
   subscriber k of an ObservableVector (FullStack.vinner k), in ANY history of vector operations
   (OVecRun.op, polls of other subscribers included) interleaved with polls of the top of the stack
   and scripted parameter values for the stages.

   0. the poll loop of one level with a THREE-valued result (out of fuel is not a panic) and its tie
      to ChainPoll.gpoll;
   1. one level over an arbitrary inner stream carrying an invariant J (ChainView.gpoll_mid, now
      with "never RPanic" and a clause for Pending);
   2. [chain_poll_over]: ChainPoll.chain_poll generalised over the bottom stream; with the scripted
      queue at the bottom it IS chain_poll;
   3. the nested loops keep every level's view correct, over any bottom stream with an invariant;
   4. the vector's subscriber as bottom stream; histories; the theorems;
   5. termination (drains machinery of ChainView.v over the measure FullStackAux.muk);
   6. Head over Skip in closed form; a computed example: Head 2 over Skip 1 on a vector of
      capacity 1 (a lag Reset occurs). *)
From EB Require Import Diff AdapterCore PollLoop ChainPoll ChainPollFacts HandOver ChainView.
From EB Require Import OVec OVecRun OVecFacts OVecExtra ListTac FullStack FullStackAux.
From EB Require Import Head Skip HeadFacts SkipFacts.
From Coq Require Import Lia.

(* ------------------------------------------------------------------------------------------ *)
(* 0. the loop of one level, three-valued                                                     *)
(* ------------------------------------------------------------------------------------------ *)
Section RLoop.
Context {I B St IS : Type}.
Variable on_diff : St -> I -> outcome (St * list (diff B)).
Variable on_param : St -> nat -> St * option (list (diff B)).
Variable has_param : bool.
Variable me : nat.
Variable inner : IS -> res (IS * poll (option I) * ltrace).

(* ChainPoll.gpoll_inner, except that running out of fuel (here or below) is RFuel, not Panic *)
Fixpoint rpoll_inner (fuel : nat) (st : St) (is : IS) (pend : bool) (first : bool) (tr : ltrace)
  : res (ustate (B:=B) (St:=St) * IS * poll (option (diff B)) * ltrace) :=
  match fuel with
  | 0 => RFuel
  | S fuel' =>
      let tr := if first then tr else tr ++ gparam_again has_param me pend in
      match inner is with
      | RFuel => RFuel
      | RPanic => RPanic
      | ROk (is', r, itr) =>
          let tr := tr ++ itr in
          match r with
          | Pending => ROk ({| u_st := st; u_ready := [] |}, is', Pending, tr)
          | Ready None => ROk ({| u_st := st; u_ready := [] |}, is', Ready None, tr)
          | Ready (Some d) =>
              match on_diff st d with
              | Panic => RPanic
              | Ok (st', outs) =>
                  match outs with
                  | [] => rpoll_inner fuel' st' is' pend false tr
                  | o :: outs' => ROk ({| u_st := st'; u_ready := outs' |}, is', Ready (Some o), tr)
                  end
              end
          end
      end
  end.

Definition rpoll (fuel : nat) (s : ustate (B:=B) (St:=St)) (is : IS) (qp : list nat) (pend : bool)
  : res (ustate (B:=B) (St:=St) * IS * list nat * poll (option (diff B)) * ltrace) :=
  match u_ready s with
  | o :: r => ROk ({| u_st := u_st s; u_ready := r |}, is, qp, Ready (Some o), [])
  | [] =>
      if has_param then
        let '(st', qp', o, tr) := gpoll_params on_param me (u_st s) qp pend [] in
        match o with
        | Some [] => ROk ({| u_st := st'; u_ready := [] |}, is, qp', Ready None, tr)
        | Some (d :: ds) => ROk ({| u_st := st'; u_ready := ds |}, is, qp', Ready (Some d), tr)
        | None =>
            match rpoll_inner fuel st' is pend true tr with
            | RFuel => RFuel
            | RPanic => RPanic
            | ROk (s', is', r, tr') => ROk (s', is', qp', r, tr')
            end
        end
      else
        match rpoll_inner fuel (u_st s) is pend true [] with
        | RFuel => RFuel
        | RPanic => RPanic
        | ROk (s', is', r, tr') => ROk (s', is', qp, r, tr')
        end
  end.

End RLoop.

(* the two-valued reading of a three-valued result: ChainPoll reports "out of fuel" as Panic *)
Definition collapse {X : Type} (r : res X) : outcome X :=
  match r with ROk x => Ok x | _ => Panic end.

Lemma collapse_ok {X : Type} (r : res X) x : r = ROk x -> collapse r = Ok x.
Proof. intros ->. reflexivity. Qed.

(* the three-valued loop over [inner] and ChainPoll.gpoll over [inner2] agree when [inner2] is the
   two-valued reading of [inner] (through a map [f] of the inner states) *)
Section RLoopTie.
Context {I B St IS IS2 : Type}.
Variable on_diff : St -> I -> outcome (St * list (diff B)).
Variable on_param : St -> nat -> St * option (list (diff B)).
Variable me : nat.
Variable inner : IS -> res (IS * poll (option I) * ltrace).
Variable inner2 : IS2 -> outcome (IS2 * poll (option I) * ltrace).
Variable f : IS -> IS2.
Hypothesis Hsim : forall is,
  inner2 (f is) = match inner is with ROk (is', r, tr) => Ok (f is', r, tr) | _ => Panic end.

Lemma rpoll_inner_is_gpoll_inner hp : forall fuel st is pend first tr,
  gpoll_inner on_diff hp me inner2 fuel st (f is) pend first tr =
  match rpoll_inner on_diff hp me inner fuel st is pend first tr with
  | ROk (s', is', r, tr') => Ok (s', f is', r, tr')
  | _ => Panic
  end.
Proof.
  induction fuel as [|fuel IH]; intros st is pend first tr; cbn [gpoll_inner rpoll_inner]; [reflexivity|].
  rewrite Hsim. destruct (inner is) as [| |[[is1 r1] itr]]; [reflexivity|reflexivity|].
  destruct r1 as [[d|]|]; [|reflexivity|reflexivity].
  destruct (on_diff st d) as [[st1 [|o outs]]|]; [apply IH|reflexivity|reflexivity].
Qed.

Lemma rpoll_is_gpoll hp fuel s is qp pend :
  gpoll on_diff on_param hp me inner2 fuel s (f is) qp pend =
  match rpoll on_diff on_param hp me inner fuel s is qp pend with
  | ROk (s', is', qp', r, tr) => Ok (s', f is', qp', r, tr)
  | _ => Panic
  end.
Proof.
  unfold gpoll, rpoll. destruct (u_ready s) as [|o rd]; [|reflexivity].
  destruct hp.
  - destruct (gpoll_params on_param me (u_st s) qp pend []) as [[[st1 qp1] o1] tr1].
    destruct o1 as [[|d ds]|]; [reflexivity|reflexivity|].
    rewrite rpoll_inner_is_gpoll_inner.
    destruct (rpoll_inner on_diff true me inner fuel st1 is pend true tr1) as [| |[[[s2 is2] r2] tr2]];
      reflexivity.
  - rewrite rpoll_inner_is_gpoll_inner.
    destruct (rpoll_inner on_diff false me inner fuel (u_st s) is pend true []) as [| |[[[s2 is2] r2] tr2]];
      reflexivity.
Qed.

End RLoopTie.

(* ------------------------------------------------------------------------------------------ *)
(* 1. one level over an arbitrary inner stream: never RPanic, the view, and Pending           *)
(* ------------------------------------------------------------------------------------------ *)
Section RView.
Context {A B St IS : Type}.
Variable on_diff : St -> diff A -> outcome (St * list (diff B)).
Variable on_param : St -> nat -> St * option (list (diff B)).
Variable hp : bool.
Variable me : nat.
Variable inner : IS -> res (IS * poll (option (diff A)) * ltrace).
Variable R : St -> list A -> list B -> Prop.
(* [J is w]: the inner stream is in state [is] while ITS consumer (= this level) holds [w];
   [Jp is w]: what a Pending answer of the inner stream establishes in addition *)
Variable J Jp : IS -> list A -> Prop.

Hypothesis Hstep : step_ok on_diff R.
Hypothesis Hparam : param_ok on_param R.
Hypothesis inner_view :
  forall is w, J is w ->
    match inner is with
    | RPanic => False
    | RFuel => True
    | ROk (is', r, itr) =>
        match r with
        | Ready (Some d) => exists w1, apply_all_ok [d] w = Some w1 /\ J is' w1
        | Ready None => J is' w
        | Pending => J is' w /\ Jp is' w
        end
    end.

(* what an answered poll of this level establishes; [v] = its consumer's view before the answer *)
Definition rpost (v : list B) (s' : ustate (B:=B) (St:=St)) (is' : IS)
  (r : poll (option (diff B))) : Prop :=
  exists w', J is' w' /\
    match r with
    | Ready (Some d) => exists v1, apply_all_ok [d] v = Some v1 /\ mid_burst R s' w' v1
    | Ready None => mid_burst R s' w' v
    | Pending => mid_burst R s' w' v /\ u_ready s' = [] /\ Jp is' w'
    end.

Lemma rpoll_inner_spec hp0 : forall fuel st is w v pend first tr,
  R st w v -> J is w ->
  match rpoll_inner on_diff hp0 me inner fuel st is pend first tr with
  | RPanic => False
  | RFuel => True
  | ROk (s', is', r, _) => rpost v s' is' r
  end.
Proof.
  induction fuel as [|fuel IH]; intros st is w v pend first tr HR HJ; cbn [rpoll_inner]; [exact I|].
  pose proof (inner_view _ _ HJ) as Hv.
  destruct (inner is) as [| |[[is1 r1] itr]]; [exact I|exact Hv|].
  destruct r1 as [[d|]|].
  - destruct Hv as (w1 & Hap & HJ1). apply apply_one_inv in Hap. destruct Hap as [Hok Had].
    destruct (Hstep st w v d HR Hok) as (st1 & outs & l1 & v1 & E1 & E2 & E3 & HR1).
    rewrite Had in E2. injection E2 as <-. rewrite E1.
    destruct outs as [|o outs'].
    + cbn in E3. injection E3 as <-. eapply IH; eassumption.
    + exists w1. split; [exact HJ1|]. eapply deliver_first; eassumption.
  - exists w. split; [exact Hv|]. apply mid_burst_quiet. exact HR.
  - destruct Hv as [HJ1 HJp]. exists w. split; [exact HJ1|].
    split; [apply mid_burst_quiet; exact HR|]. split; [reflexivity|exact HJp].
Qed.

Lemma rpoll_spec fuel s is w v qp pend :
  mid_burst R s w v -> J is w ->
  match rpoll on_diff on_param hp me inner fuel s is qp pend with
  | RPanic => False
  | RFuel => True
  | ROk (s', is', _, r, _) => rpost v s' is' r
  end.
Proof.
  intros (v' & Hrd & HR) HJ.
  unfold rpoll. destruct (u_ready s) as [|o rd] eqn:Erd.
  - cbn in Hrd. injection Hrd as <-.
    destruct hp.
    + destruct (gpoll_params on_param me (u_st s) qp pend []) as [[[st1 qp1] o1] tr1] eqn:Ep.
      destruct (gpoll_params_mid on_param me R Hparam _ _ _ _ _ _ _ _ _ _ HR Ep) as (v1 & E1 & HR1).
      destruct o1 as [[|d ds]|].
      * exists w. split; [exact HJ|]. cbn in E1. injection E1 as <-. apply mid_burst_quiet. exact HR1.
      * exists w. split; [exact HJ|]. eapply deliver_first; eassumption.
      * cbn in E1. injection E1 as <-.
        pose proof (rpoll_inner_spec true fuel st1 is w v pend true tr1 HR1 HJ) as Hi.
        destruct (rpoll_inner on_diff true me inner fuel st1 is pend true tr1)
          as [| |[[[s2 is2] r2] tr2]]; [exact I|exact Hi|exact Hi].
    + pose proof (rpoll_inner_spec false fuel (u_st s) is w v pend true [] HR HJ) as Hi.
      destruct (rpoll_inner on_diff false me inner fuel (u_st s) is pend true [])
        as [| |[[[s2 is2] r2] tr2]]; [exact I|exact Hi|exact Hi].
  - exists w. split; [exact HJ|]. eapply deliver_first; eassumption.
Qed.

End RView.

(* ------------------------------------------------------------------------------------------ *)
(* 2. chain_poll generalised over the bottom stream                                           *)
(* ------------------------------------------------------------------------------------------ *)
Section Over.
Context {A IS : Type}.
(* the bottom stream: any state machine (leaf 0 of the trace) *)
Variable bot : IS -> outcome (IS * poll (option (diff A)) * ltrace).

(* polling the top of a stack of at most [depth] stages over [bot]; the stages are ChainView's
   typed stages (a stage with the relation that makes it a correct adapter), so that the result is
   again a typed stack *)
Fixpoint chain_poll_over (depth fuel : nat) (c : list (cstage (A:=A)) * IS)
  : res (list (cstage (A:=A)) * IS * poll (option (diff A)) * ltrace) :=
  match fst c with
  | [] =>
      match bot (snd c) with
      | Ok (b', r, tr) => ROk (([], b'), r, tr)
      | Panic => RPanic
      end
  | cg :: below =>
      match depth with
      | 0 => RFuel
      | S depth' =>
          match rpoll (sg_on_diff (cs_stage cg)) (sg_on_param (cs_stage cg)) (sg_hp (cs_stage cg))
                      (length (fst c)) (chain_poll_over depth' fuel) fuel
                      (sg_s (cs_stage cg)) (below, snd c) (sg_qp (cs_stage cg)) (sg_pend (cs_stage cg)) with
          | RFuel => RFuel
          | RPanic => RPanic
          | ROk (s', c', qp', r, tr) => ROk ((cstage_with cg s' qp' :: fst c', snd c'), r, tr)
          end
      end
  end.

Lemma chain_poll_over_nil depth fuel (b : IS) :
  chain_poll_over depth fuel ([], b) =
  match bot b with Ok (b', r, tr) => ROk (([], b'), r, tr) | Panic => RPanic end.
Proof. destruct depth; reflexivity. Qed.

Lemma chain_poll_over_cons depth fuel (cg : cstage (A:=A)) below (b : IS) :
  chain_poll_over (S depth) fuel (cg :: below, b) =
  match rpoll (sg_on_diff (cs_stage cg)) (sg_on_param (cs_stage cg)) (sg_hp (cs_stage cg))
              (S (length below)) (chain_poll_over depth fuel) fuel
              (sg_s (cs_stage cg)) (below, b) (sg_qp (cs_stage cg)) (sg_pend (cs_stage cg)) with
  | RFuel => RFuel
  | RPanic => RPanic
  | ROk (s', c', qp', r, tr) => ROk ((cstage_with cg s' qp' :: fst c', snd c'), r, tr)
  end.
Proof. reflexivity. Qed.

End Over.

(* with the scripted queue at the bottom it is ChainPoll.chain_poll: same answer, same stack, same
   queue, same trace; RFuel and RPanic are both what chain_poll calls Panic *)
Theorem chain_poll_over_queue_is_chain_poll {A : Type} :
  forall (depth fuel : nat) (cc : cchain (A:=A)),
    chain_poll depth fuel (erase cc) =
    match chain_poll_over queue_inner depth fuel cc with
    | ROk (cc', r, tr) => Ok (erase cc', r, tr)
    | _ => Panic
    end.
Proof.
  induction depth as [|depth IH]; intros fuel [[|cg below] q]; unfold erase; cbn [fst snd map].
  - rewrite chain_poll_nil, chain_poll_over_nil. destruct (queue_inner q) as [[[q' r] tr]|]; reflexivity.
  - reflexivity.
  - rewrite chain_poll_nil, chain_poll_over_nil. destruct (queue_inner q) as [[[q' r] tr]|]; reflexivity.
  - rewrite chain_poll_cons, chain_poll_over_cons.
    change (map cs_stage below, q) with (erase (below, q)).
    rewrite map_length.
    rewrite (rpoll_is_gpoll (sg_on_diff (cs_stage cg)) (sg_on_param (cs_stage cg)) (S (length below))
               (chain_poll_over queue_inner depth fuel) (chain_poll depth fuel) erase).
    + destruct (rpoll _ _ _ _ _ _ _ _ _ _) as [| |[[[[s1 c1] qp1] r1] tr1]]; reflexivity.
    + intro is. rewrite IH.
      destruct (chain_poll_over queue_inner depth fuel is) as [| |[[is1 r1] tr1]]; reflexivity.
Qed.

(* ------------------------------------------------------------------------------------------ *)
(* 3. the nested loops keep every level's view correct, over any bottom stream                *)
(* ------------------------------------------------------------------------------------------ *)
Section QuietFacts.
Context {A : Type}.

(* nothing parked anywhere is a special case of the chain invariant *)
Lemma quiet_stages_view (gs : list (cstage (A:=A))) : forall l v,
  quiet_view gs l v -> stages_view gs l v.
Proof.
  induction gs as [|cg below IH]; intros l v H; cbn [stages_view quiet_view] in *.
  - exact H.
  - destruct H as (w & Hw & Hrd & HR). exists w. split; [apply IH; exact Hw|].
    exists v. split; [rewrite Hrd; reflexivity|exact HR].
Qed.

Lemma quiet_view_ready (gs : list (cstage (A:=A))) : forall l v,
  quiet_view gs l v -> Forall (fun cg => u_ready (sg_s (cs_stage cg)) = []) gs.
Proof.
  induction gs as [|cg below IH]; intros l v H; cbn [quiet_view] in H; constructor.
  - destruct H as (w & _ & Hrd & _). exact Hrd.
  - destruct H as (w & Hw & _). eapply IH; exact Hw.
Qed.

Lemma Forall2_evolves_length (gs gs' : list (cstage (A:=A))) :
  Forall2 evolves gs gs' -> length gs' = length gs.
Proof. induction 1; cbn [length]; congruence. Qed.

End QuietFacts.

Section OverView.
Context {A IS : Type}.
Variable bot : IS -> outcome (IS * poll (option (diff A)) * ltrace).
(* [Jb b l]: the bottom stream is in state [b] while its consumer (the bottom stage) has consumed
   it up to contents [l]; [Jbp b l]: what a Pending answer of the bottom establishes in addition *)
Variable Jb Jbp : IS -> list A -> Prop.
Hypothesis bot_view :
  forall b l, Jb b l ->
    match bot b with
    | Panic => False
    | Ok (b', r, _) =>
        match r with
        | Ready (Some d) => exists l1, apply_all_ok [d] l = Some l1 /\ Jb b' l1
        | Ready None => Jb b' l
        | Pending => Jb b' l /\ Jbp b' l
        end
    end.

(* what an answered poll of the top establishes; [gs] = the stack and [v] = the consumer's view
   before the poll *)
Definition over_post (gs : list (cstage (A:=A))) (v : list A)
  (c' : list (cstage (A:=A)) * IS) (r : poll (option (diff A))) : Prop :=
  Forall2 evolves gs (fst c') /\
  exists l', Jb (snd c') l' /\
    match r with
    | Ready (Some d) => exists v1, apply_all_ok [d] v = Some v1 /\ stages_view (fst c') l' v1
    | Ready None => stages_view (fst c') l' v
    | Pending => Jbp (snd c') l' /\ quiet_view (fst c') l' v
    end.

Theorem chain_poll_over_view :
  forall (depth fuel : nat) (gs : list (cstage (A:=A))) (b : IS) (l v : list A),
    stages_view gs l v -> Jb b l ->
    match chain_poll_over bot depth fuel (gs, b) with
    | RPanic => False
    | RFuel => True
    | ROk (c', r, _) => over_post gs v c' r
    end.
Proof.
  induction depth as [|depth IH]; intros fuel [|cg below] b l v Hv Hb.
  - (* no stage: the bare bottom stream answers *)
    rewrite chain_poll_over_nil. cbn [stages_view] in Hv. subst v.
    pose proof (bot_view _ _ Hb) as Hbv.
    destruct (bot b) as [[[b' r] tr]|]; [|exact Hbv].
    split; [constructor|]. cbn [fst snd].
    destruct r as [[d|]|].
    + destruct Hbv as (l1 & Hap & Hb1). exists l1. split; [exact Hb1|].
      exists l1. split; [exact Hap|reflexivity].
    + exists l. split; [exact Hbv|reflexivity].
    + destruct Hbv as [Hb1 Hbp]. exists l. split; [exact Hb1|]. split; [exact Hbp|reflexivity].
  - exact I.
  - rewrite chain_poll_over_nil. cbn [stages_view] in Hv. subst v.
    pose proof (bot_view _ _ Hb) as Hbv.
    destruct (bot b) as [[[b' r] tr]|]; [|exact Hbv].
    split; [constructor|]. cbn [fst snd].
    destruct r as [[d|]|].
    + destruct Hbv as (l1 & Hap & Hb1). exists l1. split; [exact Hb1|].
      exists l1. split; [exact Hap|reflexivity].
    + exists l. split; [exact Hbv|reflexivity].
    + destruct Hbv as [Hb1 Hbp]. exists l. split; [exact Hb1|]. split; [exact Hbp|reflexivity].
  - (* a stage on top of [below] *)
    rewrite chain_poll_over_cons.
    cbn [stages_view] in Hv. destruct Hv as (w & Hbelow & Hmid).
    (* the invariant of the stream below, as seen by this level *)
    pose (J := fun (c : list (cstage (A:=A)) * IS) (w0 : list A) =>
                 Forall2 evolves below (fst c) /\
                 exists l1, Jb (snd c) l1 /\ stages_view (fst c) l1 w0).
    pose (Jp := fun (c : list (cstage (A:=A)) * IS) (w0 : list A) =>
                  exists l1, Jb (snd c) l1 /\ Jbp (snd c) l1 /\ quiet_view (fst c) l1 w0).
    assert (HJ0 : J (below, b) w).
    { split; [apply Forall2_evolves_refl|]. exists l. split; [exact Hb|exact Hbelow]. }
    assert (Hinner : forall is w0, J is w0 ->
              match chain_poll_over bot depth fuel is with
              | RPanic => False
              | RFuel => True
              | ROk (is', r0, itr) =>
                  match r0 with
                  | Ready (Some d) => exists w1, apply_all_ok [d] w0 = Some w1 /\ J is' w1
                  | Ready None => J is' w0
                  | Pending => J is' w0 /\ Jp is' w0
                  end
              end).
    { intros [gs1 b1] w0 (Hev & l1 & Hb1 & Hv1). cbn [fst snd] in Hev, Hb1, Hv1.
      pose proof (IH fuel gs1 b1 l1 w0 Hv1 Hb1) as Hp.
      destruct (chain_poll_over bot depth fuel (gs1, b1)) as [| |[[is' r0] itr]]; [exact I|exact Hp|].
      destruct Hp as (Hev2 & l2 & Hb2 & Hpost).
      assert (Hev' : Forall2 evolves below (fst is'))
        by (eapply Forall2_evolves_trans; eassumption).
      destruct r0 as [[d|]|].
      - destruct Hpost as (w1 & Hap & Hv2). exists w1. split; [exact Hap|].
        split; [exact Hev'|]. exists l2. split; assumption.
      - split; [exact Hev'|]. exists l2. split; assumption.
      - destruct Hpost as [Hbp Hq]. split.
        + split; [exact Hev'|]. exists l2. split; [exact Hb2|apply quiet_stages_view; exact Hq].
        + exists l2. split; [exact Hb2|]. split; assumption. }
    pose proof (rpoll_spec (sg_on_diff (cs_stage cg)) (sg_on_param (cs_stage cg)) (sg_hp (cs_stage cg))
                  (S (length below)) (chain_poll_over bot depth fuel) (cs_R cg) J Jp
                  (sr_step _ (projT2 cg)) (sr_param _ (projT2 cg)) Hinner
                  fuel (sg_s (cs_stage cg)) (below, b) w v (sg_qp (cs_stage cg)) (sg_pend (cs_stage cg))
                  Hmid HJ0) as Hp.
    destruct (rpoll _ _ _ _ _ _ _ _ _ _) as [| |[[[[s1 c1] qp1] r1] tr1]]; [exact I|exact Hp|].
    destruct Hp as (w' & (Hev1 & l1 & Hb1 & Hv1) & Hpost).
    split. { cbn [fst]. constructor; [exists s1, qp1; reflexivity|exact Hev1]. }
    cbn [fst snd].
    destruct r1 as [[d|]|].
    + destruct Hpost as (v1 & Hap & Hm1). exists l1. split; [exact Hb1|].
      exists v1. split; [exact Hap|].
      cbn [stages_view]. exists w'. split; [exact Hv1|exact Hm1].
    + exists l1. split; [exact Hb1|]. cbn [stages_view]. exists w'. split; [exact Hv1|exact Hpost].
    + destruct Hpost as ((v' & Hap & HR) & Hrd & (l2 & Hb2 & Hbp2 & Hq2)).
      exists l2. split; [exact Hb2|]. split; [exact Hbp2|].
      cbn [quiet_view]. exists w'. split; [exact Hq2|]. split; [exact Hrd|].
      rewrite Hrd in Hap. cbn in Hap. injection Hap as <-. exact HR.
Qed.

End OverView.

(* ------------------------------------------------------------------------------------------ *)
(* 4. the stack on subscriber k of an ObservableVector, in any history                        *)
(* ------------------------------------------------------------------------------------------ *)
Definition resp_of {X : Type} (r : poll (option X)) : resp :=
  match r with Ready (Some _) => RItem | Ready None => REnd | Pending => RPending end.

Section Vec.
Context {A : Type}.

(* the plain stream of vector subscriber k (FullStack.vinner) as the bottom stream, leaf 0 *)
Definition vbot (k : nat) (g : gst A) : outcome (gst A * poll (option (diff A)) * ltrace) :=
  match vinner k g with
  | Ok (g', r) => Ok (g', r, [(0, resp_of r)])
  | Panic => Panic
  end.

(* the vector is in a reachable state, subscriber k is alive and plain, and the consumer of its
   stream has rebuilt [l] = the GHOST REPLICA of subscriber k *)
Definition vJ (k : nat) (g : gst A) (l : list A) : Prop :=
  ginv_strong g /\ subk k (OVec.subs (g_o g)) /\
  exists gh, nth_error (g_gh g) k = Some gh /\ gh_replica gh = l.

(* at Pending: the replica is the vector's current contents and the receiver is waiting *)
Definition vJp (k : nat) (g : gst A) (l : list A) : Prop :=
  l = values (g_o g) /\
  exists sb, nth_error (OVec.subs (g_o g)) k = Some (Some sb) /\ sb_waiting sb = true.

Lemma vbot_view k (g : gst A) l :
  vJ k g l ->
  match vbot k g with
  | Panic => False
  | Ok (g', r, _) =>
      match r with
      | Ready (Some d) => exists l1, apply_all_ok [d] l = Some l1 /\ vJ k g' l1
      | Ready None => vJ k g' l
      | Pending => vJ k g' l /\ vJp k g' l
      end
  end.
Proof.
  intros (Hg & (sb & Esb & Hb) & gh & Egh & <-).
  destruct (gpoll_plain k g sb gh Hg Esb Hb Egh) as (g' & r & E & Hg' & (sb' & Esb' & Hb' & Hw) & Hr).
  assert (Hsk' : subk k (OVec.subs (g_o g'))) by (exists sb'; split; assumption).
  unfold vbot, vinner. rewrite E.
  destruct r as [[it|]|].
  - destruct Hr as (d & gh' & -> & Egh' & Hap & _).
    exists (gh_replica gh'). split; [exact Hap|].
    split; [exact Hg'|]. split; [exact Hsk'|]. exists gh'. split; [exact Egh'|reflexivity].
  - destruct Hr as (Egh' & _).
    split; [exact Hg'|]. split; [exact Hsk'|]. exists gh. split; [exact Egh'|reflexivity].
  - destruct Hr as (Egh' & Hval). split.
    + split; [exact Hg'|]. split; [exact Hsk'|]. exists gh. split; [exact Egh'|reflexivity].
    + split; [exact Hval|]. exists sb'. split; [exact Esb'|apply Hw; reflexivity].
Qed.

(* how a stack is created from the subscription snapshot: the stages (top first) and the initial
   view handed to the consumer; nothing is parked and every level's relation holds *)
Record stackdesc := {
  sd_mk : list A -> list (cstage (A:=A)) * list A;
  sd_ok : forall l, quiet_view (fst (sd_mk l)) l (snd (sd_mk l));
}.

(* the stack as attached: the vector subscriber it owns, the stages, and the view the consumer has
   rebuilt from the initial values and every item handed out so far *)
Record cattached := {
  ca_k : nat;
  ca_gs : list (cstage (A:=A));
  ca_view : list A;
}.

Record cst := {
  c_g : gst A;                 (* the vector with its subscribers (and their ghosts) *)
  c_ad : option cattached;
  c_ok : bool;                 (* every item handed out so far was applicable to the view *)
}.

Definition cinit (capacity : nat) : cst :=
  {| c_g := ginit capacity; c_ad := None; c_ok := true |}.

Inductive cev :=
| EVec (x : OVecRun.op A)      (* any call on the vector side *)
| EParam (i : nat) (n : nat)   (* the value n arrives on the parameter stream of stage i (0 = top) *)
| EAttach (sd : stackdesc)     (* subscribe (plain stream) and create the stack from the snapshot *)
| EPoll (fuel : nat).          (* one poll_next of the top; the consumer applies the item *)

Inductive cout := CNone | CAnswer (r : poll (option (diff A))).

(* polls / the drop of the subscriber the stack owns are not the history's to make *)
Definition cowns (s : cst) (x : OVecRun.op A) : bool :=
  match c_ad s, x with
  | Some a, OPoll k | Some a, ODropSub k => k =? ca_k a
  | _, _ => false
  end.

(* a value arrives on the parameter stream of stage i: it is queued (a stage without parameter
   stream, or whose parameter stream has ended, receives nothing) *)
Definition push1 (n : nat) (cg : cstage (A:=A)) : cstage (A:=A) :=
  if sg_hp (cs_stage cg) && negb (sg_pend (cs_stage cg))
  then cstage_with cg (sg_s (cs_stage cg)) (sg_qp (cs_stage cg) ++ [n])
  else cg.

Fixpoint push_param (i n : nat) (gs : list (cstage (A:=A))) : list (cstage (A:=A)) :=
  match gs with
  | [] => []
  | cg :: rest =>
      match i with
      | 0 => push1 n cg :: rest
      | S i' => cg :: push_param i' n rest
      end
  end.

(* one event.  Calls that are impossible in the current state, and calls on the stream the stack
   owns, have no effect (as in OVecRun.grun / FullStack.fstep).  RFuel: the poll ran out of fuel;
   RPanic: something panicked inside a poll.  The depth handed to the nested loops is the height
   of the stack. *)
Definition cstep (s : cst) (e : cev) : res (cst * cout) :=
  match e with
  | EVec x =>
      if cowns s x then ROk (s, CNone) else
      match gstep (c_g s) x with
      | Ok (g', _) => ROk ({| c_g := g'; c_ad := c_ad s; c_ok := c_ok s |}, CNone)
      | Panic => ROk (s, CNone)
      end
  | EParam i n =>
      match c_ad s with
      | None => ROk (s, CNone)
      | Some a =>
          ROk ({| c_g := c_g s;
                  c_ad := Some {| ca_k := ca_k a; ca_gs := push_param i n (ca_gs a); ca_view := ca_view a |};
                  c_ok := c_ok s |}, CNone)
      end
  | EAttach sd =>
      match c_ad s with
      | Some _ => ROk (s, CNone)
      | None =>
          match gstep (c_g s) (OSub false) with
          | Ok (g', VSub k snap) =>
              ROk ({| c_g := g';
                      c_ad := Some {| ca_k := k; ca_gs := fst (sd_mk sd snap); ca_view := snd (sd_mk sd snap) |};
                      c_ok := c_ok s |}, CNone)
          | _ => ROk (s, CNone)
          end
      end
  | EPoll fuel =>
      match c_ad s with
      | None => ROk (s, CNone)
      | Some a =>
          match chain_poll_over (vbot (ca_k a)) (length (ca_gs a)) fuel (ca_gs a, c_g s) with
          | RFuel => RFuel
          | RPanic => RPanic
          | ROk (c', r, _) =>
              let '(view', ok) :=
                match r with
                | Ready (Some d) =>
                    match apply_all_ok [d] (ca_view a) with
                    | Some v' => (v', true)
                    | None => (ca_view a, false)
                    end
                | _ => (ca_view a, true)
                end in
              ROk ({| c_g := snd c';
                      c_ad := Some {| ca_k := ca_k a; ca_gs := fst c'; ca_view := view' |};
                      c_ok := c_ok s && ok |}, CAnswer r)
          end
      end
  end.

Fixpoint crun (s : cst) (evs : list cev) : res cst :=
  match evs with
  | [] => ROk s
  | e :: rest =>
      match cstep s e with
      | RFuel => RFuel
      | RPanic => RPanic
      | ROk (s', _) => crun s' rest
      end
  end.

(* ---------------- the invariant of whole histories ---------------- *)
Definition cinv (s : cst) : Prop :=
  ginv_strong (c_g s) /\ c_ok s = true /\
  match c_ad s with
  | None => True
  | Some a => exists l, vJ (ca_k a) (c_g s) l /\ stages_view (ca_gs a) l (ca_view a)
  end.

Lemma cinv_init capacity : cinv (cinit capacity).
Proof. split; [apply ginv_strong_init|]. split; [reflexivity|exact I]. Qed.

Lemma push1_evolves n (cg : cstage (A:=A)) : evolves cg (push1 n cg).
Proof.
  unfold push1. destruct (_ && _); [|apply evolves_refl].
  eexists. eexists. reflexivity.
Qed.

Lemma push_param_evolves i n : forall gs : list (cstage (A:=A)),
  Forall2 evolves gs (push_param i n gs).
Proof.
  induction i as [|i IH]; intros [|cg rest]; cbn [push_param]; try constructor.
  - apply push1_evolves.
  - apply Forall2_evolves_refl.
  - apply evolves_refl.
  - apply IH.
Qed.

Lemma stages_view_push i n : forall (gs : list (cstage (A:=A))) l v,
  stages_view gs l v -> stages_view (push_param i n gs) l v.
Proof.
  induction i as [|i IH]; intros [|cg rest] l v H; cbn [push_param]; try exact H.
  - cbn [stages_view] in *. destruct H as (w & Hw & Hm). exists w. split; [exact Hw|].
    unfold push1. destruct (_ && _); exact Hm.
  - cbn [stages_view] in *. destruct H as (w & Hw & Hm). exists w. split; [apply IH; exact Hw|exact Hm].
Qed.

Lemma cstep_ok s e :
  cinv s ->
  match cstep s e with
  | RPanic => False
  | RFuel => True
  | ROk (s', _) => cinv s'
  end.
Proof.
  intros Hinv. pose proof Hinv as (Hg & Hok & Had).
  destruct e as [x|i n|sd|fuel]; unfold cstep.
  - (* EVec *)
    destruct (cowns s x) eqn:Eo; [exact Hinv|].
    destruct (gstep (c_g s) x) as [[g' out]|] eqn:E; [|exact Hinv].
    pose proof (ginv_strong_step _ _ _ _ Hg E) as Hg'.
    unfold cinv. cbn [c_g c_ad c_ok]. split; [exact Hg'|]. split; [exact Hok|].
    unfold cowns in Eo. destruct (c_ad s) as [a|]; [|exact I].
    destruct Had as (l & (_ & Hsk & gh & Egh & Hl) & Hv).
    exists l. split; [|exact Hv].
    assert (Hx1 : x <> OPoll (ca_k a)) by (intros ->; rewrite Nat.eqb_refl in Eo; discriminate).
    assert (Hx2 : x <> ODropSub (ca_k a)) by (intros ->; rewrite Nat.eqb_refl in Eo; discriminate).
    assert (Hlen : ca_k a < length (g_gh (c_g s))) by (eapply nth_error_some_lt; eassumption).
    destruct (gstep_other (ca_k a) _ _ _ _ E Hx1 Hx2 Hsk Hlen) as (Hsk' & Egh').
    split; [exact Hg'|]. split; [exact Hsk'|]. exists gh. split; [rewrite Egh'; exact Egh|exact Hl].
  - (* EParam *)
    destruct (c_ad s) as [a|]; [|exact Hinv].
    unfold cinv. cbn [c_g c_ad c_ok ca_k ca_gs ca_view]. split; [exact Hg|]. split; [exact Hok|].
    destruct Had as (l & HJ & Hv). exists l. split; [exact HJ|apply stages_view_push; exact Hv].
  - (* EAttach *)
    destruct (c_ad s) as [a|] eqn:Ea; [exact Hinv|].
    destruct (gstep_sub_plain (c_g s)) as [E1|E1]; rewrite E1; [exact Hinv|].
    pose proof (ginv_strong_step _ _ _ _ Hg E1) as Hg'.
    unfold cinv. cbn [c_g c_ad c_ok ca_k ca_gs ca_view].
    split; [exact Hg'|]. split; [exact Hok|].
    exists (values (g_o (c_g s))). split; [|apply quiet_stages_view; apply sd_ok].
    split; [exact Hg'|]. cbn [g_o g_gh OVec.subs OVec.with_subs]. split.
    + eexists. split; [rewrite nth_error_app2 by lia; rewrite Nat.sub_diag; reflexivity|reflexivity].
    + eexists. rewrite <- (ginv_strong_len _ Hg). split.
      * rewrite nth_error_app2 by lia. rewrite Nat.sub_diag. reflexivity.
      * reflexivity.
  - (* EPoll *)
    destruct (c_ad s) as [a|] eqn:Ea; [|exact Hinv].
    destruct Had as (l & HJ & Hv).
    pose proof (chain_poll_over_view (vbot (ca_k a)) (vJ (ca_k a)) (vJp (ca_k a)) (vbot_view (ca_k a))
                  (length (ca_gs a)) fuel (ca_gs a) (c_g s) l (ca_view a) Hv HJ) as Hp.
    destruct (chain_poll_over (vbot (ca_k a)) (length (ca_gs a)) fuel (ca_gs a, c_g s))
      as [| |[[c' r] tr]]; [exact I|exact Hp|].
    destruct Hp as (_ & l' & HJ' & Hpost).
    assert (Hfin : forall view', stages_view (fst c') l' view' ->
      cinv {| c_g := snd c';
              c_ad := Some {| ca_k := ca_k a; ca_gs := fst c'; ca_view := view' |};
              c_ok := c_ok s && true |}).
    { intros view' Hv'. unfold cinv. cbn [c_g c_ad c_ok ca_k ca_gs ca_view].
      split; [apply HJ'|]. split; [rewrite Hok; reflexivity|]. exists l'. split; assumption. }
    destruct r as [[d|]|].
    + destruct Hpost as (v1 & Hap & Hv1). rewrite Hap. apply Hfin. exact Hv1.
    + apply Hfin. exact Hpost.
    + apply Hfin. apply quiet_stages_view. apply Hpost.
Qed.

Lemma crun_ok : forall evs s,
  cinv s ->
  match crun s evs with
  | RPanic => False
  | RFuel => True
  | ROk s' => cinv s'
  end.
Proof.
  induction evs as [|e evs IH]; intros s Hinv; cbn [crun]; [exact Hinv|].
  pose proof (cstep_ok s e Hinv) as Hs.
  destruct (cstep s e) as [| |[s' out]]; [exact I|exact Hs|].
  apply IH. exact Hs.
Qed.

Lemma crun_inv capacity evs s : crun (cinit capacity) evs = ROk s -> cinv s.
Proof.
  intro E. pose proof (crun_ok evs _ (cinv_init capacity)) as H. rewrite E in H. exact H.
Qed.

(* STATEMENTS.  Each is stated for every capacity of the vector and every history. *)

(* T1: nothing ever panics: no adapter panic at any level, no unreachable!/expect in the vector's
   stream, no poll of a dropped subscriber *)
Theorem ce_never_panics :
  forall capacity evs, crun (cinit capacity) evs <> RPanic.
Proof.
  intros capacity evs E.
  pose proof (crun_ok evs _ (cinv_init capacity)) as H. rewrite E in H. exact H.
Qed.

(* T2: every item handed out was applicable to the consumer's view, and the chain invariant
   (ChainView.stages_view) holds with the bottom level standing for the GHOST REPLICA of the
   stack's vector subscriber: going up, every level is [mid_burst] between the view its supplier's
   consumer holds and the view its own consumer holds; the top consumer holds [ca_view] *)
Theorem ce_invariant :
  forall capacity evs s,
    crun (cinit capacity) evs = ROk s ->
    c_ok s = true /\
    match c_ad s with
    | None => True
    | Some a =>
        exists gh, nth_error (g_gh (c_g s)) (ca_k a) = Some gh /\
                   stages_view (ca_gs a) (gh_replica gh) (ca_view a)
    end.
Proof.
  intros capacity evs s E.
  destruct (crun_inv capacity evs s E) as (_ & Hok & Had).
  split; [exact Hok|]. destruct (c_ad s) as [a|]; [|exact I].
  destruct Had as (l & (_ & _ & gh & Egh & <-) & Hv). exists gh. split; assumption.
Qed.

(* a poll that answers *)
Lemma cstep_poll_inv s fuel s' r :
  cinv s -> cstep s (EPoll fuel) = ROk (s', CAnswer r) ->
  exists a a', c_ad s = Some a /\ c_ad s' = Some a' /\ ca_k a' = ca_k a /\
    over_post (vJ (ca_k a)) (vJp (ca_k a)) (ca_gs a) (ca_view a) (ca_gs a', c_g s') r /\
    c_ok s' = true /\
    match r with
    | Ready (Some d) => apply_all_ok [d] (ca_view a) = Some (ca_view a')
    | _ => ca_view a' = ca_view a
    end.
Proof.
  intros (Hg & Hok & Had) H. unfold cstep in H.
  destruct (c_ad s) as [a|]; [|discriminate].
  destruct Had as (l & HJ & Hv).
  pose proof (chain_poll_over_view (vbot (ca_k a)) (vJ (ca_k a)) (vJp (ca_k a)) (vbot_view (ca_k a))
                (length (ca_gs a)) fuel (ca_gs a) (c_g s) l (ca_view a) Hv HJ) as Hp.
  destruct (chain_poll_over (vbot (ca_k a)) (length (ca_gs a)) fuel (ca_gs a, c_g s))
    as [| |[[[gs' g'] r0] tr]]; [discriminate|discriminate|].
  cbn [fst snd] in H.
  exists a. destruct r0 as [[d|]|].
  - pose proof Hp as (_ & l' & _ & v1 & Hap & _). rewrite Hap in H. injection H as <- <-.
    eexists. split; [reflexivity|]. cbn [c_ad c_g c_ok ca_k ca_gs ca_view].
    split; [reflexivity|]. split; [reflexivity|]. split; [exact Hp|].
    split; [rewrite Hok; reflexivity|exact Hap].
  - injection H as <- <-.
    eexists. split; [reflexivity|]. cbn [c_ad c_g c_ok ca_k ca_gs ca_view].
    split; [reflexivity|]. split; [reflexivity|]. split; [exact Hp|].
    split; [rewrite Hok; reflexivity|reflexivity].
  - injection H as <- <-.
    eexists. split; [reflexivity|]. cbn [c_ad c_g c_ok ca_k ca_gs ca_view].
    split; [reflexivity|]. split; [reflexivity|]. split; [exact Hp|].
    split; [rewrite Hok; reflexivity|reflexivity].
Qed.

(* T3: every diff handed out is applicable to the consumer's view (and the stack afterwards is the
   same stack - same handlers, same relations - in new dynamic states) *)
Theorem ce_item_applicable :
  forall capacity evs s fuel s' d,
    crun (cinit capacity) evs = ROk s ->
    cstep s (EPoll fuel) = ROk (s', CAnswer (Ready (Some d))) ->
    exists a a', c_ad s = Some a /\ c_ad s' = Some a' /\ ca_k a' = ca_k a /\
      Forall2 evolves (ca_gs a) (ca_gs a') /\
      apply_all_ok [d] (ca_view a) = Some (ca_view a').
Proof.
  intros capacity evs s fuel s' d E H.
  destruct (cstep_poll_inv _ _ _ _ (crun_inv _ _ _ E) H) as (a & a' & Ea & Ea' & Hk & (Hev & _) & _ & Hap).
  exists a, a'. cbn [fst] in Hev. repeat split; assumption.
Qed.

(* T4: whenever the top of the stack answers Pending - whatever happened on the vector, whatever
   the capacity (lag, Reset), however rarely the stack was polled, whatever parameter values
   arrived - every ready buffer of the stack is empty, the vector's receiver is waiting (the waker
   is registered with the real source leaf), the consumer's view is unchanged, and it is the
   composition of the stages' views (ChainView.quiet_view) of the vector's CURRENT contents *)
Theorem ce_view_at_pending :
  forall capacity evs s fuel s',
    crun (cinit capacity) evs = ROk s ->
    cstep s (EPoll fuel) = ROk (s', CAnswer Pending) ->
    exists a a', c_ad s = Some a /\ c_ad s' = Some a' /\ ca_k a' = ca_k a /\
      Forall2 evolves (ca_gs a) (ca_gs a') /\ ca_view a' = ca_view a /\
      Forall (fun cg => u_ready (sg_s (cs_stage cg)) = []) (ca_gs a') /\
      (exists sb, nth_error (OVec.subs (g_o (c_g s'))) (ca_k a') = Some (Some sb) /\
                  sb_waiting sb = true) /\
      quiet_view (ca_gs a') (values (g_o (c_g s'))) (ca_view a').
Proof.
  intros capacity evs s fuel s' E H.
  destruct (cstep_poll_inv _ _ _ _ (crun_inv _ _ _ E) H)
    as (a & a' & Ea & Ea' & Hk & (Hev & l' & _ & (Hl & Hw) & Hq) & _ & Hview).
  cbn [fst snd] in Hev, Hl, Hw, Hq. subst l'.
  exists a, a'. split; [exact Ea|]. split; [exact Ea'|]. split; [exact Hk|].
  split; [exact Hev|]. split; [exact Hview|]. rewrite Hview, Hk.
  split; [eapply quiet_view_ready; exact Hq|]. split; [exact Hw|exact Hq].
Qed.

End Vec.
Arguments cev : clear implicits.
Arguments cst : clear implicits.
Arguments cattached : clear implicits.
Arguments stackdesc : clear implicits.

(* ------------------------------------------------------------------------------------------ *)
(* 5. termination: with enough fuel a poll of the stack answers                               *)
(* ------------------------------------------------------------------------------------------ *)
(* ChainView's drains machinery, over an arbitrary bottom stream that hands out finitely many
   items in a row (measure [mu]) *)
Section OverDrains.
Context {A IS : Type}.
Variable bot : IS -> outcome (IS * poll (option (diff A)) * ltrace).
Variable Jb Jbp : IS -> list A -> Prop.
Variable mu : IS -> nat.
Hypothesis bot_view :
  forall b l, Jb b l ->
    match bot b with
    | Panic => False
    | Ok (b', r, _) =>
        match r with
        | Ready (Some d) => exists l1, apply_all_ok [d] l = Some l1 /\ Jb b' l1
        | Ready None => Jb b' l
        | Pending => Jb b' l /\ Jbp b' l
        end
    end.
Hypothesis bot_mu :
  forall b l b' d tr, Jb b l -> bot b = Ok (b', Ready (Some d), tr) -> mu b' < mu b.

Notation cpo := (chain_poll_over bot).
Notation ostate := (list (cstage (A:=A)) * IS)%type.

(* [oanswers c res]: from some fuel on (and any sufficient depth) the poll of [c] answers [res] *)
Definition oanswers (c : ostate) (res : ostate * poll (option (diff A)) * ltrace) : Prop :=
  exists F, forall depth fuel, length (fst c) <= depth -> F <= fuel -> cpo depth fuel c = ROk res.

(* [odrains c]: polled again and again, [c] answers every time and, after finitely many items,
   something that is not an item *)
Inductive odrains : ostate -> Prop :=
| odrains_intro c c' r tr :
    oanswers c (c', r, tr) ->
    (forall d, r = Ready (Some d) -> odrains c') ->
    odrains c.

Definition oJ (c : ostate) (w : list A) : Prop :=
  exists l1, Jb (snd c) l1 /\ stages_view (fst c) l1 w.

Lemma oJ_step depth fuel is w is' r itr :
  oJ is w -> cpo depth fuel is = ROk (is', r, itr) ->
  length (fst is') = length (fst is) /\
  match r with
  | Ready (Some d) => exists w1, apply_all_ok [d] w = Some w1 /\ oJ is' w1
  | _ => oJ is' w
  end.
Proof.
  destruct is as [gs b]. intros (l1 & Hb1 & Hv1) Hp. cbn [fst snd] in *.
  pose proof (chain_poll_over_view bot Jb Jbp bot_view depth fuel gs b l1 w Hv1 Hb1) as H.
  rewrite Hp in H. destruct H as (Hev & l2 & Hb2 & Hpost).
  split; [apply Forall2_evolves_length; exact Hev|].
  destruct r as [[d|]|].
  - destruct Hpost as (w1 & Hap & Hv2). exists w1. split; [exact Hap|]. exists l2. split; assumption.
  - exists l2. split; assumption.
  - exists l2. split; [exact Hb2|]. apply quiet_stages_view. apply Hpost.
Qed.

Definition otop (cg : cstage (A:=A)) (s : ustate (B:=A) (St:=sg_St (cs_stage cg))) (qp : list nat)
           (is : ostate) : ostate :=
  (cstage_with cg s qp :: fst is, snd is).

Lemma cpo_top (cg : cstage (A:=A)) depth fuel s qp (is : ostate) :
  cpo (S depth) fuel (otop cg s qp is) =
  match rpoll (sg_on_diff (cs_stage cg)) (sg_on_param (cs_stage cg)) (sg_hp (cs_stage cg))
              (S (length (fst is))) (cpo depth fuel) fuel s is qp (sg_pend (cs_stage cg)) with
  | RFuel => RFuel
  | RPanic => RPanic
  | ROk (s', c', qp', r, tr) => ROk (otop cg s' qp' c', r, tr)
  end.
Proof. destruct is as [below b]. reflexivity. Qed.

Section TopDrains.
Variable cg : cstage (A:=A).
Let g := cs_stage cg.
Let R := cs_R cg.

(* the top level over a stream [is] that drains: *)
(* ... the whole level drains, whatever it has parked and queued *)
Definition oPst (is : ostate) : Prop :=
  forall s qp w v, oJ is w -> mid_burst R s w v -> odrains (otop cg s qp is).
(* ... its loop over the stream below comes to an end *)
Definition oQst (is : ostate) : Prop :=
  forall hp0 me w st v pend first tr qp, oJ is w -> R st w v ->
    exists F s' is' r tr',
      (forall d fi fl, length (fst is) <= d -> F <= fi -> F <= fl ->
         rpoll_inner (sg_on_diff g) hp0 me (cpo d fi) fl st is pend first tr
         = ROk (s', is', r, tr')) /\
      (forall x, r = Ready (Some x) -> odrains (otop cg s' qp is')).

Lemma oPst_of_oQst is : oQst is -> oPst is.
Proof.
  intros HQ s qp w v HJ Hmid.
  assert (HP : forall n m s qp v, length qp = n -> length (u_ready s) = m ->
             mid_burst R s w v -> odrains (otop cg s qp is)).
  2:{ eapply HP; [reflexivity|reflexivity|exact Hmid]. }
  clear s qp v Hmid.
  induction n as [n IHn] using lt_wf_ind. induction m as [m IHm] using lt_wf_ind.
  intros [st rd] qp v Hn Hm (v' & Hap & HR). cbn [u_ready u_st] in *.
  destruct rd as [|o rd].
  - (* nothing parked *)
    cbn in Hap. injection Hap as <-.
    destruct (sg_hp g) eqn:Hh.
    + destruct (gpoll_params (sg_on_param g) (S (length (fst is))) st qp (sg_pend g) [])
        as [[[st1 qp1] o1] tr1] eqn:Ep.
      destruct (gpoll_params_mid (sg_on_param g) (S (length (fst is))) R (sr_param _ (projT2 cg))
                  _ _ _ _ _ _ _ _ _ _ HR Ep) as (v1 & E1 & HR1).
      destruct (gpoll_params_len _ _ _ _ _ _ _ _ _ _ Ep) as [Hle Hlt].
      destruct o1 as [[|d ds]|].
      * (* Some []: the stream ends *)
        apply odrains_intro with (c' := otop cg {| u_st := st1; u_ready := [] |} qp1 is)
                                 (r := Ready None) (tr := tr1); [|discriminate].
        exists 0. intros depth fuel Hd _. destruct depth as [|depth]; [cbn in Hd; lia|].
        rewrite cpo_top. unfold rpoll. cbn [u_ready u_st]. fold g. rewrite Hh, Ep. reflexivity.
      * apply odrains_intro with (c' := otop cg {| u_st := st1; u_ready := ds |} qp1 is)
                                 (r := Ready (Some d)) (tr := tr1).
        -- exists 0. intros depth fuel Hd _. destruct depth as [|depth]; [cbn in Hd; lia|].
           rewrite cpo_top. unfold rpoll. cbn [u_ready u_st]. fold g. rewrite Hh, Ep. reflexivity.
        -- intros d0 _.
           destruct (deliver_first R st1 w v d ds v1 E1 HR1) as (v2 & _ & Hm2).
           eapply (IHn (length qp1)); [specialize (Hlt _ eq_refl); lia|reflexivity|reflexivity|exact Hm2].
      * cbn in E1. injection E1 as <-.
        destruct (HQ true (S (length (fst is))) w st1 v (sg_pend g) true tr1 qp1 HJ HR1)
          as (F & s' & is' & r & tr' & Hrun & Hdr).
        apply odrains_intro with (c' := otop cg s' qp1 is') (r := r) (tr := tr'); [|exact Hdr].
        exists F. intros depth fuel Hd Hf. destruct depth as [|depth]; [cbn in Hd; lia|].
        rewrite cpo_top. unfold rpoll. cbn [u_ready u_st]. fold g. rewrite Hh, Ep.
        rewrite (Hrun depth fuel fuel); [reflexivity|cbn in Hd; lia|exact Hf|exact Hf].
    + destruct (HQ false (S (length (fst is))) w st v (sg_pend g) true [] qp HJ HR)
        as (F & s' & is' & r & tr' & Hrun & Hdr).
      apply odrains_intro with (c' := otop cg s' qp is') (r := r) (tr := tr'); [|exact Hdr].
      exists F. intros depth fuel Hd Hf. destruct depth as [|depth]; [cbn in Hd; lia|].
      rewrite cpo_top. unfold rpoll. cbn [u_ready u_st]. fold g. rewrite Hh.
      rewrite (Hrun depth fuel fuel); [reflexivity|cbn in Hd; lia|exact Hf|exact Hf].
  - (* a parked diff is handed out *)
    destruct (deliver_first R st w v o rd v' Hap HR) as (v1 & _ & Hm1).
    apply odrains_intro with (c' := otop cg {| u_st := st; u_ready := rd |} qp is)
                             (r := Ready (Some o)) (tr := []).
    + exists 0. intros depth fuel Hd _. destruct depth as [|depth]; [cbn in Hd; lia|].
      rewrite cpo_top. reflexivity.
    + intros d0 _. cbn [length] in Hm.
      eapply (IHm (length rd)); [lia|exact Hn|reflexivity|exact Hm1].
Qed.

Lemma otop_drains : forall is, odrains is -> oPst is /\ oQst is.
Proof.
  induction 1 as [is is1 r1 itr Hans _ IH].
  assert (HQ : oQst is); [|split; [apply oPst_of_oQst|]; exact HQ].
  intros hp0 me w st v pend first tr qp HJ HR.
  destruct Hans as [F1 Hans].
  pose proof (Hans (length (fst is)) F1 (le_n _) (le_n _)) as Hp1.
  destruct (oJ_step _ _ _ _ _ _ _ HJ Hp1) as [Hlen Hv1].
  set (tr0 := (if first then tr else tr ++ gparam_again hp0 me pend) ++ itr).
  destruct r1 as [[x|]|].
  - destruct Hv1 as (w1 & Hap & HJ1). apply apply_one_inv in Hap. destruct Hap as [Hok Had].
    destruct (sr_step _ (projT2 cg) st w v x HR Hok) as (st1 & outs & l1 & v1 & E1 & E2 & E3 & HR1).
    rewrite Had in E2. injection E2 as <-.
    change (sg_on_diff g st x = Ok (st1, outs)) in E1.
    destruct (IH x eq_refl) as [HP1 HQ1].
    destruct outs as [|o outs'].
    + cbn in E3. injection E3 as <-.
      destruct (HQ1 hp0 me w1 st1 v pend false tr0 qp HJ1 HR1)
        as (F2 & s' & is' & r & tr' & Hrun & Hdr).
      exists (Nat.max F1 (S F2)), s', is', r, tr'. split; [|exact Hdr].
      intros d fi fl Hd Hfi Hfl. destruct fl as [|fl]; [lia|]. cbn [rpoll_inner].
      rewrite (Hans d fi Hd ltac:(lia)). rewrite E1.
      apply Hrun; lia.
    + exists (Nat.max F1 1), {| u_st := st1; u_ready := outs' |}, is1, (Ready (Some o)), tr0.
      split.
      * intros d fi fl Hd Hfi Hfl. destruct fl as [|fl]; [lia|]. cbn [rpoll_inner].
        rewrite (Hans d fi Hd ltac:(lia)). rewrite E1. reflexivity.
      * intros x0 _.
        destruct (deliver_first R st1 w1 v o outs' v1 E3 HR1) as (v2 & _ & Hm2).
        eapply HP1; [exact HJ1|exact Hm2].
  - exists (Nat.max F1 1), {| u_st := st; u_ready := [] |}, is1, (Ready None), tr0.
    split; [|discriminate].
    intros d fi fl Hd Hfi Hfl. destruct fl as [|fl]; [lia|]. cbn [rpoll_inner].
    rewrite (Hans d fi Hd ltac:(lia)). reflexivity.
  - exists (Nat.max F1 1), {| u_st := st; u_ready := [] |}, is1, Pending, tr0.
    split; [|discriminate].
    intros d fi fl Hd Hfi Hfl. destruct fl as [|fl]; [lia|]. cbn [rpoll_inner].
    rewrite (Hans d fi Hd ltac:(lia)). reflexivity.
Qed.

End TopDrains.

(* the bare bottom stream drains: it hands out at most [mu b] items in a row *)
Lemma bot_drains : forall n b l, mu b <= n -> Jb b l -> odrains ([], b).
Proof.
  induction n as [|n IH]; intros b l Hn Hb.
  - pose proof (bot_view _ _ Hb) as Hv.
    destruct (bot b) as [[[b' r] tr]|] eqn:E; [|contradiction].
    apply odrains_intro with (c' := ([], b')) (r := r) (tr := tr).
    + exists 0. intros depth fuel _ _. rewrite chain_poll_over_nil, E. reflexivity.
    + intros d ->. pose proof (bot_mu _ _ _ _ _ Hb E). lia.
  - pose proof (bot_view _ _ Hb) as Hv.
    destruct (bot b) as [[[b' r] tr]|] eqn:E; [|contradiction].
    apply odrains_intro with (c' := ([], b')) (r := r) (tr := tr).
    + exists 0. intros depth fuel _ _. rewrite chain_poll_over_nil, E. reflexivity.
    + intros d ->. pose proof (bot_mu _ _ _ _ _ Hb E). destruct Hv as (l1 & _ & Hb1).
      apply (IH b' l1); [lia|exact Hb1].
Qed.

Theorem chain_over_drains :
  forall (gs : list (cstage (A:=A))) (b : IS) (l v : list A),
    stages_view gs l v -> Jb b l -> odrains (gs, b).
Proof.
  induction gs as [|cg below IH]; intros b l v Hv Hb.
  - eapply bot_drains; [apply le_n|exact Hb].
  - cbn [stages_view] in Hv. destruct Hv as (w & Hbelow & Hmid).
    pose proof (IH b l w Hbelow Hb) as Hd.
    destruct (otop_drains cg _ Hd) as [HP _].
    assert (HJ : oJ (below, b) w) by (exists l; split; assumption).
    specialize (HP (sg_s (cs_stage cg)) (sg_qp (cs_stage cg)) w v HJ Hmid).
    unfold otop in HP. cbn [fst snd] in HP.
    destruct cg as [[St od op hp s qp pend] [R p1 p2 p3]]. exact HP.
Qed.

(* no panic, no starvation: from some fuel on the answer is there and does not change *)
Theorem chain_poll_over_answers :
  forall (gs : list (cstage (A:=A))) (b : IS) (l v : list A),
    stages_view gs l v -> Jb b l ->
    exists F res, forall depth fuel, length gs <= depth -> F <= fuel ->
      chain_poll_over bot depth fuel (gs, b) = ROk res.
Proof.
  intros gs b l v Hv Hb.
  pose proof (chain_over_drains gs b l v Hv Hb) as Hd.
  inversion Hd as [c c' r tr [F Hans] _ Ec]. subst c.
  exists F, (c', r, tr). exact Hans.
Qed.

End OverDrains.

Section VecTerm.
Context {A : Type}.

Lemma vbot_mu k (g : gst A) l g' d tr :
  vJ k g l -> vbot k g = Ok (g', Ready (Some d), tr) -> muk k g' < muk k g.
Proof.
  intros (Hg & (sb & Esb & Hb) & gh & Egh & _) H.
  destruct (gpoll_plain k g sb gh Hg Esb Hb Egh) as (g1 & r & E & _ & _ & Hr).
  unfold vbot, vinner in H. rewrite E in H.
  destruct r as [[it|]|]; [|discriminate|discriminate].
  destruct Hr as (d1 & gh' & -> & _ & _ & Hmu). injection H as <- _ _. lia.
Qed.

(* T5: a poll of the top always answers, given enough fuel *)
Theorem ce_poll_terminates :
  forall capacity (evs : list (cev A)) s,
    crun (cinit capacity) evs = ROk s ->
    exists fuel, forall fuel', fuel <= fuel' -> cstep s (EPoll fuel') <> RFuel.
Proof.
  intros capacity evs s E.
  destruct (crun_inv capacity evs s E) as (Hg & Hok & Had).
  destruct (c_ad s) as [a|] eqn:Ea.
  - destruct Had as (l & HJ & Hv).
    destruct (chain_poll_over_answers (vbot (ca_k a)) (vJ (ca_k a)) (vJp (ca_k a)) (muk (ca_k a))
                (vbot_view (ca_k a)) (vbot_mu (ca_k a)) (ca_gs a) (c_g s) l (ca_view a) Hv HJ)
      as (F & [[c' r] tr] & Hans).
    exists F. intros fuel' Hf. unfold cstep. rewrite Ea.
    rewrite (Hans (length (ca_gs a)) fuel' (le_n _) Hf).
    destruct r as [[d|]|]; [destruct (apply_all_ok [d] (ca_view a))|..]; discriminate.
  - exists 0. intros fuel' _. unfold cstep. rewrite Ea. discriminate.
Qed.

End VecTerm.

(* ------------------------------------------------------------------------------------------ *)
(* 6. Head over Skip in closed form; non-vacuity, computed, on a vector of capacity 1         *)
(* ------------------------------------------------------------------------------------------ *)
(* the two-stage stack Head over Skip, in closed form: at Pending the consumer's view is
   Head's current limit applied to Skip's current count applied to the vector's CURRENT contents *)
Theorem ce_head_over_skip_view :
  forall capacity (evs : list (cev nat)) s fuel s' a hst hrd hqp hpend sst srd sqp spend,
    crun (cinit capacity) evs = ROk s ->
    cstep s (EPoll fuel) = ROk (s', CAnswer Pending) ->
    c_ad s = Some a ->
    ca_gs a = [head_cstage hst hrd hqp hpend; skip_cstage sst srd sqp spend] ->
    exists a' hst' hqp' sst' sqp',
      c_ad s' = Some a' /\
      ca_gs a' = [head_cstage hst' [] hqp' hpend; skip_cstage sst' [] sqp' spend] /\
      ca_view a' = firstn (h_limit hst') (skip_view_of (s_count sst') (values (g_o (c_g s')))).
Proof.
  intros capacity evs s fuel s' a hst hrd hqp hpend sst srd sqp spend E H Ea Egs.
  destruct (ce_view_at_pending capacity evs s fuel s' E H)
    as (a0 & a' & Ea0 & Ea' & _ & Hev & _ & _ & _ & Hq).
  rewrite Ea in Ea0. injection Ea0 as <-. rewrite Egs in Hev.
  inversion Hev as [|x cb l1 l1' Hevb Hev1 Ex Egs']. subst x l1.
  inversion Hev1 as [|x ca l2 l2' Heva Hev2 Ex' El1']. subst x l2 l1'.
  inversion Hev2. subst l2'. clear Hev Hev1 Hev2.
  destruct Hevb as ([hst' hrd'] & hqp' & ->). destruct Heva as ([sst' srd'] & sqp' & ->).
  rewrite <- Egs' in Hq. apply quiet_view_two in Hq.
  destruct Hq as (Hra & Hrb & mid & [_ Hmid] & [Hbuf Hview]).
  cbn [cs_stage cstage_with projT1 stage_with sg_s u_ready u_st head_cstage skip_cstage] in Hra, Hrb, Hmid, Hbuf, Hview.
  subst hrd' srd'.
  exists a', hst', hqp', sst', sqp'. split; [exact Ea'|]. split; [symmetry; exact Egs'|].
  rewrite Hview, Hmid. reflexivity.
Qed.

(* dynamic Head (initial limit 2) over dynamic Skip (initial count 1), created from the snapshot *)
Definition hs_mk (l : list nat) : list (cstage (A:=nat)) * list nat :=
  ([head_cstage (snd (head_init 2 (skipn 1 l))) [] [] false;
    skip_cstage (snd (skip_init 1 l)) [] [] false],
   firstn 2 (skipn 1 l)).

Lemma hs_mk_ok l : quiet_view (fst (hs_mk l)) l (snd (hs_mk l)).
Proof.
  unfold hs_mk. cbn [fst snd quiet_view]. exists (skipn 1 l). split.
  - exists l. split; [reflexivity|]. split; [reflexivity|]. apply skip_init_ok.
  - split; [reflexivity|]. apply head_init_ok.
Qed.

Definition hs_desc : stackdesc nat := {| sd_mk := hs_mk; sd_ok := hs_mk_ok |}.

(* what the events of a history hand back, one by one *)
Fixpoint crun_outs (s : cst nat) (evs : list (cev nat)) : list (@cout nat) :=
  match evs with
  | [] => []
  | e :: rest => match cstep s e with ROk (s', o) => o :: crun_outs s' rest | _ => [] end
  end.

(* append [1;2;3;4]; attach (view [2;3]); poll: Pending.  Then THREE mutations on a vector whose
   channel keeps ONE message: the stack's subscriber lags.  The limit of Head becomes 3.  A poll of
   the stack's own subscriber by the history is ignored.  Polls: Head's limit change is served
   first (Append [4]: Head still stands for the old contents), then the vector's lag Reset goes
   through Skip (Reset [3;4;5;6]) and Head (Reset [3;4;5]), then Pending: the view is
   Head 3 of Skip 1 of the vector's current contents [2;3;4;5;6]. *)
Definition ce_ex_evs : list (cev nat) :=
  [EVec (OMut (MAppend [1;2;3;4])); EAttach hs_desc; EPoll 10;
   EVec (OMut (MPushBack 5)); EVec (OMut MPopFront); EVec (OMut (MPushBack 6));
   EParam 0 3; EVec (OPoll 0); EPoll 10; EPoll 10].

(* what the example looks at in the final state: the ok flag, the channel capacity, the vector's
   contents, the consumer's view, whether subscriber 0 was ever resynchronised by a lag Reset, and
   the receivers *)
Definition ce_obs (s : cst nat) :=
  (c_ok s, cap2 (g_o (c_g s)), values (g_o (c_g s)), option_map (@ca_view nat) (c_ad s),
   option_map (@gh_lagged nat) (nth_error (g_gh (c_g s)) 0), OVec.subs (g_o (c_g s))).

Definition ce_ex_final : option (cst nat) :=
  match crun (cinit 1) ce_ex_evs with
  | ROk s =>
      match cstep s (EPoll 10) with
      | ROk (s', CAnswer Pending) => Some s'
      | _ => None
      end
  | _ => None
  end.

Lemma ce_ex_outs :
  crun_outs (cinit 1) ce_ex_evs =
    [CNone; CNone; CAnswer Pending; CNone; CNone; CNone; CNone; CNone;
     CAnswer (Ready (Some (Append [4]))); CAnswer (Ready (Some (Reset [3;4;5])))].
Proof. vm_compute; reflexivity. Qed.

Lemma ce_ex_obs :
  option_map ce_obs ce_ex_final =
    Some (true, 1, [2;3;4;5;6], Some [3;4;5], Some true,
          [Some {| sb_next := 3; sb_batched := false; sb_state := SRecv; sb_waiting := true |}]).
Proof. vm_compute; reflexivity. Qed.

Lemma ce_ex_final_inv s' :
  ce_ex_final = Some s' ->
  exists s, crun (cinit 1) ce_ex_evs = ROk s /\ cstep s (EPoll 10) = ROk (s', CAnswer Pending).
Proof.
  unfold ce_ex_final. intro H.
  destruct (crun (cinit 1) ce_ex_evs) as [| |s]; [discriminate H|discriminate H|].
  exists s. split; [reflexivity|].
  destruct (cstep s (EPoll 10)) as [| |[s1 [|[[d|]|]]]]; try discriminate H.
  injection H as ->. reflexivity.
Qed.

Example ce_example :
  crun_outs (cinit 1) ce_ex_evs =
    [CNone; CNone; CAnswer Pending; CNone; CNone; CNone; CNone; CNone;
     CAnswer (Ready (Some (Append [4]))); CAnswer (Ready (Some (Reset [3;4;5])))] /\
  exists s s',
    crun (cinit 1) ce_ex_evs = ROk s /\
    cstep s (EPoll 10) = ROk (s', CAnswer Pending) /\
    (* all is well; the channel keeps one message; the contents; the view = Head 3 of Skip 1 of
       the contents; the subscriber was resynchronised by a lag Reset, and is now waiting *)
    ce_obs s' =
      (true, 1, [2;3;4;5;6], Some [3;4;5], Some true,
       [Some {| sb_next := 3; sb_batched := false; sb_state := SRecv; sb_waiting := true |}]).
Proof.
  split; [exact ce_ex_outs|].
  pose proof ce_ex_obs as H. destruct ce_ex_final as [s'|] eqn:E; [|discriminate H].
  destruct (ce_ex_final_inv s' E) as (s & E1 & E2).
  exists s, s'. split; [exact E1|]. split; [exact E2|].
  cbn [option_map] in H.
  exact (f_equal (fun o => match o with Some x => x | None => ce_obs s' end) H).
Qed.

Definition ce_len (r : res (cst nat)) : option nat :=
  match r with
  | ROk s => option_map (fun a => length (ca_gs a)) (c_ad s)
  | _ => None
  end.

Lemma ce_ex_len : ce_len (crun (cinit 1) ce_ex_evs) = Some 2.
Proof. vm_compute; reflexivity. Qed.

(* the same run through the theorems: their hypotheses are satisfiable and the conclusion says
   what was computed: nothing parked, Skip's view [3;4;5;6] in the middle, Head's view on top *)
Example ce_example_by_theorem :
  forall s s',
    crun (cinit 1) ce_ex_evs = ROk s ->
    cstep s (EPoll 10) = ROk (s', CAnswer Pending) ->
    exists a' cb ca, c_ad s' = Some a' /\ ca_gs a' = [cb; ca] /\
      u_ready (sg_s (cs_stage ca)) = [] /\ u_ready (sg_s (cs_stage cb)) = [] /\
      exists mid, cs_R ca (u_st (sg_s (cs_stage ca))) (values (g_o (c_g s'))) mid /\
                  cs_R cb (u_st (sg_s (cs_stage cb))) mid (ca_view a').
Proof.
  intros s s' E H.
  destruct (ce_view_at_pending 1 ce_ex_evs s 10 s' E H)
    as (a & a' & Ea & Ea' & _ & Hev & _ & _ & _ & Hq).
  assert (Hlen : length (ca_gs a) = 2).
  { pose proof ce_ex_len as E2. rewrite E in E2. cbn [ce_len] in E2. rewrite Ea in E2.
    cbn [option_map] in E2. injection E2 as E2. exact E2. }
  pose proof (Forall2_evolves_length _ _ Hev) as Hlen'. rewrite Hlen in Hlen'.
  destruct (ca_gs a') as [|cb [|ca [|x rest]]] eqn:Egs; try discriminate Hlen'.
  exists a', cb, ca. split; [exact Ea'|]. split; [exact Egs|].
  apply quiet_view_two in Hq. destruct Hq as (Ha & Hb & mid & HRa & HRb).
  split; [exact Ha|]. split; [exact Hb|]. exists mid. split; assumption.
Qed.

Print Assumptions rpoll_is_gpoll.
Print Assumptions chain_poll_over_queue_is_chain_poll.
Print Assumptions rpoll_spec.
Print Assumptions chain_poll_over_view.
Print Assumptions ce_never_panics.
Print Assumptions ce_invariant.
Print Assumptions ce_item_applicable.
Print Assumptions ce_view_at_pending.
Print Assumptions chain_over_drains.
Print Assumptions chain_poll_over_answers.
Print Assumptions ce_poll_terminates.
Print Assumptions ce_head_over_skip_view.
Print Assumptions ce_example.
Print Assumptions ce_example_by_theorem.
