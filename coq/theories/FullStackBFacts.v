(* FullStackBFacts.v — theorems about FullStackB.v (the batched flavour of the full stack). *)
From EB Require Import Diff AdapterCore PollLoop OVec OVecRun Obs ObsSpec FullStack FullStackB.
From EB Require Import OVecFacts OVecExtra ObsFacts Head HeadFacts Skip SkipFacts BatchCompose.
From EB Require Import ListTac FullStackAux FullStackFacts FullStackBAux.
From Coq Require Import Lia.

Section Facts.
Context {A St : Type}.
Variable veq heq : nat -> nat -> bool.
Variable vdefault : nat.
Variable on_diff : St -> diff A -> outcome (St * list (diff A)).
Variable on_param : St -> nat -> St * option (list (diff A)).
Variable init : nat -> list A -> St * list A.
Variable R : St -> list A -> list A -> Prop.
Variable param : St -> nat.

Hypothesis Hinit : forall n l, R (fst (init n l)) l (snd (init n l)) /\ param (fst (init n l)) = n.
Hypothesis Hstep : step_ok on_diff R.
Hypothesis Hstep_param : forall st d st' outs, on_diff st d = Ok (st', outs) -> param st' = param st.
Hypothesis Hparam : param_ok on_param R.
Hypothesis Hparam_set : forall st n, param (fst (on_param st n)) = n.
Hypothesis Hshape : forall st n, snd (on_param st n) <> Some [].

Notation fstep_b := (fstep_b veq heq vdefault on_diff on_param init).
Notation frun_b := (frun_b veq heq vdefault on_diff on_param init).

(* a whole batch through the adapter does not change its parameter *)
Lemma flat_map_param : forall b st st' outs,
  flat_map_diffs on_diff st b = Ok (st', outs) -> param st' = param st.
Proof.
  induction b as [|d b IH]; intros st st' outs H; cbn [flat_map_diffs] in H.
  - injection H as <- _. reflexivity.
  - destruct (on_diff st d) as [[st1 o1]|] eqn:E1; [|discriminate].
    destruct (flat_map_diffs on_diff st1 b) as [[st2 o2]|] eqn:E2; [|discriminate].
    injection H as <- _. rewrite (IH _ _ _ E2). eapply Hstep_param; exact E1.
Qed.

(* ---------------- the batched poll loop over the two real leaves ---------------- *)
Section LoopFactsB.
Variable ns : Prop.            (* "no silent store so far" *)
Variables k j : nat.           (* the vector subscriber / the limit subscriber the adapter owns *)

Notation limok' := (limok param ns j).

(* the vector side: reachable state, subscriber k alive and batched, and the adapter state stands
   for the replica of subscriber k while the consumer holds v (nothing is ever parked) *)
Definition vecokb (st : St) (v : list A) (g : gst A) : Prop :=
  ginv_strong g /\ subkb true k (OVec.subs (g_o g)) /\
  exists gh, nth_error (g_gh g) k = Some gh /\ R st (gh_replica gh) v.

(* the replica of subscriber k is the vector's current contents *)
Definition current (g : gst A) : Prop :=
  forall gh, nth_error (g_gh g) k = Some gh -> gh_replica gh = values (g_o g).

Notation floop_b' := (floop_b on_diff on_param (vinner_b k) (lpoll veq heq vdefault j)).

(* what an answered poll establishes; g0 = the vector side, v = the consumer's view before the poll *)
Definition postb (g0 : gst A) (v : list A)
  (x : St * gst A * obs nat * poll (option (list (diff A)))) : Prop :=
  let '(st', g', o', r) := x in
  exists v1,
    match r with
    | Ready (Some ds) => ds <> [] /\ apply_all_ok ds v = Some v1 /\ (g' = g0 \/ current g')
    | _ => v1 = v
    end /\
    limok' st' o' /\ vecokb st' v1 g' /\
    (r = Pending ->
       R st' (values (g_o g')) v /\
       (exists sb, nth_error (OVec.subs (g_o g')) k = Some (Some sb) /\ sb_waiting sb = true) /\
       (ver o' <> 0 -> In j (wakers o') /\ (ns -> param st' = val o'))).

Lemma vinner_b_eq g g' r :
  gstep g (OPoll k) = Ok (g', VPoll r) ->
  vinner_b k g = match r return outcome (gst A * poll (option (list (diff A)))) with
                 | Pending => Ok (g', Pending)
                 | Ready None => Ok (g', Ready None)
                 | Ready (Some (IBatch ds)) => Ok (g', Ready (Some ds))
                 | Ready (Some (IDiff _)) => Panic
                 end.
Proof. intro E. unfold vinner_b. rewrite E. destruct r as [[[d|ds]|]|]; reflexivity. Qed.

(* one iteration of `loop { .. }`: out of fuel only with fuel < 2, or an answer, or one more
   iteration after the vector subscriber handed out everything it had (and it all mapped to
   nothing) *)
Lemma floop_b_iter g0 f st g (o : obs nat) v :
  limok' st o -> vecokb st v g -> (g = g0 \/ current g) ->
  (S f < 2 /\ floop_b' (S f) st g o = RFuel) \/
  (exists x, floop_b' (S f) st g o = ROk x /\ postb g0 v x) \/
  (exists st2 g1 o1, floop_b' (S f) st g o = floop_b' f st2 g1 o1 /\
      limok' st2 o1 /\ vecokb st2 v g1 /\ current g1 /\ muk k g1 < muk k g).
Proof.
  intros Hl Hv Ht. pose proof Hv as (Hg & Hsk & gh & Egh & HR).
  pose proof (fparams_spec veq heq vdefault on_param R param Hparam Hparam_set Hshape
                ns j (S f) st o _ v Hl HR) as Hp.
  cbn [floop_b].
  destruct (fparams on_param (lpoll veq heq vdefault j) (S f) st o) as [| |[[st1 o1] od]].
  - left. split; [exact Hp|reflexivity].
  - contradiction.
  - destruct Hp as (Hl1 & Hsh & (v' & Eap & HR1) & Hpend).
    destruct od as [[|d ds]|].
    + congruence.
    + right; left. eexists. split; [reflexivity|]. unfold postb.
      cbn [odl] in Eap. exists v'. split; [split; [discriminate|split; [exact Eap|exact Ht]]|].
      split; [exact Hl1|]. split; [|discriminate].
      split; [exact Hg|]. split; [exact Hsk|]. exists gh. split; assumption.
    + cbn [odl apply_all_ok] in Eap. injection Eap as <-.
      destruct Hsk as (sb & Esb & Hb).
      destruct (gpoll_batched k g sb gh Hg Esb Hb Egh) as (g' & r & E & Hg' & (sb' & Esb' & Hb' & Hw) & Hr).
      rewrite (vinner_b_eq _ _ _ E).
      assert (Hsk' : subkb true k (OVec.subs (g_o g'))) by (exists sb'; split; assumption).
      destruct r as [[it|]|].
      * destruct Hr as (ds & gh' & -> & Hne & Egh' & Hap & Hcur & Hmu' & Hmu).
        assert (Hc' : current g').
        { intros gh2 E2. rewrite Egh' in E2. injection E2 as <-. exact Hcur. }
        destruct (flat_map_diffs_ok on_diff R Hstep ds st1 (gh_replica gh) v (gh_replica gh') HR1 Hap)
          as (st2 & outs & v2 & E1 & E2 & HR2).
        pose proof (flat_map_param _ _ _ _ E1) as Hpar.
        rewrite E1. destruct outs as [|o0 outs].
        -- right; right. exists st2, g', o1. split; [reflexivity|].
           split; [eapply limok_param; eassumption|].
           cbn [apply_all_ok] in E2. injection E2 as <-.
           split; [|split; [exact Hc'|lia]].
           split; [exact Hg'|]. split; [exact Hsk'|]. exists gh'. split; assumption.
        -- right; left. eexists. split; [reflexivity|]. unfold postb.
           exists v2. split; [split; [discriminate|split; [exact E2|right; exact Hc']]|].
           split; [eapply limok_param; eassumption|]. split; [|discriminate].
           split; [exact Hg'|]. split; [exact Hsk'|]. exists gh'. split; assumption.
      * destruct Hr as (Egh' & Hval).
        right; left. eexists. split; [reflexivity|]. unfold postb.
        exists v. split; [reflexivity|]. split; [exact Hl1|]. split; [|discriminate].
        split; [exact Hg'|]. split; [exact Hsk'|]. exists gh. split; assumption.
      * destruct Hr as (Egh' & Hval).
        right; left. eexists. split; [reflexivity|]. unfold postb.
        exists v. split; [reflexivity|]. split; [exact Hl1|]. split.
        -- split; [exact Hg'|]. split; [exact Hsk'|]. exists gh. split; assumption.
        -- intros _. split; [rewrite <- Hval; exact HR1|].
           split; [exists sb'; split; [exact Esb'|apply Hw; reflexivity]|].
           exact (Hpend eq_refl).
Qed.

Lemma floop_b_ok g0 : forall fuel st g (o : obs nat) v,
  limok' st o -> vecokb st v g -> (g = g0 \/ current g) ->
  match floop_b' fuel st g o with
  | RPanic => False
  | RFuel => True
  | ROk x => postb g0 v x
  end.
Proof.
  induction fuel as [|f IH]; intros st g o v Hl Hv Ht; [exact I|].
  destruct (floop_b_iter g0 f st g o v Hl Hv Ht)
    as [(_ & ->)|[(x & -> & Hx)|(st2 & g1 & o1 & -> & Hl2 & Hv2 & Hc2 & _)]].
  - exact I.
  - exact Hx.
  - apply IH; [assumption|assumption|right; exact Hc2].
Qed.

(* B6: the loop runs out of fuel only if the fuel is less than the number of items the vector
   subscriber can still hand out (for a batched one: at most one), plus two *)
Lemma floop_b_term g0 : forall fuel st g (o : obs nat) v,
  limok' st o -> vecokb st v g -> (g = g0 \/ current g) ->
  muk k g + 2 <= fuel -> floop_b' fuel st g o <> RFuel.
Proof.
  induction fuel as [|f IH]; intros st g o v Hl Hv Ht Hf; [lia|].
  destruct (floop_b_iter g0 f st g o v Hl Hv Ht)
    as [(Hlt & _)|[(x & -> & Hx)|(st2 & g1 & o1 & -> & Hl2 & Hv2 & Hc2 & Hmu)]].
  - lia.
  - discriminate.
  - apply (IH _ _ _ v); try assumption; [right; exact Hc2|lia].
Qed.

End LoopFactsB.

(* ---------------- the invariant of whole histories ---------------- *)
Definition finvb (ns : Prop) (s : fsb A St) : Prop :=
  ginv_strong (fb_g s) /\ ObsSpec.oinv (fb_lim s) /\ fb_ok s = true /\
  match fb_ad s with
  | None => True
  | Some a =>
      limok param ns (b_j a) (b_st a) (fb_lim s) /\
      vecokb (b_k a) (b_st a) (b_view a) (fb_g s)
  end.

Lemma finvb_init (ns : Prop) capacity okd limit0 : finvb ns (fsb_init capacity okd limit0).
Proof.
  unfold finvb, fsb_init. cbn [fb_g fb_lim fb_ok fb_ad].
  split; [apply ginv_strong_init|]. split; [apply oinv_new|]. split; [reflexivity|exact I].
Qed.

(* what a poll of the attached adapter does, in a state satisfying the invariant *)
Lemma fstep_b_poll (ns : Prop) s a fuel :
  finvb ns s -> fb_ad s = Some a ->
  match floop_b on_diff on_param (vinner_b (b_k a)) (lpoll veq heq vdefault (b_j a)) fuel
          (b_st a) (fb_g s) (fb_lim s) with
  | RPanic => False
  | RFuel => fstep_b s (FPoll fuel) = RFuel
  | ROk (st', g', o', r) =>
      postb ns (b_k a) (b_j a) (fb_g s) (b_view a) (st', g', o', r) /\
      exists view',
        match r with
        | Ready (Some ds) => apply_all_ok ds (b_view a) = Some view'
        | _ => view' = b_view a
        end /\
        fstep_b s (FPoll fuel) =
          ROk ({| fb_g := g'; fb_lim := o';
                  fb_ad := Some {| b_k := b_k a; b_j := b_j a; b_st := st'; b_view := view' |};
                  fb_ok := true |}, FBAnswer r) /\
        limok param ns (b_j a) st' o' /\ vecokb (b_k a) st' view' g'
  end.
Proof.
  intros (Hg & Ho & Hok & Had) Ea. rewrite Ea in Had. destruct Had as (Hl & Hv).
  pose proof (floop_b_ok ns (b_k a) (b_j a) (fb_g s) fuel (b_st a) (fb_g s) (fb_lim s) (b_view a)
                Hl Hv (or_introl eq_refl)) as Hp.
  unfold FullStackB.fstep_b. rewrite Ea. cbv beta iota.
  destruct (floop_b on_diff on_param (vinner_b (b_k a)) (lpoll veq heq vdefault (b_j a)) fuel
              (b_st a) (fb_g s) (fb_lim s)) as [| |[[[st' g'] o'] r]]; [reflexivity|exact Hp|].
  split; [exact Hp|]. destruct Hp as (v1 & Hr & Hl' & Hv' & _).
  exists v1. rewrite Hok. destruct r as [[ds|]|].
  - destruct Hr as (_ & Eap & _). rewrite Eap.
    split; [reflexivity|]. split; [reflexivity|]. split; assumption.
  - subst v1. split; [reflexivity|]. split; [reflexivity|]. split; assumption.
  - subst v1. split; [reflexivity|]. split; [reflexivity|]. split; assumption.
Qed.

Lemma fstep_b_ok (ns : Prop) s e :
  finvb ns s -> (ns -> forall v, e <> FLim (WUpdateIf v false)) ->
  match fstep_b s e with
  | RPanic => False
  | RFuel => True
  | ROk (s', _) => finvb ns s'
  end.
Proof.
  intros Hinv Hns. pose proof Hinv as (Hg & Ho & Hok & Had).
  destruct e as [x|x| |fuel].
  - (* FVec *)
    unfold FullStackB.fstep_b.
    destruct (owns_vec_b s x) eqn:Eo; [exact Hinv|].
    destruct (gstep (fb_g s) x) as [[g' out]|] eqn:E; [|exact Hinv].
    unfold finvb. cbn [fb_g fb_lim fb_ok fb_ad].
    split; [eapply ginv_strong_step; eassumption|]. split; [exact Ho|]. split; [exact Hok|].
    unfold owns_vec_b in Eo.
    destruct (fb_ad s) as [a|]; [|exact I].
    destruct Had as (Hl & (_ & Hsk & gh & Egh & HR)).
    split; [exact Hl|].
    assert (Hx1 : x <> OPoll (b_k a)) by (intros ->; rewrite Nat.eqb_refl in Eo; discriminate).
    assert (Hx2 : x <> ODropSub (b_k a)) by (intros ->; rewrite Nat.eqb_refl in Eo; discriminate).
    assert (Hlen : b_k a < length (g_gh (fb_g s))) by (eapply nth_error_some_lt; eassumption).
    destruct (gstep_other_b true (b_k a) _ _ _ _ E Hx1 Hx2 Hsk Hlen) as (Hsk' & Egh').
    split; [eapply ginv_strong_step; eassumption|]. split; [exact Hsk'|].
    exists gh. split; [rewrite Egh'; exact Egh|exact HR].
  - (* FLim *)
    unfold FullStackB.fstep_b.
    destruct (owns_lim_b s x) eqn:Eo; [exact Hinv|].
    destruct (Obs.step veq heq vdefault (fb_lim s) x) as [[[o' out] w]|] eqn:E; [|exact Hinv].
    pose proof (oinv_step _ _ _ _ _ _ _ _ Ho E) as Ho'.
    unfold finvb. cbn [fb_g fb_lim fb_ok fb_ad].
    split; [exact Hg|]. split; [exact Ho'|]. split; [exact Hok|].
    unfold owns_lim_b in Eo.
    destruct (fb_ad s) as [a|]; [|exact I].
    destruct Had as ((_ & ov & Hj & Hl) & Hv).
    split; [|exact Hv].
    assert (Hx : op_sub x <> Some (b_j a)).
    { destruct (op_sub x) as [k0|]; [|discriminate].
      intro H; injection H as ->. rewrite Nat.eqb_refl in Eo. discriminate. }
    destruct (ostep_other veq heq vdefault _ _ _ _ _ _ _ Ho Hx E Hj) as (ov' & Hj' & Hback).
    split; [exact Ho'|]. exists ov'. split; [exact Hj'|].
    intros Hn Hv' He.
    assert (Hx' : forall v0, x <> WUpdateIf v0 false).
    { intros v0 ->. apply (Hns Hn v0). reflexivity. }
    destruct (Hback Hx' Hv' He) as (Hv0 & He0 & ->). apply Hl; assumption.
  - (* FAttach *)
    unfold FullStackB.fstep_b.
    destruct (fb_ad s) as [a|] eqn:Ea; [exact Hinv|].
    destruct (gstep_sub_batched (fb_g s)) as [E1|E1]; rewrite E1; [exact Hinv|].
    destruct (ostep_subscribe veq heq vdefault (fb_lim s)) as [E2|E2]; rewrite E2; [exact Hinv|].
    pose proof (Hinit (val (fb_lim s)) (values (g_o (fb_g s)))) as (HRi & Hpi).
    destruct (init (val (fb_lim s)) (values (g_o (fb_g s)))) as [st0 view0]. cbn [fst snd] in HRi, Hpi.
    pose proof (ginv_strong_step _ _ _ _ Hg E1) as Hg'.
    pose proof (oinv_step _ _ _ _ _ _ _ _ Ho E2) as Ho'.
    unfold finvb. cbn [fb_g fb_lim fb_ok fb_ad b_k b_j b_st b_view].
    split; [exact Hg'|]. split; [exact Ho'|]. split; [exact Hok|].
    split.
    + split; [exact Ho'|]. exists (ver (fb_lim s)). cbn [Obs.subs Obs.with_subs ver val]. split.
      * rewrite nth_error_app2 by lia. rewrite Nat.sub_diag. reflexivity.
      * intros _ _ _. exact Hpi.
    + split; [exact Hg'|]. cbn [g_o g_gh OVec.subs OVec.with_subs]. split.
      * eexists. split; [rewrite nth_error_app2 by lia; rewrite Nat.sub_diag; reflexivity|reflexivity].
      * eexists. rewrite <- (ginv_strong_len _ Hg). split.
        -- rewrite nth_error_app2 by lia. rewrite Nat.sub_diag. reflexivity.
        -- exact HRi.
  - (* FPoll *)
    destruct (fb_ad s) as [a|] eqn:Ea.
    2:{ unfold FullStackB.fstep_b. rewrite Ea. unfold finvb. rewrite Ea. auto. }
    pose proof (fstep_b_poll ns s a fuel Hinv Ea) as Hp.
    destruct (floop_b on_diff on_param (vinner_b (b_k a)) (lpoll veq heq vdefault (b_j a)) fuel
                (b_st a) (fb_g s) (fb_lim s)) as [| |[[[st' g'] o'] r]]; [rewrite Hp; exact I|contradiction|].
    destruct Hp as (_ & view' & _ & -> & Hl' & Hv').
    unfold finvb. cbn [fb_g fb_lim fb_ok fb_ad b_k b_j b_st b_view].
    split; [apply Hv'|]. split; [apply Hl'|]. split; [reflexivity|]. split; assumption.
Qed.

Lemma frun_b_ok (ns : Prop) : forall evs s,
  finvb ns s -> (ns -> no_silent evs) ->
  match frun_b s evs with
  | RPanic => False
  | RFuel => True
  | ROk s' => finvb ns s'
  end.
Proof.
  induction evs as [|e evs IH]; intros s Hinv Hns; cbn [FullStackB.frun_b]; [exact Hinv|].
  assert (H1 : ns -> forall v, e <> FLim (WUpdateIf v false))
    by (intro Hn; apply (no_silent_cons _ _ (Hns Hn))).
  assert (H2 : ns -> no_silent evs) by (intro Hn; apply (no_silent_cons _ _ (Hns Hn))).
  pose proof (fstep_b_ok ns s e Hinv H1) as Hs.
  destruct (fstep_b s e) as [| |[s' out]]; [exact I|contradiction|].
  apply IH; assumption.
Qed.

Lemma frun_b_inv (ns : Prop) capacity okd limit0 evs s :
  (ns -> no_silent evs) -> frun_b (fsb_init capacity okd limit0) evs = ROk s -> finvb ns s.
Proof.
  intros Hns E.
  pose proof (frun_b_ok ns evs _ (finvb_init ns capacity okd limit0) Hns) as H.
  rewrite E in H. exact H.
Qed.

(* an answered poll: the adapter was attached, and the answer is the loop's *)
Lemma fstep_b_answer (ns : Prop) s fuel s' r :
  finvb ns s -> fstep_b s (FPoll fuel) = ROk (s', FBAnswer r) ->
  exists a st' view',
    fb_ad s = Some a /\
    postb ns (b_k a) (b_j a) (fb_g s) (b_view a) (st', fb_g s', fb_lim s', r) /\
    match r with
    | Ready (Some ds) => apply_all_ok ds (b_view a) = Some view'
    | _ => view' = b_view a
    end /\
    fb_ad s' = Some {| b_k := b_k a; b_j := b_j a; b_st := st'; b_view := view' |} /\
    vecokb (b_k a) st' view' (fb_g s').
Proof.
  intros Hinv H.
  destruct (fb_ad s) as [a|] eqn:Ea.
  2:{ unfold FullStackB.fstep_b in H. rewrite Ea in H. discriminate. }
  pose proof (fstep_b_poll ns s a fuel Hinv Ea) as Hp.
  destruct (floop_b on_diff on_param (vinner_b (b_k a)) (lpoll veq heq vdefault (b_j a)) fuel
              (b_st a) (fb_g s) (fb_lim s)) as [| |[[[st' g'] o'] r0]];
    [rewrite Hp in H; discriminate|contradiction|].
  destruct Hp as (Hpost & view' & Hview & E & _ & Hv').
  rewrite E in H. injection H as <- <-.
  exists a, st', view'. cbn [fb_g fb_lim fb_ad]. auto.
Qed.

(* a poll that answers Pending *)
Lemma fstep_b_pending (ns : Prop) s fuel s' :
  finvb ns s -> fstep_b s (FPoll fuel) = ROk (s', FBAnswer Pending) ->
  exists a, fb_ad s' = Some a /\
    R (b_st a) (values (g_o (fb_g s'))) (b_view a) /\
    (exists sb, nth_error (OVec.subs (g_o (fb_g s'))) (b_k a) = Some (Some sb) /\ sb_waiting sb = true) /\
    (ver (fb_lim s') <> 0 ->
       In (b_j a) (wakers (fb_lim s')) /\ (ns -> param (b_st a) = val (fb_lim s'))).
Proof.
  intros Hinv H.
  destruct (fstep_b_answer ns s fuel s' Pending Hinv H) as (a & st' & view' & _ & Hpost & Hview & Ea' & _).
  cbv beta iota in Hview. subst view'.
  destruct Hpost as (v1 & _ & _ & _ & Hpend). destruct (Hpend eq_refl) as (P1 & P2 & P3).
  eexists. split; [exact Ea'|]. cbn [b_k b_j b_st b_view]. auto.
Qed.

(* B1 *)
Theorem fullb_never_panics :
  forall capacity okd limit0 evs, frun_b (fsb_init capacity okd limit0) evs <> RPanic.
Proof.
  intros capacity okd limit0 evs E.
  pose proof (frun_b_ok False evs _ (finvb_init False capacity okd limit0) (fun f => False_ind _ f)) as H.
  rewrite E in H. exact H.
Qed.

(* B2: every batch handed out is applicable, and between polls the view always stands for the
   replica of the adapter's vector subscriber (nothing is ever parked in the batched flavour) *)
Theorem fullb_invariant :
  forall capacity okd limit0 evs s,
    frun_b (fsb_init capacity okd limit0) evs = ROk s ->
    fb_ok s = true /\
    match fb_ad s with
    | None => True
    | Some a => exists gh, nth_error (g_gh (fb_g s)) (b_k a) = Some gh /\ R (b_st a) (gh_replica gh) (b_view a)
    end.
Proof.
  intros capacity okd limit0 evs s E.
  destruct (frun_b_inv False capacity okd limit0 evs s (fun f => False_ind _ f) E) as (_ & _ & Hok & Had).
  split; [exact Hok|]. destruct (fb_ad s) as [a|]; [|exact I].
  destruct Had as (_ & (_ & _ & gh & Egh & HR)).
  exists gh. auto.
Qed.

(* B3 *)
Theorem fullb_view_at_pending :
  forall capacity okd limit0 evs s fuel s',
    frun_b (fsb_init capacity okd limit0) evs = ROk s ->
    fstep_b s (FPoll fuel) = ROk (s', FBAnswer Pending) ->
    no_silent evs ->
    exists a, fb_ad s' = Some a /\
      R (b_st a) (values (g_o (fb_g s'))) (b_view a) /\
      (ver (fb_lim s') <> 0 -> param (b_st a) = val (fb_lim s')).
Proof.
  intros capacity okd limit0 evs s fuel s' E H Hns.
  pose proof (frun_b_inv (no_silent evs) capacity okd limit0 evs s (fun x => x) E) as Hinv.
  destruct (fstep_b_pending _ _ _ _ Hinv H) as (a & Ea & P2 & _ & P4).
  exists a. split; [exact Ea|]. split; [exact P2|].
  intro Hv. apply (P4 Hv). exact Hns.
Qed.

(* B4 *)
Theorem fullb_pending_registers :
  forall capacity okd limit0 evs s fuel s',
    frun_b (fsb_init capacity okd limit0) evs = ROk s ->
    fstep_b s (FPoll fuel) = ROk (s', FBAnswer Pending) ->
    exists a, fb_ad s' = Some a /\
      (exists sb, nth_error (OVec.subs (g_o (fb_g s'))) (b_k a) = Some (Some sb) /\ sb_waiting sb = true) /\
      (ver (fb_lim s') <> 0 -> In (b_j a) (wakers (fb_lim s'))).
Proof.
  intros capacity okd limit0 evs s fuel s' E H.
  pose proof (frun_b_inv False capacity okd limit0 evs s (fun f => False_ind _ f) E) as Hinv.
  destruct (fstep_b_pending _ _ _ _ Hinv H) as (a & Ea & _ & P3 & P4).
  exists a. split; [exact Ea|]. split; [exact P3|]. intro Hv. apply (P4 Hv).
Qed.

(* B5 *)
Theorem fullb_limit_change_wakes :
  forall capacity okd limit0 evs s fuel s' a x o' out w,
    frun_b (fsb_init capacity okd limit0) evs = ROk s ->
    fstep_b s (FPoll fuel) = ROk (s', FBAnswer Pending) ->
    fb_ad s' = Some a ->
    Obs.step veq heq vdefault (fb_lim s') x = Ok (o', out, w) ->
    ver o' <> ver (fb_lim s') ->
    In (b_j a) w.
Proof.
  intros capacity okd limit0 evs s fuel s' a x o' out w E H Ea Es Hver.
  pose proof (frun_b_inv False capacity okd limit0 evs s (fun f => False_ind _ f) E) as Hinv.
  destruct (fstep_b_pending _ _ _ _ Hinv H) as (a0 & Ea0 & _ & _ & P4).
  rewrite Ea in Ea0. injection Ea0 as <-.
  pose proof (fstep_b_ok False s (FPoll fuel) Hinv (fun f => False_ind _ f)) as Hs'.
  rewrite H in Hs'. destruct Hs' as (_ & Ho' & _).
  destruct (version_change_wakes_all_reach _ _ _ _ _ _ _ _ Ho' Es) as (Hw & _).
  destruct (Hw Hver) as (-> & _).
  destruct (Nat.eq_dec (ver (fb_lim s')) 0) as [Hz|Hnz].
  - exfalso. pose proof Ho' as ((Hz1 & _) & _ & _).
    destruct (after_end _ _ _ _ _ _ _ _ Ho' (Hz1 Hz) Es) as (Hown & _).
    pose proof (oinv_step _ _ _ _ _ _ _ _ Ho' Es) as ((_ & Hz2) & _ & _).
    apply Hver. rewrite Hz. apply Hz2. exact Hown.
  - apply (P4 Hnz).
Qed.

(* B6: a poll always answers, given enough fuel: FullStackAux.muk of the adapter's vector
   subscriber (for a batched subscriber: 0 or 1), plus two for the limit stream *)
Theorem fullb_poll_terminates :
  forall capacity okd limit0 evs s,
    frun_b (fsb_init capacity okd limit0) evs = ROk s ->
    exists fuel, forall fuel', fuel <= fuel' -> fstep_b s (FPoll fuel') <> RFuel.
Proof.
  intros capacity okd limit0 evs s E.
  pose proof (frun_b_inv False capacity okd limit0 evs s (fun f => False_ind _ f) E) as Hinv.
  pose proof Hinv as (Hg & Ho & Hok & Had).
  destruct (fb_ad s) as [a|] eqn:Ea.
  - destruct Had as (Hl & Hv).
    exists (muk (b_k a) (fb_g s) + 2). intros fuel' Hf.
    pose proof (floop_b_term False (b_k a) (b_j a) (fb_g s) fuel' (b_st a) (fb_g s) (fb_lim s) (b_view a)
                  Hl Hv (or_introl eq_refl) Hf) as Ht.
    pose proof (fstep_b_poll False s a fuel' Hinv Ea) as Hp.
    destruct (floop_b on_diff on_param (vinner_b (b_k a)) (lpoll veq heq vdefault (b_j a)) fuel'
                (b_st a) (fb_g s) (fb_lim s)) as [| |[[[st' g'] o'] r]]; [contradiction|contradiction|].
    destruct Hp as (_ & view' & _ & -> & _). discriminate.
  - exists 0. intros fuel' _. unfold FullStackB.fstep_b. rewrite Ea. discriminate.
Qed.

(* B7 (C13 across the three crates): a batch handed out is never empty; it stems either from ONE
   limit change (the vector side is untouched by that poll) or from source items, and then the
   subscriber's replica - which the consumer's view now stands for - is the vector's contents as
   of that poll: a state the vector has between top-level operations, never one inside a
   transaction.
   CHECKED, proved as stated.  The first disjunct is exact: when the `while let` over the limit
   stream produces the batch, the loop returns before the vector's stream is polled, so the whole
   [gst] (subscriber, ghost, log) is the one before the poll.  The second disjunct also covers the
   (in this model unreachable, but harmless) path "source items that map to nothing, loop again,
   then a limit change": the replica was made current by the batch consumed in that same poll and
   no vector operation can interleave.  A lag Reset is a batch [Reset (values o)] whose replica is
   the current contents (OVecFacts.poll_meaning, clause IBatch). *)
Theorem fullb_batch_lands_on_a_vector_state :
  forall capacity okd limit0 evs s fuel s' ds,
    frun_b (fsb_init capacity okd limit0) evs = ROk s ->
    fstep_b s (FPoll fuel) = ROk (s', FBAnswer (Ready (Some ds))) ->
    ds <> [] /\
    exists a gh, fb_ad s' = Some a /\ nth_error (g_gh (fb_g s')) (b_k a) = Some gh /\
      R (b_st a) (gh_replica gh) (b_view a) /\
      (fb_g s' = fb_g s \/ gh_replica gh = values (g_o (fb_g s'))).
Proof.
  intros capacity okd limit0 evs s fuel s' ds E H.
  pose proof (frun_b_inv False capacity okd limit0 evs s (fun f => False_ind _ f) E) as Hinv.
  destruct (fstep_b_answer False s fuel s' _ Hinv H) as (a & st' & view' & _ & Hpost & _ & Ea' & Hv').
  destruct Hpost as (v1 & (Hne & _ & Ht) & _).
  split; [exact Hne|].
  destruct Hv' as (_ & _ & gh & Egh & HR).
  eexists. exists gh. split; [exact Ea'|]. cbn [b_k b_j b_st b_view].
  split; [exact Egh|]. split; [exact HR|].
  destruct Ht as [Ht|Ht]; [left; exact Ht|right; apply Ht; exact Egh].
Qed.

End Facts.

(* ---------------- instances ---------------- *)
Theorem fullb_head_view :
  forall (A : Type) veq heq vdefault capacity okd limit0 (evs : list (fev A)) s fuel s',
    frun_b veq heq vdefault head_on_diff head_update_limit head_full_init (fsb_init capacity okd limit0) evs = ROk s ->
    fstep_b veq heq vdefault head_on_diff head_update_limit head_full_init s (FPoll fuel) = ROk (s', FBAnswer Pending) ->
    no_silent evs ->
    ver (fb_lim s') <> 0 ->
    exists a, fb_ad s' = Some a /\
      b_view a = firstn (val (fb_lim s')) (values (g_o (fb_g s'))).
Proof.
  intros A veq heq vdefault capacity okd limit0 evs s fuel s' E H Hns Hv.
  destruct (fullb_view_at_pending veq heq vdefault head_on_diff head_update_limit head_full_init
              head_R (@h_limit A) head_full_init_ok head_step_ok head_on_diff_limit head_param_ok'
              head_update_limit_set head_update_limit_nonempty
              capacity okd limit0 evs s fuel s' E H Hns) as (a & Ea & [Hb HR] & Hp).
  exists a. split; [exact Ea|]. rewrite HR, (Hp Hv). reflexivity.
Qed.

Theorem fullb_skip_view :
  forall (A : Type) veq heq vdefault capacity okd limit0 (evs : list (fev A)) s fuel s',
    frun_b veq heq vdefault skip_on_diff skip_update_count skip_full_init (fsb_init capacity okd limit0) evs = ROk s ->
    fstep_b veq heq vdefault skip_on_diff skip_update_count skip_full_init s (FPoll fuel) = ROk (s', FBAnswer Pending) ->
    no_silent evs ->
    ver (fb_lim s') <> 0 ->
    exists a, fb_ad s' = Some a /\
      b_view a = skipn (val (fb_lim s')) (values (g_o (fb_g s'))).
Proof.
  intros A veq heq vdefault capacity okd limit0 evs s fuel s' E H Hns Hv.
  destruct (fullb_view_at_pending veq heq vdefault skip_on_diff skip_update_count skip_full_init
              skip_R' skip_param skip_full_init_ok skip_step_ok skip_on_diff_count skip_param_ok'
              skip_update_count_set (@skip_update_count_nonempty A)
              capacity okd limit0 evs s fuel s' E H Hns) as (a & Ea & [[Hb HR] Hc] & Hp).
  exists a. split; [exact Ea|]. specialize (Hp Hv). unfold skip_param in Hp.
  destruct (s_count (b_st a)) as [c|]; [|congruence].
  rewrite HR, <- Hp. reflexivity.
Qed.

(* ---------------- non-vacuity: a concrete run of the Head instance ---------------- *)
(* attach with the initial limit 2 to the empty vector; one transaction pushes 1, 2, 3 and commits;
   the poll hands out ONE batch [PushBack 1; PushBack 2] (the third push maps to nothing); the limit
   is set to 1; the next poll hands out the batch [Truncate 1]; the next poll is Pending with the
   view [1] = firstn 1 [1;2;3] *)
Definition exb_evs1 : list (fev nat) :=
  [FAttach; FVec OTxnBegin; FVec (OTMut (MPushBack 1)); FVec (OTMut (MPushBack 2));
   FVec (OTMut (MPushBack 3)); FVec OTCommit].
Definition exb_evs : list (fev nat) := exb_evs1 ++ [FPoll 20; FLim (WSet 1); FPoll 20].

Notation exb_step := (fstep_b Nat.eqb Nat.eqb 0 head_on_diff head_update_limit head_full_init).
Notation exb_run := (frun_b Nat.eqb Nat.eqb 0 head_on_diff head_update_limit head_full_init (fsb_init 16 Shared 2)).

Example fullb_example :
  exists s0 s1 s2 s3 s4,
    exb_run exb_evs1 = ROk s0 /\
    exb_step s0 (FPoll 20) = ROk (s1, FBAnswer (Ready (Some [PushBack 1; PushBack 2]))) /\
    exb_step s1 (FLim (WSet 1)) = ROk (s2, FBNone) /\
    exb_step s2 (FPoll 20) = ROk (s3, FBAnswer (Ready (Some [Truncate 1]))) /\
    exb_run exb_evs = ROk s3 /\
    exb_step s3 (FPoll 20) = ROk (s4, FBAnswer Pending) /\
    no_silent exb_evs /\ ver (fb_lim s4) <> 0 /\
    option_map (fun a => b_view a) (fb_ad s4) = Some [1] /\
    val (fb_lim s4) = 1 /\ values (g_o (fb_g s4)) = [1;2;3] /\ fb_ok s4 = true.
Proof.
  do 5 eexists.
  split; [vm_compute; reflexivity|].
  split; [vm_compute; reflexivity|].
  split; [vm_compute; reflexivity|].
  split; [vm_compute; reflexivity|].
  split; [vm_compute; reflexivity|].
  split; [vm_compute; reflexivity|].
  split.
  { intros v Hin. unfold exb_evs, exb_evs1 in Hin. cbn [app In] in Hin.
    repeat (destruct Hin as [Hin|Hin]; [discriminate|]). exact Hin. }
  vm_compute. repeat split; discriminate.
Qed.

Print Assumptions fullb_never_panics.
Print Assumptions fullb_invariant.
Print Assumptions fullb_view_at_pending.
Print Assumptions fullb_pending_registers.
Print Assumptions fullb_limit_change_wakes.
Print Assumptions fullb_poll_terminates.
Print Assumptions fullb_batch_lands_on_a_vector_state.
Print Assumptions fullb_head_view.
Print Assumptions fullb_skip_view.
Print Assumptions fullb_example.
