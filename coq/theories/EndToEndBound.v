(* EndToEndBound.v — C15 end to end: the fixed-limit bound on the whole pipeline.  EndToEnd.v's
   pipeline (an ObservableVector under ANY history, one of its subscribers, an adapter fed with
   exactly what that subscriber's stream delivers) but the consumer applies the emitted diffs with
   [apply_all_ok_bound b]: the run fails (None) as soon as ANY intermediate view - after any single
   emitted diff - has more than [b] items.  For Head / Tail created with a fixed limit n the run
   never fails with b := n. *)
From EB Require Import Diff AdapterCore OVec OVecRun OVecFacts OVecExtra EndToEnd
  Head HeadFacts Tail TailFacts.
From Coq Require Import Lia.

(* the bounded one-step statement: AdapterCore.step_ok with apply_all_ok_bound b *)
Definition step_ok_bound {A B St : Type} (b : nat)
  (on_diff : St -> diff A -> outcome (St * list (diff B)))
  (R : St -> list A -> list B -> Prop) : Prop :=
  forall st l v d, R st l v -> ok_in d l = true ->
    exists st' outs l' v',
      on_diff st d = Ok (st', outs) /\ apply d l = Some l' /\
      apply_all_ok_bound b outs v = Some v' /\ R st' l' v'.

Lemma step_ok_bound_step_ok {A B St : Type} b
  (on_diff : St -> diff A -> outcome (St * list (diff B))) R :
  step_ok_bound b on_diff R -> step_ok on_diff R.
Proof.
  intros H st l v d HR Hok.
  destruct (H st l v d HR Hok) as (st' & outs & l' & v' & E1 & E2 & E3 & HR').
  exists st', outs, l', v'. split; [exact E1|]. split; [exact E2|].
  split; [eapply apply_all_ok_bound_ok; exact E3|exact HR'].
Qed.

Section EndToEndBound.
Context {A B St : Type}.
Variable b : nat.
Variable on_diff : St -> diff A -> outcome (St * list (diff B)).
Variable R : St -> list A -> list B -> Prop.
Variable init : list A -> St * list B.

(* EndToEnd.feed with the bounded, checked application *)
Fixpoint feed_bound (st : St) (v : list B) (ds : list (diff A)) : option (St * list B) :=
  match ds with
  | [] => Some (st, v)
  | d :: rest =>
      match on_diff st d with
      | Ok (st', outs) =>
          match apply_all_ok_bound b outs v with
          | Some v' => feed_bound st' v' rest
          | None => None
          end
      | Panic => None
      end
  end.

(* EndToEnd.e2e_run with feed_bound *)
Fixpoint e2e_run_bound (k : nat) (g : gst A) (a : option (St * list B)) (xs : list (op A))
  : option (gst A * option (St * list B)) :=
  match xs with
  | [] => Some (g, a)
  | x :: rest =>
      match gstep g x with
      | Panic => e2e_run_bound k g a rest
      | Ok (g', out) =>
          match x, out, a with
          | OSub _, VSub k' snap, _ =>
              e2e_run_bound k g' (if k' =? k then Some (init snap) else a) rest
          | OPoll k', VPoll (Ready (Some it)), Some (st, v) =>
              if k' =? k then
                match feed_bound st v (item_diffs it) with
                | Some sv => e2e_run_bound k g' (Some sv) rest
                | None => None
                end
              else e2e_run_bound k g' a rest
          | _, _, _ => e2e_run_bound k g' a rest
          end
      end
  end.

(* the bounded run refines the plain one: whenever it succeeds, EndToEnd.e2e_run gives the same *)
Lemma feed_bound_feed : forall ds st v r,
  feed_bound st v ds = Some r -> feed on_diff st v ds = Some r.
Proof.
  induction ds as [|d ds IH]; intros st v r H; cbn [feed_bound feed] in *; [exact H|].
  destruct (on_diff st d) as [[st' outs]|]; [|discriminate].
  destruct (apply_all_ok_bound b outs v) as [v'|] eqn:E; [|discriminate].
  rewrite (apply_all_ok_bound_ok _ _ _ _ E). apply IH; exact H.
Qed.

Lemma e2e_run_bound_run k : forall xs g a r,
  e2e_run_bound k g a xs = Some r -> e2e_run on_diff init k g a xs = Some r.
Proof.
  induction xs as [|x xs IH]; intros g a r H; cbn [e2e_run_bound e2e_run] in *; [exact H|].
  destruct (gstep g x) as [[g' out]|]; [|apply IH; exact H].
  destruct x; try (apply IH; exact H).
  - destruct out; try (apply IH; exact H).
  - destruct out as [| | |[[it|]|]|]; try (apply IH; exact H).
    destruct a as [[st v]|]; [|apply IH; exact H].
    destruct (k0 =? k); [|apply IH; exact H].
    destruct (feed_bound st v (item_diffs it)) as [sv|] eqn:E; [|discriminate].
    rewrite (feed_bound_feed _ _ _ _ E). apply IH; exact H.
Qed.

Hypothesis step : step_ok_bound b on_diff R.
Hypothesis init_ok : forall l, R (fst (init l)) l (snd (init l)).

Lemma feed_bound_ok : forall ds st l v l', R st l v -> apply_all_ok ds l = Some l' ->
  exists st' v', feed_bound st v ds = Some (st', v') /\ R st' l' v'.
Proof.
  induction ds as [|d ds IH]; intros st l v l' HR H; cbn [feed_bound apply_all_ok] in *.
  - injection H as <-. eauto.
  - destruct (ok_in d l) eqn:Eok; [|discriminate].
    destruct (step st l v d HR Eok) as (st' & outs & l1 & v1 & E1 & E2 & E3 & HR').
    rewrite E2 in H. cbn [obind] in H. rewrite E1, E3. eapply IH; eassumption.
Qed.

Lemma e2e_bound_gen k : forall xs g a, ginv_strong g -> clause R k g a ->
  exists a', e2e_run_bound k g a xs = Some (grun g xs, a') /\ clause R k (grun g xs) a'.
Proof.
  induction xs as [|x xs IH]; intros g a Hg Ha; cbn [e2e_run_bound grun].
  - eauto.
  - destruct (gstep g x) as [[g' out]|] eqn:E; [|apply IH; assumption].
    pose proof (ginv_strong_step _ _ _ _ Hg E) as Hg'.
    destruct x.
    3: { (* OSub *)
      destruct (gstep_sub _ _ _ _ E) as (gh & -> & Hgh).
      destruct Hg as (_ & Hlen & _).
      cbv iota. apply IH; [assumption|].
      rewrite <- Hlen.
      destruct (Nat.eqb_spec (length (g_gh g)) k) as [e|ne].
      - unfold clause. pose proof (init_ok (gh_replica gh)) as Hi.
        destruct (init (gh_replica gh)) as [st v]. cbn [fst snd] in Hi. exists gh.
        split; [|assumption].
        rewrite Hgh, <- e, nth_error_app2, Nat.sub_diag by lia. reflexivity.
      - unfold clause in *. destruct a as [[st v]|].
        + destruct Ha as (gh0 & E0 & HR). exists gh0. split; [|assumption].
          rewrite Hgh, nth_error_app1; [assumption|]. apply nth_error_Some. congruence.
        + rewrite Hgh, app_length. cbn [length]. lia. }
    3: { (* OPoll *)
      destruct (gstep_poll _ _ _ _ Hg E) as (s & gh & s' & r & gh' & Ek & Eg & _ & _ & -> & -> & Hgh).
      assert (Hk : k0 < length (g_gh g)) by (apply nth_error_Some; congruence).
      destruct r as [[it|]|].
      - destruct Hgh as (r' & Hap & ->).
        destruct a as [[st v]|].
        + cbv iota. destruct (Nat.eqb_spec k0 k) as [e|ne].
          * subst k0. destruct Ha as (gh0 & E0 & HR). rewrite Eg in E0. injection E0 as <-.
            destruct (feed_bound_ok _ _ _ _ _ HR Hap) as (st' & v' & Ef & HR').
            rewrite Ef. apply IH; [assumption|].
            unfold clause. cbn [g_gh]. eexists. split; [apply nth_error_set_nth_eq; assumption|].
            exact HR'.
          * apply IH; [assumption|]. unfold clause in *. cbn [g_gh].
            rewrite nth_error_set_nth_neq by congruence. exact Ha.
        + cbv iota. apply IH; [assumption|]. unfold clause in *. cbn [g_gh].
          rewrite length_set_nth. exact Ha.
      - subst gh'. cbv iota. apply IH; [assumption|].
        eapply clause_same_gh; [|exact Ha]. cbn [g_gh]. apply set_nth_same; assumption.
      - subst gh'. cbv iota. apply IH; [assumption|].
        eapply clause_same_gh; [|exact Ha]. cbn [g_gh]. apply set_nth_same; assumption. }
    all: pose proof (gstep_gh_other _ _ _ _ E) as Hgh; cbv iota in Hgh |- *;
      (apply IH; [assumption|]); eapply clause_same_gh; eassumption.
Qed.

(* "R implies at most b items": this is what makes "the run did not fail" mean "never more than b
   items" - the view the adapter is created with is not checked by the run (only the views after an
   emitted diff are).  The other hypothesis one would expect, "the initial view has at most b items",
   follows from init_ok and this one (init_bound below), so it is not assumed separately. *)
Hypothesis R_bound : forall st l v, R st l v -> length v <= b.

Lemma init_bound : forall l, length (snd (init l)) <= b.
Proof. intro l. eapply R_bound. apply init_ok. Qed.

(* in NO history does the bounded run fail; the clause of EndToEnd.e2e_invariant, plus the bound on
   the view held at the end (hence, taking prefixes of the history, at any moment) *)
Theorem e2e_bound_invariant :
  forall (capacity : nat) (xs : list (op A)) (k : nat),
    exists g a, e2e_run_bound k (ginit capacity) None xs = Some (g, a) /\
      g = grun (ginit capacity) xs /\
      match a with
      | Some (st, v) =>
          (exists gh, nth_error (g_gh g) k = Some gh /\ R st (gh_replica gh) v) /\ length v <= b
      | None => length (g_gh g) <= k
      end.
Proof.
  intros capacity xs k.
  destruct (e2e_bound_gen k xs (ginit capacity) None) as (a' & E & Hc).
  - apply ginv_strong_init.
  - cbn. lia.
  - exists (grun (ginit capacity) xs), a'. split; [exact E|]. split; [reflexivity|].
    destruct a' as [[st v]|]; [|exact Hc]. split; [exact Hc|].
    destruct Hc as (gh & _ & HR). eapply R_bound; exact HR.
Qed.

(* the bound alone, in the form "whatever the bounded run returns" *)
Corollary e2e_bound_view_le :
  forall (capacity : nat) (xs : list (op A)) (k : nat) g st v,
    e2e_run_bound k (ginit capacity) None xs = Some (g, Some (st, v)) -> length v <= b.
Proof.
  intros capacity xs k g st v H.
  destruct (e2e_bound_invariant capacity xs k) as (g0 & a0 & E0 & _ & Hc).
  rewrite E0 in H. injection H as _ ->. exact (proj2 Hc).
Qed.

End EndToEndBound.

(* ---------------- instances: Head / Tail created with a fixed limit n, b := n ---------------- *)

Theorem e2e_head_bound :
  forall (A : Type) (n capacity : nat) (xs : list (op A)) (k : nat),
    let init := fun l : list A => (snd (head_init n l), fst (head_init n l)) in
    let R := fun (st : head_st A) (l v : list A) => head_R st l v /\ h_limit st = n in
    exists g a, e2e_run_bound n head_on_diff init k (ginit capacity) None xs = Some (g, a) /\
      g = grun (ginit capacity) xs /\
      match a with
      | Some (st, v) =>
          (exists gh, nth_error (g_gh g) k = Some gh /\ R st (gh_replica gh) v) /\ length v <= n
      | None => length (g_gh g) <= k
      end.
Proof.
  intros A n capacity xs k init R.
  assert (Hs : step_ok_bound n head_on_diff R).
  { intros st0 l v0 d [HR Hl] Hok.
    destruct (head_step_bound st0 l v0 d HR Hok) as (st' & outs & l' & E1 & E2 & E3 & HR' & Hl').
    exists st', outs, l', (firstn (h_limit st0) l').
    split; [exact E1|]. split; [exact E2|].
    split; [rewrite <- Hl; exact E3|].
    split; [exact HR'|]. rewrite Hl'. exact Hl. }
  assert (Hi : forall l, R (fst (init l)) l (snd (init l))).
  { intro l. unfold init, R. cbn [fst snd].
    destruct (head_init_ok n l) as [E HR]. rewrite E. split; [exact HR|].
    unfold head_init. reflexivity. }
  assert (HRb : forall st l v, R st l v -> length v <= n).
  { intros st l v [[_ ->] <-]. rewrite firstn_length. lia. }
  exact (e2e_bound_invariant n head_on_diff R init Hs Hi HRb capacity xs k).
Qed.

Theorem e2e_tail_bound :
  forall (A : Type) (n capacity : nat) (xs : list (op A)) (k : nat),
    let init := fun l : list A => (snd (tail_init n l), fst (tail_init n l)) in
    let R := fun (st : tail_st A) (l v : list A) => tail_R st l v /\ t_limit st = n in
    exists g a, e2e_run_bound n tail_on_diff init k (ginit capacity) None xs = Some (g, a) /\
      g = grun (ginit capacity) xs /\
      match a with
      | Some (st, v) =>
          (exists gh, nth_error (g_gh g) k = Some gh /\ R st (gh_replica gh) v) /\ length v <= n
      | None => length (g_gh g) <= k
      end.
Proof.
  intros A n capacity xs k init R.
  assert (Hs : step_ok_bound n tail_on_diff R).
  { intros st0 l v0 d [HR Hl] Hok.
    destruct (tail_step_bound st0 l v0 d HR Hok) as (st' & outs & l' & E1 & E2 & E3 & HR' & Hl').
    exists st', outs, l', (skipn (length l' - t_limit st0) l').
    split; [exact E1|]. split; [exact E2|].
    split; [rewrite <- Hl; exact E3|].
    split; [exact HR'|]. rewrite Hl'. exact Hl. }
  assert (Hi : forall l, R (fst (init l)) l (snd (init l))).
  { intro l. unfold init, R. cbn [fst snd].
    destruct (tail_init_ok n l) as [E HR]. rewrite E. split; [exact HR|].
    unfold tail_init. reflexivity. }
  assert (HRb : forall st l v, R st l v -> length v <= n).
  { intros st l v [[_ ->] <-]. rewrite skipn_length. lia. }
  exact (e2e_bound_invariant n tail_on_diff R init Hs Hi HRb capacity xs k).
Qed.

(* ---------------- non-vacuity ---------------- *)
(* Head with limit 2 on subscriber 0 of a vector of capacity 1: three pushes, a subscribe, then more
   updates than the capacity between polls, so the stream lags and delivers a Reset of 5 items; the
   consumer's view never exceeds 2 items (bounded run with b = 2 succeeds, the view is the first two
   items of the vector).  The checker has teeth: the same history with b = 1 fails. *)
Definition ex_hist : list (op nat) :=
  [OMut (MPushBack 1); OMut (MPushBack 2); OMut (MPushBack 3); OSub false;
   OMut (MPushFront 4); OPoll 0; OPoll 0;
   OMut (MPushFront 5); OMut (MPushFront 6); OMut (MPopFront); OPoll 0; OPoll 0;
   OMut (MPushFront 7); OPoll 0].
Definition ex_init := fun l : list nat => (snd (head_init 2 l), fst (head_init 2 l)).

Example e2e_bound_nonvacuous :
  option_map (fun r => (values (g_o (fst r)),
                        option_map (fun a => (h_buf (fst a), h_limit (fst a), snd a)) (snd r),
                        map (@gh_delivered nat) (g_gh (fst r))))
    (e2e_run_bound 2 head_on_diff ex_init 0 (ginit 1) None ex_hist)
  = Some ([7; 5; 4; 1; 2; 3], Some ([7; 5; 4; 1; 2; 3], 2, [7; 5]),
          [[PushFront 4; Reset [5; 4; 1; 2; 3]; PushFront 7]])
  /\ e2e_run_bound 1 head_on_diff ex_init 0 (ginit 1) None ex_hist = None.
Proof. vm_compute. split; reflexivity. Qed.

Print Assumptions e2e_bound_invariant.
Print Assumptions e2e_head_bound.
Print Assumptions e2e_tail_bound.
Print Assumptions e2e_bound_view_le.
Print Assumptions e2e_run_bound_run.
