(* ObsConcAux3.v — the invariant of the repaired Drop (fixed_drop = true). *)
From EB Require Import Obs ObsConc ObsConcAux ObsConcAux2.

Ltac counts3 :=
  match goal with
  | Hc : nth_error (cores ?s) ?t = Some _, Hc' : cores _ = set_nth ?t _ (cores ?s) |- _ =>
      let C1 := fresh "Cd" in let C2 := fresh "Cu" in let C3 := fresh "Cc" in
      pose proof (cnt_upd (g_drop true) _ _ _ _ _ Hc Hc') as C1;
      pose proof (cnt_upd g_up _ _ _ _ _ Hc Hc') as C2;
      pose proof (cnt_upd g_closing _ _ _ _ _ Hc Hc') as C3;
      let G1 := fresh "Gd" in let G2 := fresh "Gu" in let G3 := fresh "Gc" in
      pose proof (cnt_ge (g_drop true) _ _ _ Hc) as G1;
      pose proof (cnt_ge g_up _ _ _ Hc) as G2;
      pose proof (cnt_ge g_closing _ _ _ Hc) as G3;
      cbn in C1, C2, C3, G1, G2, G3
  end;
  try match goal with
      | H : context [c_clones ?s =? 1] |- _ => destruct (c_clones s =? 1) eqn:?; norm_conds
      end.

Ltac eqb0 :=
  repeat match goal with
         | |- context [?a =? 0] => destruct (a =? 0) eqn:?
         end; norm_conds.

Section FInv.
Context {V : Type}.
Implicit Types (s : cstate V).

Record FInv s : Prop := {
  fJ : cnt g_closing s + (if c_ver s =? 0 then 1 else 0) = (if c_clones s =? 0 then 1 else 0);
  fW : c_writer s = true -> hasw s = true;
  fH : c_panicked s = [] }.

Lemma FInv_step s t s' : GInv true s -> FInv s -> cstep true s t = Advanced s' -> FInv s'.
Proof.
  intros [K B C D E F P] [J W Hp] H.
  cstep_inv2 H; counts3; norm_conds;
    try (pose proof (hasw_nth _ _ _ Hth eq_refl) as Hhw; rewrite Hhw in *;
         assert (c_ver s <> 0) by (intro Z; apply C in Z; discriminate Z); simpl in K);
    try (assert (hasw s = false) by (apply B; lia));
    try (assert (hasw s = true) by (apply W; first [assumption | reflexivity]));
    try congruence.
  all: split; rewrite ?Hw; simpl; auto; try discriminate.
  all: revert J; simpl; eqb0; intros; lia.
Qed.

Lemma FInv_mark s t w : FInv s -> FInv (mark_waiting s t w).
Proof.
  intros [J W Hp].
  split; rewrite ?cnt_mark_waiting, ?hasw_mark_waiting; mark_rw s t w; auto.
Qed.

Lemma FInv_init (v : V) ver clones subs pending ops :
  1 <= ver -> 1 <= clones -> FInv (cinit v ver clones subs pending ops).
Proof.
  intros Hv Hc. split; rewrite ?cnt_cinit; simpl; auto; try discriminate.
  rewrite countf_zero by (intros []; reflexivity).
  destruct ver; [lia|]. destruct clones; [lia|]. reflexivity.
Qed.

Theorem FInv_reach (v : V) ver clones subs pending ops sched :
  1 <= ver -> 1 <= clones ->
  Forall (fun ov => ov <= ver) subs ->
  Forall (fun k => nth_error subs k = Some ver) pending ->
  Forall (fun op => match op with CPoll k => k < length subs | _ => True end) ops ->
  length (filter is_drop ops) + (if existsb isw ops then 1 else 0) <= clones ->
  let s := run_sched true (cinit v ver clones subs pending ops) sched in
  GInv true s /\ FInv s.
Proof.
  intros. apply (run_sched_inv (fun s => GInv true s /\ FInv s)).
  - intros s0 t s' [G Fi] Hs. split; [eapply GInv_step|eapply FInv_step]; eauto.
  - intros s0 t w [G Fi]. split; [now apply GInv_mark|now apply FInv_mark].
  - split; [now apply GInv_init|now apply FInv_init].
Qed.

(* nobody is in the middle of a drop: no closing thread *)
Lemma quiescent_no_closing s : handles_quiescent s = true -> cnt g_closing s = 0.
Proof.
  intros Hq. unfold cnt, cores. rewrite countf_map. apply countf_zero.
  intros th Hin. unfold handles_quiescent in Hq. rewrite forallb_forall in Hq.
  specialize (Hq th Hin). destruct th as [op p w]; destruct op, p; simpl in *; auto; discriminate.
Qed.

End FInv.
