(* Diff.v — VectorDiff<T>, VectorDiff::map, VectorDiff::apply  (eyeball-im/src/vector.rs:347-470) *)
From EB Require Export ListVec.

Inductive diff (A : Type) : Type :=
| Append (vs : list A)
| Clear
| PushFront (x : A)
| PushBack (x : A)
| PopFront
| PopBack
| Insert (i : nat) (x : A)
| SetAt (i : nat) (x : A)
| Remove (i : nat)
| Truncate (n : nat)
| Reset (vs : list A).
Arguments Append {A} vs.
Arguments Clear {A}.
Arguments PushFront {A} x.
Arguments PushBack {A} x.
Arguments PopFront {A}.
Arguments PopBack {A}.
Arguments Insert {A} i x.
Arguments SetAt {A} i x.
Arguments Remove {A} i.
Arguments Truncate {A} n.
Arguments Reset {A} vs.

(* VectorDiff::map, vector.rs:409-423 *)
Definition dmap {A B} (f : A -> B) (d : diff A) : diff B :=
  match d with
  | Append vs => Append (map f vs)
  | Clear => Clear
  | PushFront x => PushFront (f x)
  | PushBack x => PushBack (f x)
  | PopFront => PopFront
  | PopBack => PopBack
  | Insert i x => Insert i (f x)
  | SetAt i x => SetAt i (f x)
  | Remove i => Remove i
  | Truncate n => Truncate n
  | Reset vs => Reset (map f vs)
  end.

(* VectorDiff::apply, vector.rs:433-469.  None = the Rust call panics. *)
Definition apply {A} (d : diff A) (l : list A) : option (list A) :=
  match d with
  | Append vs => Some (l ++ vs)
  | Clear => Some []
  | PushFront x => Some (push_front x l)
  | PushBack x => Some (push_back x l)
  | PopFront => Some (pop_front l)
  | PopBack => Some (pop_back l)
  | Insert i x => insert_at i x l
  | SetAt i x => set_at i x l
  | Remove i => remove_at i l
  | Truncate n => Some (truncate n l)
  | Reset vs => Some vs
  end.

(* The strict applicability the properties speak of ("index out of range, pop from an
   empty replica"); strict for Truncate because every producer in the code base only
   emits strict truncations. *)
Definition ok_in {A} (d : diff A) (l : list A) : bool :=
  match d with
  | PopFront | PopBack => 0 <? length l
  | Insert i _ => i <=? length l
  | SetAt i _ | Remove i => i <? length l
  | Truncate n => n <? length l
  | _ => true
  end.

Fixpoint apply_all {A} (ds : list (diff A)) (l : list A) : option (list A) :=
  match ds with
  | [] => Some l
  | d :: ds' => obind (apply d l) (apply_all ds')
  end.

(* apply a list of diffs, checking ok_in before each one *)
Fixpoint apply_all_ok {A} (ds : list (diff A)) (l : list A) : option (list A) :=
  match ds with
  | [] => Some l
  | d :: ds' => if ok_in d l then obind (apply d l) (apply_all_ok ds') else None
  end.

(* Element-wise description of the documented effect of each diff (used by C18). *)
Definition spec_nth {A} (d : diff A) (l : list A) (k : nat) : option A :=
  match d with
  | Append vs => if k <? length l then nth_error l k else nth_error vs (k - length l)
  | Clear => None
  | PushFront x => match k with 0 => Some x | S k' => nth_error l k' end
  | PushBack x => if k <? length l then nth_error l k
                  else if k =? length l then Some x else None
  | PopFront => nth_error l (S k)
  | PopBack => if S k <? length l then nth_error l k else None
  | Insert i x => if k <? i then nth_error l k
                  else if k =? i then Some x else nth_error l (k - 1)
  | SetAt i x => if k =? i then Some x else nth_error l k
  | Remove i => if k <? i then nth_error l k else nth_error l (S k)
  | Truncate n => if k <? n then nth_error l k else None
  | Reset vs => nth_error vs k
  end.

(* apply panics exactly for insert/set/remove beyond the end *)
Definition oob {A} (d : diff A) (l : list A) : bool :=
  match d with
  | Insert i _ => length l <? i
  | SetAt i _ | Remove i => length l <=? i
  | _ => false
  end.
