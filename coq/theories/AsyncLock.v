(* AsyncLock.v — the async-lock flavour (C16, C19 async).
   Part 1: at operation granularity, with no guard held across another call, the async flavour is
   the default flavour except for the reference counts: every Subscriber<T, AsyncLock> owns two
   references to the state (its SharedReadLock and the prepared lock_owned() future,
   subscriber/async_lock.rs:15-39), and subscriber_count / strong_count are computed from
   Arc::strong_count.
   Part 2: tokio::sync::RwLock as a FIFO permit semaphore, for histories that hold guards across
   calls. *)
From EB Require Export Obs.

Section AsyncObs.
Context {V : Type}.
Variable veq : V -> V -> bool.
Variable heq : V -> V -> bool.
Variable vdefault : V.

Definition refs_per_sub_async : nat := 2.

Definition astep (o : obs V) (x : op V) : outcome (obs V * out V * list nat) :=
  match x with
  | HCounts =>
      if owners o =? 0 then Panic
      else Ok (o, OCounts (owners o) (refs_per_sub_async * live_subs o)
                          (owners o + refs_per_sub_async * live_subs o) (weaks o), [])
  | _ => step veq heq vdefault o x
  end.

(* Known-finding class F8: the count functions are called while a subscriber is alive *)
Definition async_subscriber_double_count (o : obs V) (x : op V) : bool :=
  match x with HCounts => 0 <? live_subs o | _ => false end.

End AsyncObs.

(* ---------------- tokio::sync::RwLock as a permit semaphore ----------------
   tokio-1.53.1 sync/rwlock.rs + sync/batch_semaphore.rs: MAX permits; read = 1 permit, write = all;
   waiters queue FIFO; permits released are handed to the queue head first (a waiter keeps what it
   has been assigned until it has all it needs), so a queued writer is never overtaken by readers
   that arrive later; an acquire with an empty queue and enough free permits succeeds at once. *)
Section Sem.

Variable max_permits : nat.

Record waiter := { w_id : nat; w_need : nat (* still missing *) }.

Record sem := { s_free : nat; s_queue : list waiter }.

Definition sem_new : sem := {| s_free := max_permits; s_queue := [] |}.

(* poll of an Acquire future for the first time *)
Definition sem_acquire (s : sem) (id need : nat) : sem * bool :=
  match s_queue s with
  | [] =>
      if need <=? s_free s then ({| s_free := s_free s - need; s_queue := [] |}, true)
      else
        (* take what is there and queue for the rest *)
        ({| s_free := 0; s_queue := [{| w_id := id; w_need := need - s_free s |}] |}, false)
  | q => ({| s_free := s_free s; s_queue := q ++ [{| w_id := id; w_need := need |}] |}, false)
  end.

(* hand [n] permits to the queue, head first; returns the ids whose acquire is now complete (they are
   woken) *)
Fixpoint sem_assign (n : nat) (q : list waiter) (woken : list nat) : nat * list waiter * list nat :=
  match q with
  | [] => (n, [], woken)
  | w :: rest =>
      if w_need w <=? n then sem_assign (n - w_need w) rest (woken ++ [w_id w])
      else (0, {| w_id := w_id w; w_need := w_need w - n |} :: rest, woken)
  end.

Definition sem_release (s : sem) (n : nat) : sem * list nat :=
  let '(free, q, woken) := sem_assign (s_free s + n) (s_queue s) [] in
  ({| s_free := free; s_queue := q |}, woken).

End Sem.
