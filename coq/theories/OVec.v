(* OVec.v — ObservableVector<T> (eyeball-im/src/vector.rs), its transactions
   (vector/transaction.rs), entry cursors (vector/entry.rs) and subscriber streams
   (vector/subscriber.rs), over a position-based model of tokio::sync::broadcast 1.53.1. *)
From EB Require Export Diff.

Section OVec.
Context {A : Type}.

(* BroadcastMessage { diffs: One | Many, state } *)
Record msg := { m_many : bool; m_diffs : list (diff A); m_state : list A }.

(* ---------------- tokio broadcast, position based ----------------
   log = every message ever sent (pos = length log); a receiver holds `next`; the ring buffer
   retains the last cap2 messages (cap2 = capacity.next_power_of_two());
   closed = the Sender is gone (for a live receiver; see DESIGN §8). *)
Inductive try_result := TOk (m : msg) | TEmpty | TClosed | TLagged.

Definition try_recv (log : list msg) (cap2 : nat) (closed : bool) (next : nat) : try_result * nat :=
  let pos := length log in
  if next =? pos then ((if closed then TClosed else TEmpty), next)
  else if pos - next <=? cap2 then
    match nth_error log next with
    | Some m => (TOk m, S next)
    | None => (TEmpty, next)         (* unreachable: next < pos *)
    end
  else (TLagged, pos - cap2).

(* usize::next_power_of_two *)
Fixpoint pow2_ge (fuel n p : nat) : nat :=
  match fuel with
  | 0 => p
  | S f => if n <=? p then p else pow2_ge f n (2 * p)
  end.
Definition next_pow2 (n : nat) : nat := pow2_ge n n 1.

(* subscriber.rs:215-243 handle_lag; fuel bounds the try_recv loop *)
Fixpoint handle_lag (fuel : nat) (log : list msg) (cap2 : nat) (closed : bool) (next : nat)
         (last : option msg) : outcome (option (list A)) * nat :=
  match fuel with
  | 0 => (Panic, next)                                   (* out of fuel: excluded by the theorems *)
  | S f =>
      match try_recv log cap2 closed next with
      | (TOk m, next') => handle_lag f log cap2 closed next' (Some m)
      | (TClosed, next') => (Ok (option_map m_state last), next')   (* msg.map(|msg| msg.state) *)
      | (TLagged, next') => handle_lag f log cap2 closed next' last
      | (TEmpty, next') =>
          match last with
          | Some m => (Ok (Some (m_state m)), next')
          | None => (Panic, next')                       (* unreachable!("got no new message...") *)
          end
      end
  end.

(* ---------------- subscriber streams ---------------- *)
Inductive sstate := SRecv | SYield (rest : list (diff A)).
Record sub := { sb_next : nat; sb_batched : bool; sb_state : sstate; sb_waiting : bool }.

(* one item of a stream *)
Inductive item := IDiff (d : diff A) | IBatch (ds : list (diff A)).

(* VectorSubscriberStream::poll_next, subscriber.rs:105-154 *)
Definition poll_plain (log : list msg) (cap2 : nat) (closed : bool) (s : sub)
  : outcome (sub * poll (option item)) :=
  match sb_state s with
  | SYield rest =>
      match rest with
      | [] => Panic                                      (* expect("YieldBatch is never left empty") *)
      | d :: rest' =>
          let st' := match rest' with [] => SRecv | _ => SYield rest' end in
          Ok ({| sb_next := sb_next s; sb_batched := false; sb_state := st'; sb_waiting := false |},
              Ready (Some (IDiff d)))
      end
  | SRecv =>
      match try_recv log cap2 closed (sb_next s) with
      | (TEmpty, n) =>
          Ok ({| sb_next := n; sb_batched := false; sb_state := SRecv; sb_waiting := true |}, Pending)
      | (TClosed, n) =>
          Ok ({| sb_next := n; sb_batched := false; sb_state := SRecv; sb_waiting := false |}, Ready None)
      | (TLagged, n) =>
          match handle_lag (S (S (length log))) log cap2 closed n None with
          | (Panic, _) => Panic
          | (Ok r, n') =>
              Ok ({| sb_next := n'; sb_batched := false; sb_state := SRecv; sb_waiting := false |},
                  Ready (option_map (fun vs => IDiff (Reset vs)) r))
          end
      | (TOk m, n) =>
          let mk st := {| sb_next := n; sb_batched := false; sb_state := st; sb_waiting := false |} in
          if m_many m then
            match m_diffs m with
            | [] => Panic                                (* unreachable!("never sends empty diffs") *)
            | [d] => Ok (mk SRecv, Ready (Some (IDiff d)))
            | d :: rest => Ok (mk (SYield rest), Ready (Some (IDiff d)))
            end
          else
            match m_diffs m with
            | [d] => Ok (mk SRecv, Ready (Some (IDiff d)))
            | _ => Panic                                 (* One holds exactly one diff *)
            end
      end
  end.

(* the try_recv loop of the batched stream, subscriber.rs:191-203 *)
Fixpoint batch_loop (fuel : nat) (log : list msg) (cap2 : nat) (closed : bool) (next : nat)
         (batch : list (diff A)) : outcome (option (list (diff A))) * nat :=
  match fuel with
  | 0 => (Panic, next)
  | S f =>
      match try_recv log cap2 closed next with
      | (TOk m, n) => batch_loop f log cap2 closed n (batch ++ m_diffs m)
      | (TEmpty, n) | (TClosed, n) => (Ok (Some batch), n)
      | (TLagged, n) =>
          match handle_lag (S (S (length log))) log cap2 closed n None with
          | (Panic, n') => (Panic, n')
          | (Ok r, n') => (Ok (option_map (fun vs => [Reset vs]) r), n')
          end
      end
  end.

(* VectorSubscriberBatchedStream::poll_next, subscriber.rs:176-212 *)
Definition poll_batched (log : list msg) (cap2 : nat) (closed : bool) (s : sub)
  : outcome (sub * poll (option item)) :=
  let mk n w := {| sb_next := n; sb_batched := true; sb_state := SRecv; sb_waiting := w |} in
  match try_recv log cap2 closed (sb_next s) with
  | (TEmpty, n) => Ok (mk n true, Pending)
  | (TClosed, n) => Ok (mk n false, Ready None)
  | (TLagged, n) =>
      match handle_lag (S (S (length log))) log cap2 closed n None with
      | (Panic, _) => Panic
      | (Ok r, n') => Ok (mk n' false, Ready (option_map (fun vs => IBatch [Reset vs]) r))
      end
  | (TOk m, n) =>
      match batch_loop (S (S (length log))) log cap2 closed n (m_diffs m) with
      | (Panic, _) => Panic
      | (Ok r, n') => Ok (mk n' false, Ready (option_map IBatch r))
      end
  end.

(* ---------------- the vector ---------------- *)
Record txn := { tx_values : list A; tx_batch : list (diff A) }.

Record ovec := {
  values : list A;
  log : list msg;
  cap2 : nat;
  alive : bool;                       (* the ObservableVector (and its Sender) still exists *)
  subs : list (option sub);           (* None = dropped *)
  cur_txn : option txn;
}.

Definition rx_cnt (o : ovec) : nat := length (filter (fun s => match s with Some _ => true | None => false end) (subs o)).

Definition ovec_new (capacity : nat) : ovec :=
  {| values := []; log := []; cap2 := next_pow2 capacity; alive := true; subs := []; cur_txn := None |}.

Definition with_values (o : ovec) (v : list A) : ovec :=
  {| values := v; log := log o; cap2 := cap2 o; alive := alive o; subs := subs o; cur_txn := cur_txn o |}.
Definition with_subs (o : ovec) (s : list (option sub)) : ovec :=
  {| values := values o; log := log o; cap2 := cap2 o; alive := alive o; subs := s; cur_txn := cur_txn o |}.
Definition with_txn (o : ovec) (t : option txn) : ovec :=
  {| values := values o; log := log o; cap2 := cap2 o; alive := alive o; subs := subs o; cur_txn := t |}.

(* Sender::send wakes (and clears) all waiting receivers *)
Definition wake_all (ss : list (option sub)) : list (option sub) :=
  map (option_map (fun s => {| sb_next := sb_next s; sb_batched := sb_batched s;
                               sb_state := sb_state s; sb_waiting := false |})) ss.
Definition waiting_ids (ss : list (option sub)) : list nat :=
  map fst (filter (fun p => match snd p with Some s => sb_waiting s | None => false end)
                  (combine (seq 0 (length ss)) ss)).

(* broadcast_diff, vector.rs:279-290: send only if there is a receiver; returns the woken ids *)
Definition send (o : ovec) (m : msg) : ovec * list nat :=
  if rx_cnt o =? 0 then (o, [])
  else ({| values := values o; log := log o ++ [m]; cap2 := cap2 o; alive := alive o;
           subs := wake_all (subs o); cur_txn := cur_txn o |}, waiting_ids (subs o)).

Definition broadcast_diff (o : ovec) (d : diff A) : ovec * list nat :=
  send o {| m_many := false; m_diffs := [d]; m_state := values o |}.

(* the mutating calls of ObservableVector and of its transaction *)
Inductive mutator :=
| MAppend (vs : list A) | MClear | MPushFront (x : A) | MPushBack (x : A) | MPopFront | MPopBack
| MInsert (i : nat) (x : A) | MSet (i : nat) (x : A) | MRemove (i : nat) | MTruncate (n : nat).

(* return value of a mutating call *)
Inductive ret := RUnit | ROpt (o : option A) | RVal (x : A).

(* effect on a plain vector: new contents, return value, and the diff to publish (None = no-op,
   nothing published); outer None = the call panics *)
Definition mutate (m : mutator) (v : list A) (clear_on_empty : bool) : option (list A * ret * option (diff A)) :=
  match m with
  | MAppend vs => Some (v ++ vs, RUnit, Some (Append vs))
  | MClear =>
      (* ObservableVector::clear is a no-op on an empty vector; the transaction's clear is not *)
      if clear_on_empty then Some ([], RUnit, Some Clear)
      else match v with [] => Some (v, RUnit, None) | _ => Some ([], RUnit, Some Clear) end
  | MPushFront x => Some (x :: v, RUnit, Some (PushFront x))
  | MPushBack x => Some (v ++ [x], RUnit, Some (PushBack x))
  | MPopFront =>
      match v with [] => Some (v, ROpt None, None) | x :: v' => Some (v', ROpt (Some x), Some PopFront) end
  | MPopBack =>
      match back v with None => Some (v, ROpt None, None) | Some x => Some (removelast v, ROpt (Some x), Some PopBack) end
  | MInsert i x =>
      if i <=? length v then option_map (fun v' => (v', RUnit, Some (Insert i x))) (insert_at i x v) else None
  | MSet i x =>
      match nth_error v i with
      | Some old => option_map (fun v' => (v', RVal old, Some (SetAt i x))) (set_at i x v)
      | None => None
      end
  | MRemove i =>
      match nth_error v i with
      | Some old => option_map (fun v' => (v', RVal old, Some (Remove i))) (remove_at i v)
      | None => None
      end
  | MTruncate n =>
      if n <? length v then Some (firstn n v, RUnit, Some (Truncate n)) else Some (v, RUnit, None)
  end.

(* a mutating call on the ObservableVector itself (vector.rs:73-219) *)
Definition ovec_mutate (o : ovec) (m : mutator) : outcome (ovec * ret * list nat) :=
  match mutate m (values o) false with
  | None => Panic
  | Some (v', r, od) =>
      let o1 := with_values o v' in
      match od with
      | None => Ok (o1, r, [])
      | Some d => let '(o2, woken) := broadcast_diff o1 d in Ok (o2, r, woken)
      end
  end.

(* a mutating call on the transaction (transaction.rs:60-230): touches only the working copy;
   the diff is recorded only if there is a receiver at that moment; clear drops the earlier ones *)
Definition txn_mutate (o : ovec) (m : mutator) : outcome (ovec * ret) :=
  match cur_txn o with
  | None => Panic
  | Some t =>
      match mutate m (tx_values t) true with
      | None => Panic
      | Some (v', r, od) =>
          let batch0 := match m with MClear => [] | _ => tx_batch t end in
          let batch' := match od with
                        | Some d => if rx_cnt o =? 0 then batch0 else batch0 ++ [d]
                        | None => batch0
                        end in
          Ok (with_txn o (Some {| tx_values := v'; tx_batch := batch' |}), r)
      end
  end.

Definition txn_begin (o : ovec) : ovec := with_txn o (Some {| tx_values := values o; tx_batch := [] |}).
Definition txn_rollback (o : ovec) : ovec :=
  match cur_txn o with
  | Some _ => with_txn o (Some {| tx_values := values o; tx_batch := [] |})
  | None => o
  end.
Definition txn_drop (o : ovec) : ovec := with_txn o None.
(* transaction.rs:60-84 commit *)
Definition txn_commit (o : ovec) : ovec * list nat :=
  match cur_txn o with
  | None => (o, [])
  | Some t =>
      let o1 := with_txn (with_values o (tx_values t)) None in
      match tx_batch t with
      | [] => (o1, [])
      | b =>
          (* sender.send(..).unwrap_or(0): with no receiver the message is dropped *)
          send o1 {| m_many := true; m_diffs := b; m_state := tx_values t |}
      end
  end.

(* subscribe, vector.rs:66-69: snapshot + a receiver positioned at the tail *)
Definition subscribe (o : ovec) (batched : bool) : ovec * nat * list A :=
  let s := {| sb_next := length (log o); sb_batched := batched; sb_state := SRecv; sb_waiting := false |} in
  (with_subs o (subs o ++ [Some s]), length (subs o), values o).

Fixpoint set_nth {X} (k : nat) (x : X) (l : list X) : list X :=
  match l, k with
  | [], _ => []
  | _ :: l', 0 => x :: l'
  | y :: l', S k' => y :: set_nth k' x l'
  end.

Definition drop_sub (o : ovec) (k : nat) : ovec := with_subs o (set_nth k None (subs o)).

Definition poll_sub (o : ovec) (k : nat) : outcome (ovec * poll (option item)) :=
  match nth_error (subs o) k with
  | Some (Some s) =>
      match (if sb_batched s then poll_batched else poll_plain) (log o) (cap2 o) (negb (alive o)) s with
      | Panic => Panic
      | Ok (s', r) => Ok (with_subs o (set_nth k (Some s') (subs o)), r)
      end
  | _ => Panic
  end.

(* dropping the ObservableVector closes the channel and wakes every waiting receiver *)
Definition drop_vec (o : ovec) : ovec * list nat :=
  ({| values := values o; log := log o; cap2 := cap2 o; alive := false;
      subs := wake_all (subs o); cur_txn := None |}, waiting_ids (subs o)).

(* ---------------- entry cursors (entry.rs) ---------------- *)
(* what the closure does with the entry it is handed *)
Inductive decision := DKeep | DSet (x : A) | DRemove | DSetRemove (x : A) | DStop.

Definition cur_values (o : ovec) (in_txn : bool) : list A :=
  if in_txn then match cur_txn o with Some t => tx_values t | None => [] end else values o.

Definition do_mut (o : ovec) (in_txn : bool) (m : mutator) : outcome (ovec * ret * list nat) :=
  if in_txn then
    match txn_mutate o m with Ok (o', r) => Ok (o', r, []) | Panic => Panic end
  else ovec_mutate o m.

(* entries()/for_each: the cursor starts at 0; an entry that is dropped advances it, an entry
   that is removed does not (EntryIndex::make_owned).  [acc] records (index reported by the
   entry, element handed to the closure).  Decisions beyond the list default to DKeep. *)
Fixpoint traverse (fuel : nat) (decs : list decision) (idx : nat) (o : ovec) (in_txn : bool)
         (acc : list (nat * A)) (woken : list nat) : outcome (ovec * list (nat * A) * list nat) :=
  match fuel with
  | 0 => Ok (o, acc, woken)
  | S f =>
      match nth_error (cur_values o in_txn) idx with
      | None => Ok (o, acc, woken)                       (* index >= len: next() returns None *)
      | Some x =>
          let acc' := acc ++ [(idx, x)] in
          let d := match decs with d :: _ => d | [] => DKeep end in
          let rest := tl decs in
          match d with
          | DKeep => traverse f rest (S idx) o in_txn acc' woken
          | DStop => Ok (o, acc', woken)
          | DSet y =>
              match do_mut o in_txn (MSet idx y) with
              | Panic => Panic
              | Ok (o', _, w) => traverse f rest (S idx) o' in_txn acc' (woken ++ w)
              end
          | DRemove =>
              match do_mut o in_txn (MRemove idx) with
              | Panic => Panic
              | Ok (o', _, w) => traverse f rest idx o' in_txn acc' (woken ++ w)
              end
          | DSetRemove y =>
              match do_mut o in_txn (MSet idx y) with
              | Panic => Panic
              | Ok (o', _, w) =>
                  match do_mut o' in_txn (MRemove idx) with
                  | Panic => Panic
                  | Ok (o'', _, w') => traverse f rest idx o'' in_txn acc' (woken ++ w ++ w')
                  end
              end
          end
      end
  end.

Definition for_each (o : ovec) (in_txn : bool) (decs : list decision) :=
  traverse (S (length (cur_values o in_txn))) decs 0 o in_txn [] [].

End OVec.
Arguments msg : clear implicits.
Arguments sub : clear implicits.
Arguments ovec : clear implicits.
Arguments txn : clear implicits.
Arguments item : clear implicits.
Arguments mutator : clear implicits.
Arguments ret : clear implicits.
Arguments decision : clear implicits.
Arguments sstate : clear implicits.
