(* OVecExtra.v — small additions on top of OVecFacts.v used by the property files. *)
From EB Require Import OVec OVecRun OVecFacts.

Section Extra.
Context {A : Type}.

Lemma do_mut_cap2 (o : ovec A) in_txn m o' r w : do_mut o in_txn m = Ok (o', r, w) -> cap2 o' = cap2 o.
Proof.
  unfold do_mut. destruct in_txn.
  - destruct (txn_mutate o m) as [[o1 r1]|] eqn:E; [|discriminate].
    intro H; injection H as <- <- <-. apply (txn_mutate_invisible _ _ _ _ E).
  - intro H. pose proof (ovec_mutate_spec o m) as S.
    destruct (mutate m (values o) false) as [[[v' r0] od]|]; [|congruence].
    destruct S as (o1 & w1 & E & _ & Hc & _). rewrite E in H. injection H as <- _ _. exact Hc.
Qed.

Lemma for_each_cap2 (o : ovec A) in_txn decs o' vis w :
  for_each o in_txn decs = Ok (o', vis, w) -> cap2 o' = cap2 o.
Proof.
  unfold for_each. intro H.
  refine (traverse_preserves (fun x => cap2 x = cap2 o) in_txn _ _ _ _ _ _ _ _ _ _ eq_refl H).
  intros o0 m o1 r w0 HP E. rewrite <- HP. eapply do_mut_cap2; eassumption.
Qed.

Lemma cap2_gstep (g : gst A) x g' out : gstep g x = Ok (g', out) -> cap2 (g_o g') = cap2 (g_o g).
Proof.
  unfold gstep. destruct x.
  - destruct (_ || _); [discriminate|].
    pose proof (ovec_mutate_spec (g_o g) m) as S.
    destruct (mutate m (values (g_o g)) false) as [[[v' r0] od]|].
    + destruct S as (o1 & w1 & E & _ & Hc & _). rewrite E. intro H; injection H as <- _. exact Hc.
    + rewrite S. discriminate.
  - destruct (_ || _); [discriminate|].
    destruct (for_each (g_o g) false decs) as [[[o1 vis] w]|] eqn:E; [|discriminate].
    intro H; injection H as <- _. eapply for_each_cap2; eassumption.
  - destruct (_ || _); [discriminate|]. unfold subscribe. intro H; injection H as <- _. reflexivity.
  - unfold poll_sub. destruct (nth_error (subs (g_o g)) k) as [[s|]|]; try discriminate.
    destruct ((if sb_batched s then poll_batched else poll_plain) _ _ _ s) as [[s' r]|]; [|discriminate].
    destruct r as [[it|]|].
    + destruct (nth_error (g_gh g) k); [|discriminate]. destruct (deliver _ _ _).
      intro H; injection H as <- _. reflexivity.
    + intro H; injection H as <- _. reflexivity.
    + intro H; injection H as <- _. reflexivity.
  - intro H; injection H as <- _. reflexivity.
  - destruct (_ || _); [discriminate|]. intro H; injection H as <- _. reflexivity.
  - destruct (txn_mutate (g_o g) m) as [[o1 r]|] eqn:E; [|discriminate].
    intro H; injection H as <- _. apply (txn_mutate_invisible _ _ _ _ E).
  - destruct (cur_txn (g_o g)); [|discriminate].
    destruct (for_each (g_o g) true decs) as [[[o1 vis] w]|] eqn:E; [|discriminate].
    intro H; injection H as <- _. eapply for_each_cap2; eassumption.
  - destruct (cur_txn (g_o g)) eqn:Et; [|discriminate]. intro H; injection H as <- _.
    unfold txn_rollback. rewrite Et. reflexivity.
  - destruct (cur_txn (g_o g)) eqn:Et; [|discriminate]. intro H; injection H as <- _.
    unfold txn_commit. rewrite Et. destruct (tx_batch t); [reflexivity|].
    unfold send. cbn [cap2 with_txn with_values rx_cnt subs]. destruct (_ =? 0); reflexivity.
  - destruct (cur_txn (g_o g)); [|discriminate]. intro H; injection H as <- _. reflexivity.
  - destruct (_ || _); [discriminate|]. intro H; injection H as <- _. reflexivity.
Qed.

Lemma cap2_grun (g : gst A) xs : cap2 (g_o (grun g xs)) = cap2 (g_o g).
Proof.
  revert g; induction xs as [|x xs IH]; intro g; cbn [grun]; [reflexivity|].
  destruct (gstep g x) as [[g' out]|] eqn:E; [|apply IH].
  rewrite IH. eapply cap2_gstep; eassumption.
Qed.

Lemma reachable_strong capacity (xs : list (op A)) : ginv_strong (grun (ginit capacity) xs).
Proof. apply ginv_strong_run. apply ginv_strong_init. Qed.

End Extra.
