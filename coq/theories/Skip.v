(* Skip.v — eyeball-im-util/src/vector/skip.rs, transcribed arm by arm. *)
From EB Require Export Diff.

Section Skip.
Context {A : Type}.

Record skip_st := { s_buf : list A; s_count : option nat }.

(* skip.rs:520-540 Skeep::skeep *)
Definition skeep_impl (count : nat) (l : list A) : list A :=
  match count with
  | 0 => l
  | _ => if length l <=? count then [] else skipn count l
  end.

(* skip.rs:184-203 dynamic_with_initial_count; skip.rs:167-179 dynamic (count None) *)
Definition skip_init (count : nat) (vs : list A) : list A * skip_st :=
  (skeep_impl count vs, {| s_buf := vs; s_count := Some count |}).
Definition skip_init_dynamic (vs : list A) : skip_st := {| s_buf := vs; s_count := None |}.

(* skip.rs:377-505 handle_diff *)
Definition skip_handle_diff (d : diff A) (count prev_len : nat) (buf' : list A) : outcome (list (diff A)) :=
  match d with
  | Append vs =>
      if count <? length buf' then
        Ok [Append (if prev_len <? count then skeep_impl (count - prev_len) vs else vs)]
      else Ok []
  | Clear => Ok [Clear]
  | PushFront x =>
      if count <=? prev_len then
        if count =? 0 then Ok [PushFront x]
        else match nth_error buf' count with Some y => Ok [PushFront y] | None => Ok [] end
      else Ok []
  | PushBack x => if count <=? prev_len then Ok [PushBack x] else Ok []
  | PopFront => if count <? prev_len then Ok [PopFront] else Ok []
  | PopBack => if count <? prev_len then Ok [PopBack] else Ok []
  | Insert i x =>
      if count <=? prev_len then
        if (0 <? count) && (i <? count) then
          match nth_error buf' count with Some y => Ok [PushFront y] | None => Ok [] end
        else (* index - count: cannot underflow here (count = 0 or index >= count) *)
          match csub i count with Some j => Ok [Insert j x] | None => Panic end
      else Ok []
  | SetAt i x => if count <=? i then Ok [SetAt (i - count) x] else Ok []
  | Remove i =>
      if count <? prev_len then
        if i <? count then Ok [PopFront] else Ok [Remove (i - count)]
      else Ok []
  | Truncate n =>
      if count <? prev_len then
        if count <? n then Ok [Truncate (n - count)] else Ok [Clear]
      else Ok []
  | Reset vs => Ok [Reset (skeep_impl count vs)]
  end.

(* the closure passed to push_into_skip_buf, skip.rs:262-277 *)
Definition skip_on_diff (st : skip_st) (d : diff A) : outcome (skip_st * list (diff A)) :=
  match apply d (s_buf st) with
  | None => Panic
  | Some buf' =>
      let st' := {| s_buf := buf'; s_count := s_count st |} in
      match s_count st with
      | None => Ok (st', [])
      | Some count =>
          match skip_handle_diff d count (length (s_buf st)) buf' with
          | Ok outs => Ok (st', outs)
          | Panic => Panic
          end
      end
  end.

(* skip.rs:296-374 update_count *)
Definition skip_update_count (st : skip_st) (new_count : nat) : skip_st * option (list (diff A)) :=
  let st' := {| s_buf := s_buf st; s_count := Some new_count |} in
  let buf := s_buf st in
  match buf with
  | [] => (st', None)
  | _ =>
    match s_count st with
    | None => (st', Some [Append (skeep_impl new_count buf)])
    | Some old_count =>
        let len := length buf in
        let old := min old_count len in
        let new := min new_count len in
        match old ?= new with
        | Lt => (st', if len <=? new then Some [Clear] else Some (repeat PopFront (new - old)))
        | Gt =>
            if (old =? len) && (new =? 0) then (st', Some [Append buf])
            else
              let missing := firstn (old - new) (skipn (len - old) (rev buf)) in
              (st', match missing with [] => None | _ => Some (map PushFront missing) end)
        | Eq => (st', None)
        end
    end
  end.

Definition skip_view (st : skip_st) : list A :=
  match s_count st with None => [] | Some c => skipn c (s_buf st) end.

End Skip.
Arguments skip_st : clear implicits.
