(* OVecDrain.v — a poll that races the sender.

   OVec.v interleaves vector operations and polls at call granularity: a poll sees one fixed log.
   In the implementation the drain loops of vector/subscriber.rs (the batched stream's
   `loop { match rx.try_recv() .. }`, subscriber.rs:189-202, and `handle_lag`, :215-243) call
   try_recv repeatedly, and an ObservableVector on another thread may publish, or be dropped,
   BETWEEN two of those calls (each try_recv and each send is atomic: tokio takes the channel's
   tail lock / the slot lock).  Here that is modelled: a poll carries a list of injections, the
   k-th being the vector-side operations that happen immediately before the k-th try_recv of a
   drain loop (the cfg-guarded drain points of eyeball-im/src/verif.rs sit exactly there).  The
   first receive attempt of a poll (`rx.recv()` inside the boxed future) sees the log as it is when
   the poll starts.  When the injections are used up the loop goes on against a sender that has
   gone quiet, i.e. as in OVec.v.  *)
From EB Require Export OVec OVecRun.

Section Drain.
Context {A : Type}.

(* operations the other side may perform during a poll of subscriber k: everything except polling,
   and except dropping the subscriber that is being polled *)
Definition env_op (k : nat) (x : op A) : bool :=
  match x with
  | OPoll _ => false
  | ODropSub j => negb (j =? k)
  | _ => true
  end.

Definition env_ops (k : nat) (xs : list (op A)) : bool := forallb (env_op k) xs.

(* handle_lag against a moving sender; returns the result, the receiver position, the global state
   after the injections that were consumed, and how many injections were consumed *)
Fixpoint c_handle_lag (inj : list (list (op A))) (g : gst A) (next : nat) (last : option (msg A))
         (used : nat) : outcome (option (list A)) * nat * gst A * nat :=
  match inj with
  | [] =>
      let o := g_o g in
      let '(r, n) := handle_lag (S (S (length (log o)))) (log o) (cap2 o) (negb (alive o)) next last in
      (r, n, g, used)
  | xs :: inj' =>
      let g1 := grun g xs in
      let o := g_o g1 in
      match try_recv (log o) (cap2 o) (negb (alive o)) next with
      | (TOk m, n) => c_handle_lag inj' g1 n (Some m) (S used)
      | (TClosed, n) => (Ok (option_map (@m_state A) last), n, g1, S used)
      | (TLagged, n) => c_handle_lag inj' g1 n last (S used)
      | (TEmpty, n) =>
          (match last with Some m => Ok (Some (m_state m)) | None => Panic end, n, g1, S used)
      end
  end.

(* the batched stream's loop against a moving sender *)
Fixpoint c_batch_loop (inj : list (list (op A))) (g : gst A) (next : nat) (batch : list (diff A))
         (used : nat) : outcome (option (list (diff A))) * nat * gst A * nat :=
  match inj with
  | [] =>
      let o := g_o g in
      let '(r, n) := batch_loop (S (S (length (log o)))) (log o) (cap2 o) (negb (alive o)) next batch in
      (r, n, g, used)
  | xs :: inj' =>
      let g1 := grun g xs in
      let o := g_o g1 in
      match try_recv (log o) (cap2 o) (negb (alive o)) next with
      | (TOk m, n) => c_batch_loop inj' g1 n (batch ++ m_diffs m) (S used)
      | (TEmpty, n) | (TClosed, n) => (Ok (Some batch), n, g1, S used)
      | (TLagged, n) =>
          match c_handle_lag inj' g1 n None (S used) with
          | (Panic, n', g2, u) => (Panic, n', g2, u)
          | (Ok r, n', g2, u) => (Ok (option_map (fun vs => [Reset vs]) r), n', g2, u)
          end
      end
  end.

(* was the item answered from a lag path?  (a Reset, and nothing else, is then delivered) *)
Definition is_lag_item (it : item A) : bool :=
  match it with
  | IDiff (Reset _) => true
  | IBatch [Reset _] => true
  | _ => false
  end.

(* one poll of subscriber k with injections; the result, the state afterwards (injections and the
   subscriber's new position written back), the number of injections consumed *)
Definition c_poll_sub (g : gst A) (k : nat) (inj : list (list (op A)))
  : outcome (gst A * poll (option (item A)) * nat) :=
  let o := g_o g in
  match nth_error (subs o) k with
  | Some (Some s) =>
      let put (g1 : gst A) (s' : sub A) : gst A :=
        {| g_o := with_subs (g_o g1) (set_nth k (Some s') (subs (g_o g1)));
           g_gh := g_gh g1; g_app_ok := g_app_ok g1 |} in
      let mk n w := {| sb_next := n; sb_batched := sb_batched s; sb_state := SRecv; sb_waiting := w |} in
      match sb_state s with
      | SYield _ =>
          (* a batch is being handed out: no receive attempt, nothing to race with *)
          match poll_sub o k with
          | Panic => Panic
          | Ok (o', r) => Ok ({| g_o := o'; g_gh := g_gh g; g_app_ok := g_app_ok g |}, r, 0)
          end
      | SRecv =>
          match try_recv (log o) (cap2 o) (negb (alive o)) (sb_next s) with
          | (TLagged, n) =>
              match c_handle_lag inj g n None 0 with
              | (Panic, _, _, _) => Panic
              | (Ok r, n', g1, u) =>
                  Ok (put g1 (mk n' false),
                      Ready (option_map (fun vs => if sb_batched s then IBatch [Reset vs] else IDiff (Reset vs)) r), u)
              end
          | (TOk m, n) =>
              if sb_batched s then
                match c_batch_loop inj g n (m_diffs m) 0 with
                | (Panic, _, _, _) => Panic
                | (Ok r, n', g1, u) => Ok (put g1 (mk n' false), Ready (option_map (@IBatch A) r), u)
                end
              else
                match poll_sub o k with
                | Panic => Panic
                | Ok (o', r) => Ok ({| g_o := o'; g_gh := g_gh g; g_app_ok := g_app_ok g |}, r, 0)
                end
          | _ =>
              match poll_sub o k with
              | Panic => Panic
              | Ok (o', r) => Ok ({| g_o := o'; g_gh := g_gh g; g_app_ok := g_app_ok g |}, r, 0)
              end
          end
      end
  | _ => Panic
  end.

(* the ghost bookkeeping of OVecRun.gstep (OPoll), for a racing poll *)
Definition c_gpoll (g : gst A) (k : nat) (inj : list (list (op A)))
  : outcome (gst A * poll (option (item A)) * nat) :=
  match c_poll_sub g k inj with
  | Panic => Panic
  | Ok (g1, r, u) =>
      match r with
      | Ready (Some it) =>
          match nth_error (g_gh g1) k with
          | None => Panic
          | Some gh =>
              let '(gh', ok) := deliver gh (item_diffs it) (is_lag_item it) in
              Ok ({| g_o := g_o g1; g_gh := set_nth k gh' (g_gh g1); g_app_ok := g_app_ok g1 && ok |}, r, u)
          end
      | _ => Ok (g1, r, u)
      end
  end.

(* histories whose polls may race *)
Inductive cop :=
| CPlain (x : op A)
| CPoll (k : nat) (inj : list (list (op A))).

Definition c_step (g : gst A) (c : cop) : gst A :=
  match c with
  | CPlain x => grun g [x]
  | CPoll k inj =>
      if forallb (env_ops k) inj then
        match c_gpoll g k inj with Ok (g', _, _) => g' | Panic => g end
      else g
  end.

Definition c_run (g : gst A) (cs : list cop) : gst A := fold_left c_step cs g.

End Drain.
Arguments cop : clear implicits.
