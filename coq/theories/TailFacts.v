(* TailFacts.v — correctness of the Tail adapter model (C09, C15). *)
From EB Require Import Tail AdapterCore ListTac DiffFacts.

Section TailFacts.
Context {A : Type}.
Implicit Types (l v vs : list A) (st : tail_st A).

Definition tail_R st l v : Prop := t_buf st = l /\ v = skipn (length l - t_limit st) l.

Lemma tfe_impl_eq limit vs : tfe_impl limit vs = skipn (length vs - limit) vs.
Proof.
  unfold tfe_impl. destruct (Nat.eqb_spec limit 0) as [->|H0].
  - rewrite Nat.sub_0_r, skipn_all. reflexivity.
  - destruct (Nat.eqb_spec (length vs - limit) 0) as [->|H1]; reflexivity.
Qed.

Lemma tail_init_ok limit vs :
  fst (tail_init limit vs) = skipn (length vs - limit) vs /\
  tail_R (snd (tail_init limit vs)) vs (skipn (length vs - limit) vs).
Proof.
  unfold tail_init, tail_R; cbn [fst snd t_buf t_limit]. split; [|split; reflexivity].
  destruct (Nat.ltb_spec limit (length vs)); [apply tfe_impl_eq|].
  replace (length vs - limit) with 0 by lia. reflexivity.
Qed.

Lemma tail_init_bound limit vs : length (fst (tail_init limit vs)) <= limit.
Proof. rewrite (proj1 (tail_init_ok limit vs)). len_norm. lia. Qed.

Lemma skipn_tl k v : skipn k (tl v) = skipn (S k) v.
Proof. destruct v; [cbn [tl]; rewrite !skipn_nil|]; reflexivity. Qed.

(* k PopFronts *)
Lemma aaob_pop_fronts b k : forall v (rest : list (diff A)),
  k <= length v -> length v <= b ->
  apply_all_ok_bound b (repeat PopFront k ++ rest) v = apply_all_ok_bound b rest (skipn k v).
Proof.
  induction k as [|k IH]; intros v rest Hk Hb; cbn [repeat app]; [reflexivity|].
  erewrite aaob_cons;
    [ | cbn [ok_in]; apply Nat.ltb_lt; lia | cbn [apply]; reflexivity
      | unfold pop_front; len_norm; lia ].
  unfold pop_front. rewrite IH by (len_norm; lia). rewrite skipn_tl. reflexivity.
Qed.

(* k PopBacks *)
Lemma aaob_pop_backs b k : forall v (rest : list (diff A)),
  k <= length v -> length v <= b ->
  apply_all_ok_bound b (repeat PopBack k ++ rest) v =
  apply_all_ok_bound b rest (firstn (length v - k) v).
Proof.
  induction k as [|k IH]; intros v rest Hk Hb; cbn [repeat app].
  - rewrite Nat.sub_0_r, firstn_all. reflexivity.
  - erewrite aaob_cons;
      [ | cbn [ok_in]; apply Nat.ltb_lt; lia | cbn [apply]; reflexivity
        | unfold pop_back; len_norm; lia ].
    unfold pop_back. rewrite IH by (len_norm; lia). f_equal. len_norm. list_ext.
Qed.

(* a run of PushFronts *)
Lemma aaob_push_fronts b xs : forall v (rest : list (diff A)),
  length xs + length v <= b ->
  apply_all_ok_bound b (map PushFront xs ++ rest) v = apply_all_ok_bound b rest (rev xs ++ v).
Proof.
  induction xs as [|x xs IH]; intros v rest Hb; cbn [map app rev]; [reflexivity|].
  cbn [length] in Hb.
  erewrite aaob_cons;
    [ | reflexivity | cbn [apply]; reflexivity | unfold push_front; cbn [length]; lia ].
  unfold push_front. rewrite IH by (cbn [length]; lia). rewrite <- app_assoc. reflexivity.
Qed.

Lemma nth_error_in_range_some l k : k < length l -> exists x, nth_error l k = Some x.
Proof.
  intro H. destruct (nth_error l k) eqn:E; [eauto|]. apply nth_error_None in E. lia.
Qed.

(* discharge one consumer step: ok_in, apply (with the option-valued ops), length bound *)
Ltac step :=
  erewrite aaob_cons;
  [ | cbn [ok_in]; unfold_vec; len_norm;
      first [reflexivity | apply Nat.ltb_lt; lia | apply Nat.leb_le; lia]
    | cbn [apply]; unfold_vec;
      first [reflexivity | apply insert_at_some; len_norm; lia | apply set_at_some; len_norm; lia
            | apply remove_at_some; len_norm; lia]
    | unfold_vec; len_norm; lia ].

Lemma tail_handle_ok limit l d l' :
  ok_in d l = true -> apply d l = Some l' ->
  exists outs, tail_handle_diff d limit (length l) l' = Ok outs /\
    apply_all_ok_bound limit outs (skipn (length l - limit) l)
      = Some (skipn (length l' - limit) l').
Proof.
  intros Hok Hl'. unfold tail_handle_diff.
  destruct (Nat.eqb_spec limit 0) as [->|Hl0].
  { eexists; split; [reflexivity|]. cbn [apply_all_ok_bound app]. rewrite !Nat.sub_0_r, !skipn_all. reflexivity. }
  destruct d; cbn [apply ok_in] in *; unfold_vec.
  - (* Append *)
    injection Hl' as <-. eexists; split; [reflexivity|].
    rewrite tfe_impl_eq. rewrite aaob_pop_fronts by (len_norm; lia).
    step. cbn [apply_all_ok_bound app]. f_equal. len_norm. list_ext.
  - (* Clear *)
    injection Hl' as <-. eexists; split; [reflexivity|]. step. cbn [apply_all_ok_bound app]. rewrite skipn_nil. reflexivity.
  - (* PushFront *)
    injection Hl' as <-.
    destruct (Nat.leb_spec limit (length l)); (eexists; split; [reflexivity|]).
    + cbn [apply_all_ok_bound app]. f_equal. list_ext.
    + step. cbn [apply_all_ok_bound app]. f_equal. unfold_vec. list_ext.
  - (* PushBack *)
    injection Hl' as <-. eexists; split; [reflexivity|].
    destruct (Nat.leb_spec limit (length l)); cbn [app].
    + step. step. cbn [apply_all_ok_bound app]. f_equal. unfold_vec. list_ext.
    + step. cbn [apply_all_ok_bound app]. f_equal. unfold_vec. list_ext.
  - (* PopFront *)
    injection Hl' as <-. apply Nat.ltb_lt in Hok.
    destruct (Nat.ltb_spec limit (length l)); (eexists; split; [reflexivity|]).
    + cbn [apply_all_ok_bound app]. f_equal. list_ext.
    + step. cbn [apply_all_ok_bound app]. f_equal. unfold_vec. list_ext.
  - (* PopBack *)
    injection Hl' as <-. apply Nat.ltb_lt in Hok.
    destruct (Nat.ltb_spec limit (length l)).
    + destruct (nth_error_in_range_some (removelast l) (length l - limit - 1)) as [y Hy];
        [len_norm; lia|]. rewrite Hy.
      eexists; split; [reflexivity|].
      step. step. cbn [apply_all_ok_bound app]. f_equal. unfold_vec. len_norm.
      apply nth_error_ext; intro k. revert Hy. nth_norm. split_ifs; intro Hy; nth_arith.
      all: try (rewrite <- Hy; f_equal; lia).
    + eexists; split; [reflexivity|].
      step. cbn [apply_all_ok_bound app]. f_equal. unfold_vec. len_norm. list_ext.
  - (* Insert *)
    pose proof Hok as Hok'. apply Nat.leb_le in Hok'. rewrite insert_at_some in Hl' by lia.
    injection Hl' as <-. unfold csub.
    destruct (Nat.ltb_spec (length l) limit) as [Hlt|Hge]; cbn [orb].
    + replace (length l - limit) with 0 by lia. cbn [Nat.leb]. rewrite Nat.sub_0_r.
      destruct (Nat.leb_spec limit (length l)); [lia|].
      eexists; split; [reflexivity|].
      rewrite skipn_O. step. cbn [apply_all_ok_bound app]. f_equal. len_norm. list_ext.
    + destruct (Nat.ltb_spec (length l - limit) i) as [Hi|Hi].
      * destruct (Nat.leb_spec (length l - limit) i); [|lia].
        destruct (Nat.leb_spec limit (length l)); [|lia].
        destruct (Nat.leb_spec 1 (i - (length l - limit))); [|lia].
        eexists; split; [reflexivity|]. cbn [app].
        step. step. cbn [apply_all_ok_bound app]. f_equal. unfold_vec. len_norm. list_ext.
      * eexists; split; [reflexivity|].
        cbn [apply_all_ok_bound app]. f_equal. len_norm. list_ext.
  - (* SetAt *)
    pose proof Hok as Hok'. apply Nat.ltb_lt in Hok'. rewrite set_at_some in Hl' by lia.
    injection Hl' as <-.
    destruct (Nat.leb_spec (length l - limit) i); (eexists; split; [reflexivity|]).
    + step. cbn [apply_all_ok_bound app]. f_equal. len_norm. list_ext.
    + cbn [apply_all_ok_bound app]. f_equal. len_norm. list_ext.
  - (* Remove *)
    pose proof Hok as Hok'. apply Nat.ltb_lt in Hok'. rewrite remove_at_some in Hl' by lia.
    injection Hl' as <-.
    destruct (Nat.leb_spec (length l - limit) i).
    + destruct (Nat.eqb_spec (i - (length l - limit)) i) as [He|He]; cbn [negb].
      * eexists; split; [reflexivity|].
        step. cbn [apply_all_ok_bound app]. f_equal. len_norm. list_ext.
      * destruct (nth_error_in_range_some (firstn i l ++ skipn (S i) l) (length l - limit - 1))
          as [y Hy]; [len_norm; lia|]. rewrite Hy.
        eexists; split; [reflexivity|].
        step. step. cbn [apply_all_ok_bound app]. f_equal. unfold_vec. len_norm.
        apply nth_error_ext; intro k. revert Hy. nth_norm. split_ifs; intro Hy; nth_arith.
        all: try (rewrite <- Hy; f_equal; lia).
    + eexists; split; [reflexivity|].
      cbn [apply_all_ok_bound app]. f_equal. len_norm. list_ext.
  - (* Truncate *)
    injection Hl' as <-. apply Nat.ltb_lt in Hok. unfold csub.
    destruct (Nat.leb_spec n (length l)); [|lia].
    eexists; split; [reflexivity|].
    set (k := Nat.min limit (length l - n)).
    set (xs := firstn k (skipn (limit - k) (rev (firstn n l)))).
    rewrite aaob_pop_backs by (len_norm; lia).
    rewrite <- (app_nil_r (map PushFront xs)).
    rewrite aaob_push_fronts by (subst xs; len_norm; lia).
    cbn [apply_all_ok_bound]. f_equal. subst xs k. len_norm.
    apply nth_error_ext; intro j. nth_norm. split_ifs; nth_arith.
  - (* Reset *)
    injection Hl' as <-. eexists; split; [reflexivity|].
    rewrite tfe_impl_eq. step. reflexivity.
Qed.

(* one source diff; every intermediate view of the consumer has at most [limit] items (C15) *)
Theorem tail_step_bound st l v d :
  tail_R st l v -> ok_in d l = true ->
  exists st' outs l',
    tail_on_diff st d = Ok (st', outs) /\ apply d l = Some l' /\
    apply_all_ok_bound (t_limit st) outs v = Some (skipn (length l' - t_limit st) l') /\
    tail_R st' l' (skipn (length l' - t_limit st) l') /\ t_limit st' = t_limit st.
Proof.
  intros [Hb Hv] Hok. destruct st as [buf limit]. cbn [t_buf t_limit] in *. subst buf v.
  destruct (ok_in_apply_some d l Hok) as [l' Hl'].
  destruct (tail_handle_ok limit l d l' Hok Hl') as (outs & Hh & Hrun).
  unfold tail_on_diff. cbn [t_buf t_limit]. rewrite Hl', Hh.
  eexists _, _, _. repeat split; eauto.
Qed.

Lemma ao_pop_fronts k v :
  k <= length v -> apply_all_ok (repeat PopFront k) v = Some (skipn k v).
Proof.
  intro Hk. apply (apply_all_ok_bound_ok (length v)).
  rewrite <- (app_nil_r (repeat PopFront k)). rewrite aaob_pop_fronts by lia. reflexivity.
Qed.

Lemma ao_push_fronts xs v : apply_all_ok (map PushFront xs) v = Some (rev xs ++ v).
Proof.
  apply (apply_all_ok_bound_ok (length xs + length v)).
  rewrite <- (app_nil_r (map PushFront xs)). rewrite aaob_push_fronts by lia. reflexivity.
Qed.

(* a limit change, outside the known-finding class tail_shrink_over_len *)
Theorem tail_param_ok st l v n :
  tail_R st l v -> tail_shrink_over_len (t_limit st) n (length l) = false ->
  exists st' v',
    fst (tail_update_limit st n) = st' /\
    apply_all_ok (match snd (tail_update_limit st n) with Some ds => ds | None => [] end) v = Some v' /\
    tail_R st' l v' /\ t_limit st' = n.
Proof.
  intros [Hb Hv] Hs. destruct st as [buf old]. cbn [t_buf t_limit] in *. subst buf v.
  unfold tail_update_limit, tail_R. cbn [t_buf t_limit].
  destruct l as [|a l0] eqn:El.
  { cbn [fst snd t_buf t_limit]. eexists _, _. split; [reflexivity|]. split; [reflexivity|].
    rewrite !skipn_nil. repeat split; cbn [t_buf t_limit]. }
  rewrite <- El in *. assert (Hlen : 0 < length l) by (rewrite El; cbn [length]; lia). clear El a l0.
  destruct (Nat.compare_spec old n) as [->|Hlt|Hgt].
  - cbn [fst snd t_buf t_limit]. eexists _, _. repeat split; cbn [t_buf t_limit].
  - set (missing := firstn (n - old) (skipn old (rev l))).
    assert (Hml : length missing = Nat.min (n - old) (length l - old)) by (subst missing; len_norm; reflexivity).
    destruct missing as [|m ms] eqn:Em.
    + cbn [fst snd t_buf t_limit apply_all_ok]. eexists _, _. split; [reflexivity|]. split; [reflexivity|].
      cbn [length] in Hml. repeat split; cbn [t_buf t_limit]. f_equal. lia.
    + rewrite <- Em in *. clear Em m ms.
      destruct (Nat.eqb_spec old 0) as [->|H0]; cbn [fst snd t_buf t_limit].
      * eexists _, _. split; [reflexivity|]. split; [cbn [apply_all_ok ok_in apply obind]; reflexivity|].
        repeat split; cbn [t_buf t_limit]. subst missing. list_ext.
      * eexists _, _. split; [reflexivity|]. split; [apply ao_push_fronts|].
        repeat split; cbn [t_buf t_limit]. subst missing. list_ext.
  - destruct (Nat.leb_spec (length l) n).
    + cbn [fst snd t_buf t_limit apply_all_ok]. eexists _, _. repeat split; cbn [t_buf t_limit]. f_equal. lia.
    + destruct (Nat.eqb_spec n 0) as [->|Hn0]; cbn [fst snd t_buf t_limit].
      * eexists _, _. split; [reflexivity|]. split; [cbn [apply_all_ok ok_in apply obind]; reflexivity|].
        repeat split; cbn [t_buf t_limit]. rewrite Nat.sub_0_r, skipn_all. reflexivity.
      * unfold tail_shrink_over_len in Hs.
        destruct (Nat.ltb_spec 0 n); [|lia]. destruct (Nat.ltb_spec n (length l)); [|lia].
        destruct (Nat.ltb_spec (length l) old); [discriminate|].
        eexists _, _. split; [reflexivity|]. split; [apply ao_pop_fronts; len_norm; lia|].
        repeat split; cbn [t_buf t_limit]. list_ext.
Qed.

(* update_limit never returns Some [] (which the poll loop would turn into end-of-stream) *)
Lemma tail_update_limit_nonempty st n : snd (tail_update_limit st n) <> Some [].
Proof.
  unfold tail_update_limit. destruct (t_buf st) as [|a l0] eqn:El; cbn [snd]; [discriminate|].
  rewrite <- El. clear El.
  destruct (Nat.compare_spec (t_limit st) n) as [E|Hlt|Hgt]; cbn [snd]; try discriminate.
  - destruct (firstn (n - t_limit st) (skipn (t_limit st) (rev (t_buf st)))) as [|m ms]; [discriminate|].
    destruct (t_limit st =? 0); cbn [map]; discriminate.
  - destruct (length (t_buf st) <=? n); cbn [snd]; [discriminate|].
    destruct (n =? 0); cbn [snd]; [discriminate|].
    destruct (t_limit st - n) as [|k] eqn:Ek; [lia|]. cbn [repeat]. discriminate.
Qed.

End TailFacts.

(* the class is a genuine failure: witness [1;2;3], limit 10 -> 2 *)
Lemma tail_param_refuted :
  exists (st : tail_st nat) l v n,
    tail_R st l v /\ tail_shrink_over_len (t_limit st) n (length l) = true /\
    apply_all_ok (match snd (tail_update_limit st n) with Some ds => ds | None => [] end) v
      <> Some (skipn (length l - n) l).
Proof.
  exists {| t_buf := [1;2;3]; t_limit := 10 |}, [1;2;3], [1;2;3], 2.
  split; [split; reflexivity|]. split; [reflexivity|]. vm_compute. discriminate.
Qed.
