(* OVecRun.v — whole histories of an ObservableVector and its subscribers, with the ghost state
   the properties C05-C08 speak of: for every subscriber the replica a consumer builds from the
   subscription snapshot and everything delivered, the list of everything delivered, and where in
   the log it subscribed. *)
From EB Require Export OVec.

Section Run.
Context {A : Type}.

Inductive op :=
| OMut (m : mutator A)                 (* direct mutating call *)
| OEach (decs : list (decision A))     (* entries()/for_each traversal *)
| OSub (batched : bool)                (* subscribe + into_stream / into_batched_stream *)
| OPoll (k : nat)
| ODropSub (k : nat)
| OTxnBegin
| OTMut (m : mutator A)                (* mutating call on the transaction *)
| OTEach (decs : list (decision A))
| OTRollback
| OTCommit
| OTDrop
| ODropVec.

(* ghost record per subscriber *)
Record ghost := {
  gh_replica : list A;              (* snapshot + every delivered diff applied *)
  gh_delivered : list (diff A);     (* every diff delivered so far, in order *)
  gh_start : nat;                   (* length of the log when it subscribed *)
  gh_lagged : bool;                 (* has it ever been resynchronised by a lag Reset *)
}.

Record gst := {
  g_o : ovec A;
  g_gh : list ghost;                (* indexed like subs *)
  g_app_ok : bool;                  (* every delivered diff was applicable (ok_in) to the replica *)
}.

Definition ginit (capacity : nat) : gst :=
  {| g_o := ovec_new capacity; g_gh := []; g_app_ok := true |}.

Definition item_diffs (it : item A) : list (diff A) :=
  match it with IDiff d => [d] | IBatch ds => ds end.

Definition deliver (gh : ghost) (ds : list (diff A)) (lag : bool) : ghost * bool :=
  match apply_all_ok ds (gh_replica gh) with
  | Some r => ({| gh_replica := r; gh_delivered := gh_delivered gh ++ ds; gh_start := gh_start gh;
                  gh_lagged := gh_lagged gh || lag |}, true)
  | None => ({| gh_replica := gh_replica gh; gh_delivered := gh_delivered gh ++ ds;
                gh_start := gh_start gh; gh_lagged := gh_lagged gh || lag |}, false)
  end.

(* was this poll answered from the lag path?  (the receiver was more than cap2 behind) *)
Definition was_lagged (o : ovec A) (k : nat) : bool :=
  match nth_error (subs o) k with
  | Some (Some s) =>
      match sb_state s with
      | SYield _ => false
      | SRecv => cap2 o <? length (log o) - sb_next s
      end
  | _ => false
  end.

(* what one operation returns to the caller *)
Inductive output :=
| VRet (r : ret A)                          (* a mutator's return value *)
| VVisited (v : list (nat * A))             (* what a traversal handed to the closure *)
| VSub (k : nat) (snapshot : list A)
| VPoll (r : poll (option (item A)))
| VNone.

Definition gstep (g : gst) (x : op) : outcome (gst * output) :=
  let o := g_o g in
  let keep o' out := Ok ({| g_o := o'; g_gh := g_gh g; g_app_ok := g_app_ok g |}, out) in
  match x with
  | OMut m =>
      if negb (alive o) || match cur_txn o with Some _ => true | None => false end then Panic else
      match ovec_mutate o m with Panic => Panic | Ok (o', r, _) => keep o' (VRet r) end
  | OEach decs =>
      if negb (alive o) || match cur_txn o with Some _ => true | None => false end then Panic else
      match for_each o false decs with Panic => Panic | Ok (o', vis, _) => keep o' (VVisited vis) end
  | OSub b =>
      if negb (alive o) || match cur_txn o with Some _ => true | None => false end then Panic else
      let '(o', k, snap) := subscribe o b in
      Ok ({| g_o := o';
             g_gh := g_gh g ++ [{| gh_replica := snap; gh_delivered := []; gh_start := length (log o);
                                   gh_lagged := false |}];
             g_app_ok := g_app_ok g |}, VSub k snap)
  | OPoll k =>
      let lag := was_lagged o k in
      match poll_sub o k with
      | Panic => Panic
      | Ok (o', r) =>
          match r with
          | Ready (Some it) =>
              match nth_error (g_gh g) k with
              | None => Panic
              | Some gh =>
                  let '(gh', ok) := deliver gh (item_diffs it) lag in
                  Ok ({| g_o := o'; g_gh := set_nth k gh' (g_gh g); g_app_ok := g_app_ok g && ok |},
                      VPoll r)
              end
          | _ => keep o' (VPoll r)
          end
      end
  | ODropSub k => keep (drop_sub o k) VNone
  | OTxnBegin =>
      if negb (alive o) || match cur_txn o with Some _ => true | None => false end then Panic
      else keep (txn_begin o) VNone
  | OTMut m =>
      match txn_mutate o m with Panic => Panic | Ok (o', r) => keep o' (VRet r) end
  | OTEach decs =>
      match cur_txn o with
      | None => Panic
      | Some _ => match for_each o true decs with Panic => Panic | Ok (o', vis, _) => keep o' (VVisited vis) end
      end
  | OTRollback => match cur_txn o with None => Panic | Some _ => keep (txn_rollback o) VNone end
  | OTCommit => match cur_txn o with None => Panic | Some _ => keep (fst (txn_commit o)) VNone end
  | OTDrop => match cur_txn o with None => Panic | Some _ => keep (txn_drop o) VNone end
  | ODropVec =>
      if negb (alive o) || match cur_txn o with Some _ => true | None => false end then Panic
      else keep (fst (drop_vec o)) VNone
  end.

(* A history.  An operation that panics (out-of-range index, op not allowed in this state) has no
   effect and the history goes on - that is what catch_unwind gives the caller. *)
Fixpoint grun (g : gst) (xs : list op) : gst :=
  match xs with
  | [] => g
  | x :: rest => match gstep g x with Ok (g', _) => grun g' rest | Panic => grun g rest end
  end.

(* ---------------- the invariant (DESIGN appendix A.3) ---------------- *)

Definition sub_pending (o : ovec A) (s : sub A) : list (diff A) :=
  (match sb_state s with SYield rest => rest | SRecv => [] end)
    ++ concat (map (@m_diffs A) (skipn (sb_next s) (log o))).

Definition is_reset (d : diff A) : bool := match d with Reset _ => true | _ => false end.

Definition msg_wf (m : msg A) : Prop :=
  m_diffs m <> [] /\ (m_many m = false -> length (m_diffs m) = 1) /\
  forallb (fun d => negb (is_reset d)) (m_diffs m) = true.

Definition sub_inv (o : ovec A) (s : sub A) (gh : ghost) : Prop :=
  sb_next s <= length (log o) /\
  gh_start gh <= sb_next s /\
  (* within the window: what is still to come takes the replica to the current contents *)
  (length (log o) - sb_next s <= cap2 o ->
     apply_all_ok (sub_pending o s) (gh_replica gh) = Some (values o)) /\
  (* what a lag Reset will carry *)
  (sb_next s < length (log o) -> exists m, back (log o) = Some m /\ m_state m = values o) /\
  (match sb_state s with SYield rest => rest <> [] /\ sb_batched s = false | SRecv => True end) /\
  (* never lagged: delivered ++ pending = everything published since the subscription *)
  (gh_lagged gh = false ->
     gh_delivered gh ++ sub_pending o s = concat (map (@m_diffs A) (skipn (gh_start gh) (log o)))).

Definition txn_inv (o : ovec A) : Prop :=
  match cur_txn o with
  | None => True
  | Some t =>
      alive o = true /\
      (0 < rx_cnt o -> apply_all_ok (tx_batch t) (values o) = Some (tx_values t)) /\
      forallb (fun d => negb (is_reset d)) (tx_batch t) = true
  end.

Definition ginv (g : gst) : Prop :=
  let o := g_o g in
  g_app_ok g = true /\
  length (g_gh g) = length (subs o) /\
  1 <= cap2 o /\
  Forall msg_wf (log o) /\
  txn_inv o /\
  (forall k s gh, nth_error (subs o) k = Some (Some s) -> nth_error (g_gh g) k = Some gh ->
                  sub_inv o s gh).

End Run.
Arguments op : clear implicits.
Arguments gst : clear implicits.
Arguments ghost : clear implicits.
Arguments output : clear implicits.
