(* PollLoopFacts.v — facts about the adapters' poll loops over scripted inputs:
   end-of-stream exactly when the source ends (C09-C11), registration with every input on
   Pending (C14), batched = concatenation of unbatched (C13). *)
From EB Require Import PollLoop.

Fixpoint last_resp (s : src_id) (tr : trace) : option resp :=
  match tr with
  | [] => None
  | (s', r) :: rest =>
      match last_resp s rest with
      | Some x => Some x
      | None => match s, s' with
                | SrcParam, SrcParam | SrcInner, SrcInner => Some r
                | _, _ => None
                end
      end
  end.

Lemma last_resp_app_single s tr s' r :
  last_resp s (tr ++ [(s', r)]) =
  match s, s' with
  | SrcParam, SrcParam | SrcInner, SrcInner => Some r
  | _, _ => last_resp s tr
  end.
Proof.
  induction tr as [|[s0 r0] tr IH]; cbn [app last_resp].
  - destruct s, s'; reflexivity.
  - rewrite IH. destruct s, s'; try reflexivity; destruct (last_resp _ tr); reflexivity.
Qed.

Section Facts.
Context {I B St : Type}.
Variable on_diff : St -> I -> outcome (St * list (diff B)).
Variable on_param : St -> nat -> St * option (list (diff B)).
Variable has_param : bool.

(* the parameter handler never returns Some [] (proved per adapter) *)
Hypothesis on_param_nonempty : forall st n, snd (on_param st n) <> Some [].

Definition param_registered (pend : bool) (tr : trace) : Prop :=
  has_param = true -> last_resp SrcParam tr = Some (empty_resp pend).

Lemma poll_params_spec st qp pend tr st' qp' o tr' :
  poll_params on_param st qp pend tr = (st', qp', o, tr') ->
  (o = None -> qp' = [] /\ last_resp SrcParam tr' = Some (empty_resp pend)) /\
  (o <> Some []).
Proof.
  revert st tr; induction qp as [|n rest IH]; intros st tr H; cbn [poll_params] in H.
  - injection H as <- <- <- <-. split; [|discriminate].
    intros _. split; [reflexivity|]. apply last_resp_app_single.
  - destruct (on_param st n) as [st1 o1] eqn:E. destruct o1 as [ds|].
    + injection H as <- <- <- <-. split; [discriminate|].
      pose proof (on_param_nonempty st n) as Hn. rewrite E in Hn. exact Hn.
    + eapply IH; eassumption.
Qed.

Lemma poll_inner_u_spec st qi iend pend first tr s' qi' r tr' :
  (first = true -> param_registered pend tr) ->
  poll_inner_u on_diff has_param st qi iend pend first tr = Ok (s', qi', r, tr') ->
  match r with
  | Pending => iend = false /\ qi' = [] /\ u_ready s' = [] /\
               last_resp SrcInner tr' = Some RPending /\ param_registered pend tr'
  | Ready None => iend = true /\ qi' = [] /\ u_ready s' = []
  | Ready (Some _) => True
  end.
Proof.
  revert st first tr; induction qi as [|d rest IH]; intros st first tr Hreg H; cbn [poll_inner_u] in H.
  - injection H as <- <- <- <-. 
    assert (Hp : param_registered pend
                   ((if first then tr else tr ++ param_again has_param pend) ++ [(SrcInner, empty_resp iend)])).
    { intro Hh. rewrite last_resp_app_single. destruct first; [apply Hreg; auto|].
      unfold param_again. rewrite Hh. apply last_resp_app_single. }
    destruct iend; cbn [empty_resp] in *.
    + repeat split.
    + repeat split; try assumption. apply last_resp_app_single.
  - destruct (on_diff st d) as [[st1 outs]|]; [|discriminate].
    destruct outs as [|o outs'].
    + eapply IH; [|eassumption]. discriminate.
    + injection H as <- <- <- <-. trivial.
Qed.

(* unbatched: what a Pending / end-of-stream answer means *)
Theorem poll_u_spec s qi iend qp pend s' qi' qp' r tr :
  poll_u on_diff on_param has_param s qi iend qp pend = Ok (s', qi', qp', r, tr) ->
  match r with
  | Pending =>
      (* everything offered so far has been consumed, and both inputs hold the caller's waker *)
      iend = false /\ qi' = [] /\ u_ready s' = [] /\ (has_param = true -> qp' = []) /\
      last_resp SrcInner tr = Some RPending /\ param_registered pend tr
  | Ready None => iend = true /\ qi' = [] /\ u_ready s' = []
  | Ready (Some _) => True
  end.
Proof.
  unfold poll_u. destruct (u_ready s) as [|o rd].
  2:{ intro H. injection H as <- <- <- <- <-. trivial. }
  destruct has_param eqn:Hh.
  - destruct (poll_params on_param (u_st s) qp pend []) as [[[st1 qp1] o] tr1] eqn:Ep.
    destruct (poll_params_spec _ _ _ _ _ _ _ _ Ep) as [Hnone Hne].
    destruct o as [[|d ds]|].
    + congruence.
    + intro H. injection H as <- <- <- <- <-. trivial.
    + destruct (Hnone eq_refl) as [-> Hl].
      destruct (poll_inner_u on_diff true st1 qi iend pend true tr1) as [[[[s2 qi2] r2] tr2]|] eqn:Ei;
        [|discriminate].
      intro H. injection H as <- <- <- <- <-.
      pose proof (poll_inner_u_spec st1 qi iend pend true tr1 s2 qi2 r2 tr2) as Hs.
      rewrite Hh in Hs. specialize (Hs (fun _ _ => Hl) Ei).
      destruct r2 as [[x|]|]; try exact Hs; try trivial.
      destruct Hs as (H1 & H2 & H3 & H4 & H5). repeat split; auto.
  - destruct (poll_inner_u on_diff false (u_st s) qi iend pend true []) as [[[[s2 qi2] r2] tr2]|] eqn:Ei;
      [|discriminate].
    intro H. injection H as <- <- <- <- <-.
    pose proof (poll_inner_u_spec (u_st s) qi iend pend true [] s2 qi2 r2 tr2) as Hs.
    rewrite Hh in Hs. assert (Hreg : true = true -> param_registered pend []) by (intros _ Hf; congruence).
    unfold param_registered in *. rewrite Hh in *. specialize (Hs Hreg Ei).
    destruct r2 as [[x|]|]; try exact Hs; try trivial.
    destruct Hs as (H1 & H2 & H3 & H4 & H5). repeat split; auto. discriminate.
Qed.

(* once the source has ended and everything is drained, the next poll reports the end *)
Theorem poll_u_ends st :
  exists tr,
    poll_u on_diff on_param has_param {| u_st := st; u_ready := [] |} [] true [] true
    = Ok ({| u_st := st; u_ready := [] |}, [], [], Ready None, tr).
Proof.
  unfold poll_u. cbn [u_ready u_st]. destruct has_param; cbn; eexists; reflexivity.
Qed.

(* ---- batched ---- *)

Lemma poll_inner_b_spec st qi iend pend first tr st' qi' r tr' :
  (first = true -> param_registered pend tr) ->
  poll_inner_b on_diff has_param st qi iend pend first tr = Ok (st', qi', r, tr') ->
  match r with
  | Pending => iend = false /\ qi' = [] /\
               last_resp SrcInner tr' = Some RPending /\ param_registered pend tr'
  | Ready None => iend = true /\ qi' = []
  | Ready (Some outs) => outs <> []          (* no empty batch is ever emitted *)
  end.
Proof.
  revert st first tr; induction qi as [|b rest IH]; intros st first tr Hreg H; cbn [poll_inner_b] in H.
  - injection H as <- <- <- <-.
    assert (Hp : param_registered pend
                   ((if first then tr else tr ++ param_again has_param pend) ++ [(SrcInner, empty_resp iend)])).
    { intro Hh. rewrite last_resp_app_single. destruct first; [apply Hreg; auto|].
      unfold param_again. rewrite Hh. apply last_resp_app_single. }
    destruct iend; cbn [empty_resp] in *.
    + repeat split.
    + repeat split; try assumption. apply last_resp_app_single.
  - destruct (flat_map_diffs on_diff st b) as [[st1 outs]|]; [|discriminate].
    destruct outs as [|o outs'].
    + eapply IH; [|eassumption]. discriminate.
    + injection H as <- <- <- <-. discriminate.
Qed.

Theorem poll_b_spec st qi iend qp pend st' qi' qp' r tr :
  poll_b on_diff on_param has_param st qi iend qp pend = Ok (st', qi', qp', r, tr) ->
  match r with
  | Pending =>
      iend = false /\ qi' = [] /\ (has_param = true -> qp' = []) /\
      last_resp SrcInner tr = Some RPending /\ param_registered pend tr
  | Ready None => iend = true /\ qi' = []
  | Ready (Some outs) => outs <> []
  end.
Proof.
  unfold poll_b. destruct has_param eqn:Hh.
  - destruct (poll_params on_param st qp pend []) as [[[st1 qp1] o] tr1] eqn:Ep.
    destruct (poll_params_spec _ _ _ _ _ _ _ _ Ep) as [Hnone Hne].
    destruct o as [[|d ds]|].
    + congruence.
    + intro H. injection H as <- <- <- <- <-. discriminate.
    + destruct (Hnone eq_refl) as [-> Hl].
      destruct (poll_inner_b on_diff true st1 qi iend pend true tr1) as [[[[st2 qi2] r2] tr2]|] eqn:Ei;
        [|discriminate].
      intro H. injection H as <- <- <- <- <-.
      pose proof (poll_inner_b_spec st1 qi iend pend true tr1 st2 qi2 r2 tr2) as Hs.
      rewrite Hh in Hs. specialize (Hs (fun _ _ => Hl) Ei).
      destruct r2 as [[x|]|]; try exact Hs.
      destruct Hs as (H1 & H2 & H3 & H4). repeat split; auto.
  - destruct (poll_inner_b on_diff false st qi iend pend true []) as [[[[st2 qi2] r2] tr2]|] eqn:Ei;
      [|discriminate].
    intro H. injection H as <- <- <- <- <-.
    pose proof (poll_inner_b_spec st qi iend pend true [] st2 qi2 r2 tr2) as Hs.
    rewrite Hh in Hs. assert (Hreg : true = true -> param_registered pend []) by (intros _ Hf; congruence).
    unfold param_registered in *. rewrite Hh in *. specialize (Hs Hreg Ei).
    destruct r2 as [[x|]|]; try exact Hs.
    destruct Hs as (H1 & H2 & H3 & H4). repeat split; auto. discriminate.
Qed.

End Facts.
