(* FilterFacts.v — correctness of the Filter / FilterMap adapter model (C10). *)
From EB Require Import Filter AdapterCore ListTac DiffFacts.

Section FilterFacts.
Context {A B : Type}.
Variable f : A -> option B.

(* specification-level functions, written independently of the adapter code *)
Fixpoint fmap_opt (l : list A) : list B :=
  match l with
  | [] => []
  | x :: l' => match f x with Some y => y :: fmap_opt l' | None => fmap_opt l' end
  end.

(* ascending source indices of the items that pass the filter, starting to count at [k] *)
Fixpoint kept_from (k : nat) (l : list A) : list nat :=
  match l with
  | [] => []
  | x :: l' => match f x with Some _ => k :: kept_from (S k) l' | None => kept_from (S k) l' end
  end.

Definition filter_R (st : filter_st) (l : list A) (v : list B) : Prop :=
  f_idx st = kept_from 0 l /\ f_len st = length l /\ v = fmap_opt l.

(* ---------- generic list facts ---------- *)

Lemma firstn_app_len {T} (a b : list T) : firstn (length a) (a ++ b) = a.
Proof. rewrite firstn_app, firstn_all, Nat.sub_diag, firstn_O, app_nil_r. reflexivity. Qed.

Lemma skipn_app_len {T} (a b : list T) : skipn (length a) (a ++ b) = b.
Proof. rewrite skipn_app, skipn_all, Nat.sub_diag, skipn_O. reflexivity. Qed.

Lemma skipn_app_Slen {T} (a : list T) y b : skipn (S (length a)) (a ++ y :: b) = b.
Proof.
  rewrite skipn_app, skipn_all2 by lia.
  replace (S (length a) - length a) with 1 by lia.
  rewrite skipn_cons, skipn_O. reflexivity.
Qed.

Lemma split_at {T} i (l : list T) :
  i <= length l -> exists l1 l2, l = l1 ++ l2 /\ length l1 = i.
Proof.
  intro H. exists (firstn i l), (skipn i l). split.
  - symmetry. apply firstn_skipn.
  - rewrite firstn_length. lia.
Qed.

Lemma split_at_lt {T} i (l : list T) :
  i < length l -> exists l1 y l2, l = l1 ++ y :: l2 /\ length l1 = i.
Proof.
  intro H. destruct (split_at i l) as (l1 & l2 & -> & <-); [lia|].
  destruct l2 as [|y l2].
  - rewrite app_length in H. cbn [length] in H. lia.
  - exists l1, y, l2. split; reflexivity.
Qed.

Lemma aao_one {T} (d : diff T) v v' :
  ok_in d v = true -> apply d v = Some v' -> apply_all_ok [d] v = Some v'.
Proof. intros H1 H2. rewrite (aao_cons _ _ _ _ H1 H2). reflexivity. Qed.

Lemma pp_app x a b :
  Forall (fun j => j < x) a -> Forall (fun j => x <= j) b ->
  partition_point_lt x (a ++ b) = length a.
Proof.
  induction a as [|j a IH]; intros Ha Hb; cbn [app partition_point_lt length].
  - destruct b as [|j b]; cbn [partition_point_lt]; [reflexivity|].
    apply Forall_inv in Hb. cbn beta in Hb. destruct (Nat.ltb_spec j x); [lia|reflexivity].
  - pose proof (Forall_inv Ha) as Hj. cbn beta in Hj. apply Forall_inv_tail in Ha.
    destruct (Nat.ltb_spec j x); [|lia]. rewrite IH by assumption. reflexivity.
Qed.

Lemma existsb_zero_false l :
  Forall (fun j => 1 <= j) l -> existsb (fun i => i =? 0) l = false.
Proof.
  induction l as [|j l IH]; intro H; cbn [existsb]; [reflexivity|].
  pose proof (Forall_inv H) as Hj. cbn beta in Hj. apply Forall_inv_tail in H.
  rewrite IH by assumption. destruct (Nat.eqb_spec j 0); [lia|reflexivity].
Qed.

(* ---------- facts about the specification functions ---------- *)

Lemma append_scan_spec k vs : append_scan f k vs = (fmap_opt vs, kept_from k vs).
Proof.
  revert k; induction vs as [|x vs IH]; intro k; cbn [append_scan fmap_opt kept_from]; [reflexivity|].
  rewrite IH. destruct (f x); reflexivity.
Qed.

Lemma kept_app k l1 l2 :
  kept_from k (l1 ++ l2) = kept_from k l1 ++ kept_from (k + length l1) l2.
Proof.
  revert k; induction l1 as [|x l1 IH]; intro k; cbn [app kept_from length].
  - rewrite Nat.add_0_r. reflexivity.
  - rewrite IH. replace (S k + length l1) with (k + S (length l1)) by lia.
    destruct (f x); reflexivity.
Qed.

Lemma kept_app0 l1 l2 :
  kept_from 0 (l1 ++ l2) = kept_from 0 l1 ++ kept_from (length l1) l2.
Proof. apply kept_app. Qed.

Lemma fmap_app l1 l2 : fmap_opt (l1 ++ l2) = fmap_opt l1 ++ fmap_opt l2.
Proof.
  induction l1 as [|x l1 IH]; cbn [app fmap_opt]; [reflexivity|].
  rewrite IH. destruct (f x); reflexivity.
Qed.

Lemma kept_length k l : length (kept_from k l) = length (fmap_opt l).
Proof.
  revert k; induction l as [|x l IH]; intro k; cbn [kept_from fmap_opt]; [reflexivity|].
  destruct (f x); cbn [length]; rewrite IH; reflexivity.
Qed.

Lemma kept_S k l : map S (kept_from k l) = kept_from (S k) l.
Proof.
  revert k; induction l as [|x l IH]; intro k; cbn [kept_from map]; [reflexivity|].
  destruct (f x); cbn [map]; rewrite IH; reflexivity.
Qed.

Lemma kept_pred k l : map pred (kept_from (S k) l) = kept_from k l.
Proof. rewrite <- kept_S, map_map. cbn [pred]. apply map_id. Qed.

Lemma kept_ge k l : Forall (fun j => k <= j) (kept_from k l).
Proof.
  revert k; induction l as [|x l IH]; intro k; cbn [kept_from]; [constructor|].
  assert (H : Forall (fun j => k <= j) (kept_from (S k) l)).
  { eapply Forall_impl; [|apply IH]. cbn beta. intros; lia. }
  destruct (f x); [constructor; [lia|exact H]|exact H].
Qed.

Lemma kept_lt k l : Forall (fun j => j < k + length l) (kept_from k l).
Proof.
  revert k; induction l as [|x l IH]; intro k; cbn [kept_from length]; [constructor|].
  assert (H : Forall (fun j => j < k + S (length l)) (kept_from (S k) l)).
  { eapply Forall_impl; [|apply IH]. cbn beta. intros; lia. }
  destruct (f x); [constructor; [lia|exact H]|exact H].
Qed.

Lemma kept_nth k l n j : nth_error (kept_from k l) n = Some j -> k <= j < k + length l.
Proof.
  intro H. apply nth_error_In in H. split.
  - exact (proj1 (Forall_forall _ _) (kept_ge k l) j H).
  - exact (proj1 (Forall_forall _ _) (kept_lt k l) j H).
Qed.

Lemma pp_kept l1 l2 :
  partition_point_lt (length l1) (kept_from 0 l1 ++ kept_from (length l1) l2)
  = length (kept_from 0 l1).
Proof. apply pp_app; [apply (kept_lt 0 l1)|apply kept_ge]. Qed.

Lemma existsb_zero_kept k l : existsb (fun j => j =? 0) (kept_from (S k) l) = false.
Proof.
  apply existsb_zero_false. eapply Forall_impl; [|apply kept_ge]. cbn beta. intros; lia.
Qed.

Lemma matched_false i l2 :
  match nth_error (kept_from (S i) l2) 0 with Some j => j =? i | None => false end = false.
Proof.
  destruct (nth_error (kept_from (S i) l2) 0) as [j|] eqn:E; [|reflexivity].
  apply kept_nth in E. destruct (Nat.eqb_spec j i); [lia|reflexivity].
Qed.

Lemma R_intro a n l' :
  a = kept_from 0 l' -> n = length l' -> filter_R {| f_idx := a; f_len := n |} l' (fmap_opt l').
Proof. intros -> ->. unfold filter_R; cbn [f_idx f_len]. auto. Qed.

Ltac fnorm :=
  rewrite ?fmap_app; cbn [fmap_opt];
  repeat match goal with H : f _ = _ |- _ => rewrite H end.

Lemma filter_init_ok vs :
  fst (filter_init f vs) = fmap_opt vs /\ filter_R (snd (filter_init f vs)) vs (fmap_opt vs).
Proof.
  unfold filter_init. rewrite append_scan_spec. cbn [fst snd]. split; [reflexivity|].
  apply R_intro; reflexivity.
Qed.

Theorem filter_step st l v d :
  filter_R st l v -> ok_in d l = true ->
  exists st' outs l',
    filter_on_diff f st d = Ok (st', outs) /\ apply d l = Some l' /\
    apply_all_ok outs v = Some (fmap_opt l') /\ filter_R st' l' (fmap_opt l').
Proof.
  intros (Hi & Hn & Hv) Hok. destruct st as [idx len]. cbn [f_idx f_len] in *. subst idx len v.
  destruct d; cbn [ok_in apply] in *; unfold filter_on_diff; cbn [f_idx f_len]; unfold_vec.
  - (* Append *)
    unfold filter_append. cbn [f_idx f_len]. rewrite append_scan_spec.
    eexists _, _, _. split; [reflexivity|]. split; [reflexivity|]. split.
    + rewrite fmap_app. destruct (fmap_opt vs) as [|m ms] eqn:E.
      * cbn [option_map apply_all_ok]. rewrite app_nil_r. reflexivity.
      * reflexivity.
    + apply R_intro; [rewrite kept_app0; reflexivity|rewrite app_length; reflexivity].
  - (* Clear *)
    eexists _, _, _. split; [reflexivity|]. split; [reflexivity|]. split; [reflexivity|].
    apply R_intro; reflexivity.
  - (* PushFront *)
    rewrite kept_S.
    destruct (f x) as [m|] eqn:E; eexists _, _, _; (split; [reflexivity|]); (split; [reflexivity|]); split.
    + cbn [apply_all_ok ok_in apply obind fmap_opt]. unfold_vec. rewrite E. reflexivity.
    + apply R_intro; [cbn [kept_from]; rewrite E; reflexivity|reflexivity].
    + cbn [apply_all_ok fmap_opt]. rewrite E. reflexivity.
    + apply R_intro; [cbn [kept_from]; rewrite E; reflexivity|reflexivity].
  - (* PushBack *)
    destruct (f x) as [m|] eqn:E; eexists _, _, _; (split; [reflexivity|]); (split; [reflexivity|]); split.
    + cbn [apply_all_ok ok_in apply obind]. unfold_vec. rewrite fmap_app. cbn [fmap_opt]. rewrite E. reflexivity.
    + apply R_intro; [rewrite kept_app0; cbn [kept_from]; rewrite E; reflexivity|rewrite app_length; cbn [length]; lia].
    + cbn [apply_all_ok]. rewrite fmap_app. cbn [fmap_opt]. rewrite E, app_nil_r. reflexivity.
    + apply R_intro; [rewrite kept_app0; cbn [kept_from]; rewrite E, app_nil_r; reflexivity|rewrite app_length; cbn [length]; lia].
  - (* PopFront *)
    destruct l as [|y l]; [discriminate|]. cbn [length tl].
    replace (csub (S (length l)) 1) with (Some (length l)) by (unfold csub; cbn; f_equal; lia).
    cbn [kept_from fmap_opt]. destruct (f y) as [b|] eqn:E.
    + cbv beta iota zeta. rewrite existsb_zero_kept, kept_pred.
      eexists _, _, _. split; [reflexivity|]. split; [reflexivity|]. split; [reflexivity|].
      apply R_intro; reflexivity.
    + pose proof (kept_ge 1 l) as Hge. pose proof (existsb_zero_kept 0 l) as Hex.
      pose proof (kept_pred 0 l) as Hpr.
      destruct (kept_from 1 l) as [|j r].
      * cbv beta iota zeta. cbn [existsb map] in *.
        eexists _, _, _. split; [reflexivity|]. split; [reflexivity|]. split; [reflexivity|].
        apply R_intro; [assumption|reflexivity].
      * destruct j as [|j]; [apply Forall_inv in Hge; cbn beta in Hge; lia|].
        cbv beta iota zeta. rewrite Hex, Hpr.
        eexists _, _, _. split; [reflexivity|]. split; [reflexivity|]. split; [reflexivity|].
        apply R_intro; reflexivity.
  - (* PopBack *)
    apply Nat.ltb_lt in Hok.
    assert (Hne : l <> []) by (intros ->; cbn in Hok; lia).
    destruct (exists_last Hne) as (l1 & y & ->). clear Hne Hok.
    replace (csub (length (l1 ++ [y])) 1) with (Some (length l1))
      by (unfold csub; rewrite app_length; cbn [length];
          destruct (Nat.leb_spec 1 (length l1 + 1)); [f_equal; lia|lia]).
    rewrite removelast_last, kept_app0, fmap_app. cbn [kept_from fmap_opt].
    destruct (f y) as [b|] eqn:E.
    + unfold back. rewrite app_length. cbn [length].
      replace (length (kept_from 0 l1) + 1 - 1) with (length (kept_from 0 l1)) by lia.
      rewrite nth_error_app2, Nat.sub_diag by lia. cbn [nth_error]. rewrite Nat.eqb_refl.
      rewrite !removelast_last.
      eexists _, _, _. split; [reflexivity|]. split; [reflexivity|]. split.
      * apply aao_one; [cbn [ok_in]; rewrite app_length; cbn [length]; apply Nat.ltb_lt; lia|].
        cbn [apply]. unfold_vec. rewrite removelast_last. reflexivity.
      * apply R_intro; reflexivity.
    + rewrite !app_nil_r. unfold back.
      assert (Hb : match nth_error (kept_from 0 l1) (length (kept_from 0 l1) - 1) with
                   | Some j => j =? length l1 | None => false end = false).
      { destruct (nth_error (kept_from 0 l1) (length (kept_from 0 l1) - 1)) as [j|] eqn:En; [|reflexivity].
        apply kept_nth in En. destruct (Nat.eqb_spec j (length l1)); [lia|reflexivity]. }
      destruct (nth_error (kept_from 0 l1) (length (kept_from 0 l1) - 1)) as [j|].
      * rewrite Hb.
        eexists _, _, _. split; [reflexivity|]. split; [reflexivity|]. split; [reflexivity|].
        apply R_intro; reflexivity.
      * eexists _, _, _. split; [reflexivity|]. split; [reflexivity|]. split; [reflexivity|].
        apply R_intro; reflexivity.
  - (* Insert *)
    apply Nat.leb_le in Hok. destruct (split_at i l Hok) as (l1 & l2 & -> & <-). clear Hok.
    rewrite insert_at_some by (rewrite app_length; lia).
    rewrite firstn_app_len, skipn_app_len, kept_app0, pp_kept. unfold map_from.
    rewrite firstn_app_len, skipn_app_len, kept_S, firstn_app_len, skipn_app_len.
    destruct (f x) as [m|] eqn:E; eexists _, _, _; (split; [reflexivity|]); (split; [reflexivity|]); split.
    + rewrite !fmap_app. cbn [fmap_opt]. rewrite E, (kept_length 0 l1).
      apply aao_one; [cbn [ok_in]; rewrite app_length; apply Nat.leb_le; lia|].
      cbn [apply]. rewrite insert_at_some by (rewrite app_length; lia).
      rewrite firstn_app_len, skipn_app_len. reflexivity.
    + apply R_intro; [rewrite kept_app0; cbn [kept_from]; rewrite E; reflexivity
                     |rewrite !app_length; cbn [length]; lia].
    + cbn [apply_all_ok]. rewrite !fmap_app. cbn [fmap_opt]. rewrite E. reflexivity.
    + apply R_intro; [rewrite kept_app0; cbn [kept_from]; rewrite E; reflexivity
                     |rewrite !app_length; cbn [length]; lia].
  - (* SetAt *)
    apply Nat.ltb_lt in Hok. destruct (split_at_lt i l Hok) as (l1 & y & l2 & -> & <-). clear Hok.
    rewrite set_at_some by (rewrite app_length; cbn [length]; lia).
    rewrite firstn_app_len, skipn_app_Slen, kept_app0, pp_kept.
    rewrite nth_error_app2, Nat.sub_diag by lia.
    rewrite !fmap_app. cbn [kept_from fmap_opt].
    destruct (f y) as [b|] eqn:Ey.
    + cbn [nth_error]. rewrite Nat.eqb_refl.
      rewrite ?firstn_app_len, ?skipn_app_len, ?skipn_app_Slen.
      destruct (f x) as [m|] eqn:Ex; eexists _, _, _; (split; [reflexivity|]); (split; [reflexivity|]); split.
      * rewrite (kept_length 0 l1).
        apply aao_one; [cbn [ok_in]; rewrite app_length; cbn [length]; apply Nat.ltb_lt; lia|].
        cbn [apply]. rewrite set_at_some by (rewrite app_length; cbn [length]; lia).
        rewrite firstn_app_len, skipn_app_Slen. fnorm. reflexivity.
      * apply R_intro; [rewrite kept_app0; cbn [kept_from]; rewrite Ex; reflexivity
                       |rewrite !app_length; cbn [length]; lia].
      * rewrite (kept_length 0 l1).
        apply aao_one; [cbn [ok_in]; rewrite app_length; cbn [length]; apply Nat.ltb_lt; lia|].
        cbn [apply]. rewrite remove_at_some by (rewrite app_length; cbn [length]; lia).
        rewrite firstn_app_len, skipn_app_Slen. fnorm. reflexivity.
      * apply R_intro; [rewrite kept_app0; cbn [kept_from]; rewrite Ex; reflexivity
                       |rewrite !app_length; cbn [length]; lia].
    + rewrite matched_false.
      rewrite ?firstn_app_len, ?skipn_app_len.
      destruct (f x) as [m|] eqn:Ex; eexists _, _, _; (split; [reflexivity|]); (split; [reflexivity|]); split.
      * rewrite (kept_length 0 l1).
        apply aao_one; [cbn [ok_in]; rewrite app_length; apply Nat.leb_le; lia|].
        cbn [apply]. rewrite insert_at_some by (rewrite app_length; lia).
        rewrite firstn_app_len, skipn_app_len. fnorm. reflexivity.
      * apply R_intro; [rewrite kept_app0; cbn [kept_from]; rewrite Ex; reflexivity
                       |rewrite !app_length; cbn [length]; lia].
      * cbn [apply_all_ok]. fnorm. reflexivity.
      * apply R_intro; [rewrite kept_app0; cbn [kept_from]; rewrite Ex; reflexivity
                       |rewrite !app_length; cbn [length]; lia].
  - (* Remove *)
    apply Nat.ltb_lt in Hok. destruct (split_at_lt i l Hok) as (l1 & y & l2 & -> & <-). clear Hok.
    rewrite remove_at_some by (rewrite app_length; cbn [length]; lia).
    replace (csub (length (l1 ++ y :: l2)) 1) with (Some (length (l1 ++ l2)))
      by (unfold csub; rewrite !app_length; cbn [length];
          destruct (Nat.leb_spec 1 (length l1 + S (length l2))); [f_equal; lia|lia]).
    rewrite firstn_app_len, skipn_app_Slen, kept_app0, pp_kept.
    rewrite nth_error_app2, Nat.sub_diag by lia.
    rewrite !fmap_app. cbn [kept_from fmap_opt]. unfold map_from.
    destruct (f y) as [b|] eqn:Ey.
    + cbn [nth_error]. rewrite Nat.eqb_refl. cbv beta iota zeta.
      rewrite ?firstn_app_len, ?skipn_app_len, ?skipn_app_Slen.
      rewrite ?firstn_app_len, ?skipn_app_len.
      rewrite existsb_zero_kept, kept_pred.
      eexists _, _, _. split; [reflexivity|]. split; [reflexivity|]. split.
      * rewrite (kept_length 0 l1).
        apply aao_one; [cbn [ok_in]; rewrite app_length; cbn [length]; apply Nat.ltb_lt; lia|].
        cbn [apply]. rewrite remove_at_some by (rewrite app_length; cbn [length]; lia).
        rewrite firstn_app_len, skipn_app_Slen. fnorm. reflexivity.
      * apply R_intro; [rewrite kept_app0; reflexivity|reflexivity].
    + rewrite matched_false. cbv beta iota zeta.
      rewrite ?firstn_app_len, ?skipn_app_len.
      rewrite existsb_zero_kept, kept_pred.
      eexists _, _, _. split; [reflexivity|]. split; [reflexivity|]. split; [cbn [apply_all_ok]; fnorm; reflexivity|].
      apply R_intro; [rewrite kept_app0; reflexivity|reflexivity].
  - (* Truncate *)
    apply Nat.ltb_lt in Hok.
    destruct (split_at n l) as (l1 & l2 & -> & <-); [lia|].
    rewrite firstn_app_len, kept_app0, pp_kept, fmap_app.
    destruct (Nat.ltb_spec (length (kept_from 0 l1)) (length (kept_from 0 l1 ++ kept_from (length l1) l2))) as [H|H];
      rewrite app_length, !kept_length in H.
    + rewrite firstn_app_len.
      eexists _, _, _. split; [reflexivity|]. split; [reflexivity|]. split.
      * rewrite (kept_length 0 l1).
        apply aao_one; [cbn [ok_in]; rewrite app_length; apply Nat.ltb_lt; lia|].
        cbn [apply]. unfold_vec. rewrite firstn_app_len. reflexivity.
      * apply R_intro; reflexivity.
    + assert (Hm : fmap_opt l2 = []) by (apply length_zero_iff_nil; lia).
      assert (Hk : kept_from (length l1) l2 = [])
        by (apply length_zero_iff_nil; rewrite kept_length; lia).
      rewrite Hm, Hk, !app_nil_r.
      eexists _, _, _. split; [reflexivity|]. split; [reflexivity|]. split; [reflexivity|].
      apply R_intro; reflexivity.
  - (* Reset *)
    unfold filter_append. cbn [f_idx f_len]. rewrite append_scan_spec.
    eexists _, _, _. split; [reflexivity|]. split; [reflexivity|]. split.
    + destruct (fmap_opt vs); reflexivity.
    + apply R_intro; reflexivity.
Qed.

(* at most one diff per input diff (the unbatched container's filter_map relies on it) *)
Lemma filter_on_diff_le1 st d st' outs :
  filter_on_diff f st d = Ok (st', outs) -> length outs <= 1.
Proof.
  unfold filter_on_diff. intro H. destruct d;
  repeat match type of H with
         | context [match ?x with _ => _ end] =>
             lazymatch x with
             | context [match _ with _ => _ end] => fail
             | _ => destruct x
             end
         end; try discriminate; injection H as <- <-; cbn [length option_map]; lia.
Qed.

End FilterFacts.
