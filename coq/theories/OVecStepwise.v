(* OVecStepwise.v — C05: replaying what is pending for a subscriber, message by message, passes
   exactly through each successive published state of the vector. *)
From EB Require Import OVec OVecRun OVecFacts OVecExtra AdapterCore ListTac.

Section Stepwise.
Context {A : Type}.

(* ---------------- the additional invariant ----------------
   [coh lg start]: from the subscription point on, consecutive messages of the log are consecutive
   states: the diffs of message i+1 take the state published with message i to the state published
   with message i+1.
   [link lg s gh]: how the replica of a subscriber is tied to the log:
     - in the Recv state, having consumed at least one message, the replica IS the state published
       with the last message consumed (also right after a lag Reset);
     - in the Recv state, nothing consumed yet, the replica is the subscription snapshot, to which the
       first message (once there is one) applies and yields that message's state;
     - while a batch is handed out, the rest of the batch takes the replica to the state published
       with the message being handed out.
   Neither mentions the retention window. *)
Definition coh (lg : list (msg A)) (start : nat) : Prop :=
  forall i m m', start <= i -> nth_error lg i = Some m -> nth_error lg (S i) = Some m' ->
    apply_all_ok (m_diffs m') (m_state m) = Some (m_state m').

Definition link (lg : list (msg A)) (s : sub A) (gh : ghost A) : Prop :=
  match sb_state s with
  | SYield rest =>
      gh_start gh < sb_next s /\
      exists m, nth_error lg (sb_next s - 1) = Some m /\
                apply_all_ok rest (gh_replica gh) = Some (m_state m)
  | SRecv =>
      (gh_start gh < sb_next s ->
         exists m, nth_error lg (sb_next s - 1) = Some m /\ gh_replica gh = m_state m) /\
      (sb_next s = gh_start gh -> forall m, nth_error lg (sb_next s) = Some m ->
         apply_all_ok (m_diffs m) (gh_replica gh) = Some (m_state m))
  end.

Definition sub_step (lg : list (msg A)) (s : sub A) (gh : ghost A) : Prop :=
  coh lg (gh_start gh) /\ link lg s gh.

Definition sinv (lg : list (msg A)) (ss : list (option (sub A))) (ghs : list (ghost A)) : Prop :=
  forall k s gh, nth_error ss k = Some (Some s) -> nth_error ghs k = Some gh -> sub_step lg s gh.

Definition step_inv (g : gst A) : Prop :=
  ginv_strong g /\ sinv (log (g_o g)) (subs (g_o g)) (g_gh g).

(* ---------------- consequences ---------------- *)

(* the next message applies to the replica (after the rest of the batch being handed out) *)
Lemma next_ok lg s gh m :
  coh lg (gh_start gh) -> link lg s gh -> gh_start gh <= sb_next s ->
  nth_error lg (sb_next s) = Some m ->
  apply_all_ok ((match sb_state s with SYield rest => rest | SRecv => [] end) ++ m_diffs m)
               (gh_replica gh) = Some (m_state m).
Proof.
  intros Hc Hl Hle Em. unfold link in Hl. destruct (sb_state s) as [|rest].
  - cbn [app]. destruct Hl as (Ha & Hb).
    destruct (Nat.eq_dec (sb_next s) (gh_start gh)) as [Heq|Hne].
    + apply Hb; assumption.
    + destruct (Ha ltac:(lia)) as (m0 & Em0 & ->).
      apply (Hc (sb_next s - 1)); [lia|assumption|].
      replace (S (sb_next s - 1)) with (sb_next s) by lia. assumption.
  - destruct Hl as (Hlt & m0 & Em0 & Er). rewrite apply_all_ok_app, Er. cbn [obind].
    apply (Hc (sb_next s - 1)); [lia|assumption|].
    replace (S (sb_next s - 1)) with (sb_next s) by lia. assumption.
Qed.

(* from the state of message n, the diffs of the next j messages lead to the state of message n+j *)
Lemma coh_replay lg start : coh lg start ->
  forall j n m0, start <= n -> nth_error lg n = Some m0 -> n + j < length lg ->
    apply_all_ok (concat (map (@m_diffs A) (firstn j (skipn (S n) lg)))) (m_state m0)
    = option_map (@m_state A) (nth_error lg (n + j)).
Proof.
  intro Hc. induction j as [|j IH]; intros n m0 Hn Em Hlt.
  - cbn [firstn map concat apply_all_ok]. rewrite Nat.add_0_r, Em. reflexivity.
  - destruct (nth_error lg (S n)) as [m1|] eqn:E1; [|apply nth_error_None in E1; lia].
    rewrite (skipn_nth_cons _ _ _ E1), firstn_cons. cbn [map concat].
    rewrite apply_all_ok_app, (Hc n m0 m1 Hn Em E1). cbn [obind].
    rewrite (IH (S n) m1) by (try assumption; lia).
    replace (S n + j) with (n + S j) by lia. reflexivity.
Qed.

Lemma sub_step_replay lg s gh :
  sub_step lg s gh -> gh_start gh <= sb_next s ->
  forall j, sb_next s + j < length lg ->
    apply_all_ok
      ((match sb_state s with SYield rest => rest | SRecv => [] end)
         ++ concat (map (@m_diffs A) (firstn (S j) (skipn (sb_next s) lg))))
      (gh_replica gh)
    = option_map (@m_state A) (nth_error lg (sb_next s + j)).
Proof.
  intros [Hc Hl] Hle j Hj.
  destruct (nth_error lg (sb_next s)) as [m0|] eqn:E0; [|apply nth_error_None in E0; lia].
  rewrite (skipn_nth_cons _ _ _ E0), firstn_cons. cbn [map concat].
  rewrite app_assoc, apply_all_ok_app, (next_ok _ _ _ _ Hc Hl Hle E0). cbn [obind].
  apply (coh_replay lg _ Hc); assumption.
Qed.

(* ---------------- facts drawn from sub_inv ---------------- *)
Lemma tail_replica (o : ovec A) s gh :
  sub_inv o s gh -> sb_next s = length (log o) ->
  apply_all_ok (match sb_state s with SYield rest => rest | SRecv => [] end) (gh_replica gh)
  = Some (values o).
Proof.
  intros H En. rewrite sub_inv_unfold in H. destruct H as (_ & _ & H3 & _).
  specialize (H3 ltac:(lia)). rewrite En, skipn_all in H3.
  cbn [all_diffs map concat] in H3. rewrite app_nil_r in H3. exact H3.
Qed.

(* for a live subscriber that subscribed before the last message was sent, the state published
   with the last message is the current contents *)
Lemma last_is_values (o : ovec A) s gh :
  sub_inv o s gh -> link (log o) s gh -> gh_start gh < length (log o) ->
  exists m, back (log o) = Some m /\ m_state m = values o.
Proof.
  intros H Hl Hs. pose proof H as H'. rewrite sub_inv_unfold in H'.
  destruct H' as (H1 & H2 & _ & H4 & _).
  destruct (Nat.eq_dec (sb_next s) (length (log o))) as [En|Hne]; [|apply H4; lia].
  pose proof (tail_replica _ _ _ H En) as Ht. unfold link in Hl. unfold back. rewrite <- En.
  destruct (sb_state s) as [|rest].
  - destruct Hl as (Hl & _). destruct (Hl ltac:(lia)) as (m & Em & Er). exists m.
    split; [exact Em|]. cbn [apply_all_ok] in Ht. congruence.
  - destruct Hl as (_ & m & Em & Er). exists m. split; [exact Em|congruence].
Qed.

(* ---------------- appending a message ---------------- *)
Lemma sub_step_append (o : ovec A) s gh (mg : msg A) :
  sub_inv o s gh -> sub_step (log o) s gh ->
  apply_all_ok (m_diffs mg) (values o) = Some (m_state mg) ->
  sub_step (log o ++ [mg]) (wake1 s) gh.
Proof.
  intros Hs [Hc Hl] Hap. pose proof Hs as Hs'. rewrite sub_inv_unfold in Hs'.
  destruct Hs' as (H1 & H2 & _). split.
  - intros i m m' Hi Em Em'.
    assert (Hlen : S i < length (log o ++ [mg])) by (eapply nth_error_some_lt; eassumption).
    rewrite app_length in Hlen; cbn [length] in Hlen.
    destruct (Nat.eq_dec (S i) (length (log o))) as [Heq|Hne].
    + rewrite nth_error_app1 in Em by lia. rewrite nth_error_app2 in Em' by lia.
      replace (S i - length (log o)) with 0 in Em' by lia. cbn [nth_error] in Em'.
      injection Em' as <-.
      destruct (last_is_values o s gh Hs Hl ltac:(lia)) as (ml & Eb & Ev). unfold back in Eb.
      replace (length (log o) - 1) with i in Eb by lia. rewrite Em in Eb. injection Eb as ->.
      rewrite Ev. exact Hap.
    + rewrite nth_error_app1 in Em, Em' by lia. eapply Hc; eassumption.
  - unfold link in *. cbn [wake1 sb_state sb_next]. destruct (sb_state s) as [|rest] eqn:Est.
    + destruct Hl as (Ha & Hb). split.
      * intro Hlt. destruct (Ha Hlt) as (m & Em & Er). exists m. split; [|exact Er].
        rewrite nth_error_app1 by lia. exact Em.
      * intros En m Em. destruct (Nat.eq_dec (sb_next s) (length (log o))) as [Heq|Hne].
        -- rewrite nth_error_app2 in Em by lia.
           replace (sb_next s - length (log o)) with 0 in Em by lia. cbn [nth_error] in Em.
           injection Em as <-. pose proof (tail_replica o s gh Hs Heq) as Ht. rewrite Est in Ht.
           cbn [apply_all_ok] in Ht. injection Ht as ->. exact Hap.
        -- rewrite nth_error_app1 in Em by lia. apply Hb; assumption.
    + destruct Hl as (Hlt & m & Em & Er). split; [exact Hlt|]. exists m.
      split; [rewrite nth_error_app1 by lia; exact Em|exact Er].
Qed.

Lemma sinv_send (o o1 : ovec A) ghs (mg : msg A) :
  oinv o ghs -> sinv (log o) (subs o) ghs -> log o1 = log o -> subs o1 = subs o ->
  (0 < rx_cnt o -> apply_all_ok (m_diffs mg) (values o) = Some (m_state mg)) ->
  sinv (log (fst (send o1 mg))) (subs (fst (send o1 mg))) ghs.
Proof.
  intros (_ & _ & _ & _ & H5) Hs E2 E4 Hap.
  assert (Er : rx_cnt o1 = rx_cnt o) by (unfold rx_cnt; rewrite E4; reflexivity).
  unfold send. destruct (Nat.eqb_spec (rx_cnt o1) 0) as [Hz|Hnz]; cbn [fst log subs]; rewrite E2, E4.
  - exact Hs.
  - intros k s' gh Ek Eg. apply nth_error_wake_all in Ek as (s & Ek & ->).
    apply sub_step_append; [apply (H5 k s gh Ek Eg)|apply (Hs k s gh Ek Eg)|apply Hap; lia].
Qed.

(* ---------------- the single operations ---------------- *)
Lemma ovec_mutate_sinv (o : ovec A) ghs m o' r w :
  oinv o ghs -> sinv (log o) (subs o) ghs -> ovec_mutate o m = Ok (o', r, w) ->
  sinv (log o') (subs o') ghs.
Proof.
  intros Hinv Hs. unfold ovec_mutate.
  destruct (mutate m (values o) false) as [[[v' r'] [d|]]|] eqn:Em; [| |discriminate];
    pose proof (mutate_coherent _ _ _ _ _ _ Em) as Hco.
  - destruct Hco as (Hok & Hap & Hnr). unfold broadcast_diff.
    destruct (send _ _) as [o2 wk] eqn:Es. intro H; injection H as <- <- <-.
    replace o2 with (fst (send (with_values o v')
                       {| m_many := false; m_diffs := [d]; m_state := values (with_values o v') |}))
      by (rewrite Es; reflexivity).
    apply (sinv_send o); try reflexivity; try assumption.
    intros _. cbn [m_diffs m_state values with_values]. apply aao_single; assumption.
  - intro H; injection H as <- <- <-. exact Hs.
Qed.

Lemma for_each_sinv (o : ovec A) ghs decs o' vis w :
  oinv o ghs -> cur_txn o = None -> sinv (log o) (subs o) ghs ->
  for_each o false decs = Ok (o', vis, w) -> sinv (log o') (subs o') ghs.
Proof.
  intros Hinv Ht Hs H. unfold for_each in H.
  apply (traverse_preserves
           (fun o => (oinv o ghs /\ cur_txn o = None) /\ sinv (log o) (subs o) ghs) false) in H;
    [tauto| |tauto].
  intros o1 m o2 r w1 [[H1 H2] H3] Hm. cbn [do_mut] in Hm. split.
  - eapply ovec_mutate_oinv; eassumption.
  - eapply ovec_mutate_sinv; eassumption.
Qed.

Lemma txn_commit_sinv (o : ovec A) ghs t :
  oinv o ghs -> sinv (log o) (subs o) ghs -> cur_txn o = Some t ->
  sinv (log (fst (txn_commit o))) (subs (fst (txn_commit o))) ghs.
Proof.
  intros Hinv Hs Ht. pose proof Hinv as (_ & _ & _ & Htx & _). unfold txn_inv in Htx.
  rewrite Ht in Htx. destruct Htx as (Hal & Hb & Hnr). unfold txn_commit. rewrite Ht.
  destruct (tx_batch t) as [|d b] eqn:Eb.
  - exact Hs.
  - apply (sinv_send o); try reflexivity; assumption.
Qed.

(* ---------------- polling ---------------- *)
Lemma link_yield lg n b w rest gh r' (m : msg A) lagf ds :
  gh_start gh < n -> nth_error lg (n - 1) = Some m -> apply_all_ok rest r' = Some (m_state m) ->
  link lg {| sb_next := n; sb_batched := b; sb_state := yield_state rest; sb_waiting := w |}
       (deliver_gh gh ds lagf r').
Proof.
  intros Hlt Em Hr. unfold link. cbn [sb_state sb_next deliver_gh gh_start gh_replica].
  destruct rest as [|d rest]; cbn [yield_state].
  - split; [|intros; lia]. intros _. exists m. split; [assumption|].
    cbn [apply_all_ok] in Hr. congruence.
  - split; [assumption|eauto].
Qed.

Lemma link_tail (o : ovec A) s' gh' :
  sub_inv o s' gh' -> sb_state s' = SRecv -> sb_next s' = length (log o) ->
  (exists m, back (log o) = Some m /\ m_state m = values o) -> gh_start gh' < length (log o) ->
  link (log o) s' gh'.
Proof.
  intros Hs Est En (m & Eb & Ev) Hlt. pose proof (tail_replica o s' gh' Hs En) as Ht.
  unfold link. rewrite Est in *. cbn [apply_all_ok] in Ht. injection Ht as Ht.
  split; [|intros; lia]. intros _. exists m. rewrite En. split; [exact Eb|congruence].
Qed.

Lemma poll_sub_step (o : ovec A) s gh s' r gh' :
  sub_inv o s gh -> sub_step (log o) s gh -> poll_case o s s' r -> sub_inv o s' gh' ->
  match r with
  | Ready (Some it) =>
      exists r', apply_all_ok (item_diffs it) (gh_replica gh) = Some r' /\
                 gh' = deliver_gh gh (item_diffs it) (lagb o s) r'
  | _ => gh' = gh
  end ->
  sub_step (log o) s' gh'.
Proof.
  intros Hs [Hc Hl] Hcase Hs' Hgh. pose proof Hs as Hsu. rewrite sub_inv_unfold in Hsu.
  destruct Hsu as (H1 & H2 & _ & H4 & _).
  destruct Hcase as [d rest' Est Eb | Est En Eal | Est En Eal | Est Hlag | mg d rest Est Eb Hlt Hw En Ed
                     | Est Eb Hlt Hw Hne ].
  - (* yield *)
    destruct Hgh as (r' & Hap & ->). split; [exact Hc|].
    unfold link in Hl. rewrite Est in Hl. destruct Hl as (Hlt & m & Em & Er).
    cbn [item_diffs] in *. change (d :: rest') with ([d] ++ rest') in Er.
    rewrite apply_all_ok_app, Hap in Er. cbn [obind] in Er.
    eapply link_yield; eassumption.
  - subst gh'. split; [exact Hc|]. unfold link in *. cbn [sb_state sb_next]. rewrite Est in Hl. exact Hl.
  - subst gh'. split; [exact Hc|]. unfold link in *. cbn [sb_state sb_next]. rewrite Est in Hl. exact Hl.
  - (* lag *)
    destruct Hgh as (r' & Hap & ->). split; [exact Hc|].
    apply link_tail; try reflexivity; try assumption.
    + apply H4. lia.
    + cbn [deliver_gh gh_start]. lia.
  - (* plain *)
    destruct Hgh as (r' & Hap & ->). split; [exact Hc|].
    pose proof (next_ok _ _ _ _ Hc Hl H2 En) as Hn. rewrite Est, Ed in Hn. cbn [app] in Hn.
    cbn [item_diffs] in *. change (d :: rest) with ([d] ++ rest) in Hn.
    rewrite apply_all_ok_app, Hap in Hn. cbn [obind] in Hn.
    eapply link_yield; [lia| |exact Hn]. replace (S (sb_next s) - 1) with (sb_next s) by lia. exact En.
  - (* batch *)
    destruct Hgh as (r' & Hap & ->). split; [exact Hc|].
    apply link_tail; try reflexivity; try assumption.
    + apply H4. lia.
    + cbn [deliver_gh gh_start]. lia.
Qed.

(* ---------------- the invariant is inductive ---------------- *)
Theorem step_inv_init capacity : step_inv (@ginit A capacity).
Proof.
  split; [apply ginv_strong_init|]. intros k s gh Ek. destruct k; discriminate.
Qed.

Theorem step_inv_step (g : gst A) x g' out :
  step_inv g -> gstep g x = Ok (g', out) -> step_inv g'.
Proof.
  intros [Hg Hs] H. pose proof (ginv_strong_step _ _ _ _ Hg H) as Hg'. split; [exact Hg'|].
  pose proof Hg as (Hok & Hinv). destruct x.
  - (* OMut *) unfold gstep in H.
    destruct (negb _ || _) eqn:Eg; [discriminate|].
    destruct (ovec_mutate (g_o g) m) as [[[o' r] w]|] eqn:E; [|discriminate]. injection H as <- <-.
    cbn [g_o g_gh]. eapply ovec_mutate_sinv; eassumption.
  - (* OEach *) unfold gstep in H.
    destruct (negb _ || _) eqn:Eg; [discriminate|]. apply guard_false in Eg as [Hal Ht].
    destruct (for_each (g_o g) false decs) as [[[o' r] w]|] eqn:E; [|discriminate]. injection H as <- <-.
    cbn [g_o g_gh]. eapply for_each_sinv; eassumption.
  - (* OSub *) unfold gstep in H.
    destruct (negb _ || _) eqn:Eg; [discriminate|].
    unfold subscribe in H. injection H as <- <-. cbn [g_o g_gh with_subs log subs].
    destruct Hinv as (H1 & _).
    intros k s gh Ek Egh.
    destruct (Nat.lt_ge_cases k (length (subs (g_o g)))) as [Hlt|Hge].
    + rewrite nth_error_app1 in Ek, Egh by lia. eapply Hs; eassumption.
    + rewrite nth_error_app2 in Ek, Egh by lia. rewrite H1 in Egh.
      destruct (k - length (subs (g_o g))) as [|j]; [|destruct j; discriminate].
      cbn [nth_error] in Ek, Egh. injection Ek as <-. injection Egh as <-.
      split.
      * intros i m m' Hi Em. cbn [gh_start] in Hi. apply nth_error_some_lt in Em. lia.
      * unfold link. cbn [sb_state sb_next gh_start gh_replica]. split; [lia|].
        intros _ m Em. apply nth_error_some_lt in Em. lia.
  - (* OPoll *)
    destruct (gstep_poll _ _ _ _ Hg H) as (s & gh & s' & r & gh' & Ek & Eg & [Hsi Hy] & Hcase & -> & -> & Hgh).
    cbn [g_o g_gh with_subs subs log] in *.
    pose proof (nth_error_some_lt _ _ _ Ek) as Hk1. pose proof (nth_error_some_lt _ _ _ Eg) as Hk2.
    intros j sj ghj Ej Egj. destruct (Nat.eq_dec j k) as [->|Hne].
    + rewrite nth_error_set_nth_eq in Ej by assumption. rewrite nth_error_set_nth_eq in Egj by assumption. injection Ej as <-. injection Egj as <-.
      destruct Hg' as (_ & _ & _ & _ & _ & H5'). cbn [g_o g_gh with_subs subs] in H5'.
      assert (Hs' : sub_inv_s (with_subs (g_o g) (set_nth k (Some s') (subs (g_o g)))) s' gh')
        by (apply (H5' k); apply nth_error_set_nth_eq; assumption).
      destruct Hs' as [Hs' _].
      eapply (poll_sub_step (g_o g) s gh s' r gh'); try eassumption.
      eapply Hs; eassumption.
    + rewrite nth_error_set_nth_neq in Ej by assumption. rewrite nth_error_set_nth_neq in Egj by assumption. eapply Hs; eassumption.
  - (* ODropSub *) unfold gstep in H. injection H as <- <-. cbn [g_o g_gh drop_sub with_subs log subs].
    intros j s gh Ej Egj. apply nth_error_set_none in Ej. eapply Hs; eassumption.
  - (* OTxnBegin *) unfold gstep in H.
    destruct (negb _ || _) eqn:Eg; [discriminate|]. injection H as <- <-. exact Hs.
  - (* OTMut *) unfold gstep in H.
    destruct (txn_mutate (g_o g) m) as [[o' r]|] eqn:E; [|discriminate]. injection H as <- <-.
    cbn [g_o g_gh]. destruct (txn_mutate_invisible _ _ _ _ E) as (_ & -> & -> & _). exact Hs.
  - (* OTEach *) unfold gstep in H.
    destruct (cur_txn (g_o g)) as [t|] eqn:Et; [|discriminate].
    destruct (for_each (g_o g) true decs) as [[[o' r] w]|] eqn:E; [|discriminate]. injection H as <- <-.
    cbn [g_o g_gh]. destruct (for_each_txn_invisible _ _ _ _ _ E) as (_ & -> & -> & _). exact Hs.
  - (* OTRollback *) unfold gstep in H.
    destruct (cur_txn (g_o g)) as [t|] eqn:Et; [|discriminate]. injection H as <- <-.
    cbn [g_o g_gh]. unfold txn_rollback. rewrite Et. exact Hs.
  - (* OTCommit *) unfold gstep in H.
    destruct (cur_txn (g_o g)) as [t|] eqn:Et; [|discriminate]. injection H as <- <-.
    cbn [g_o g_gh]. eapply txn_commit_sinv; eassumption.
  - (* OTDrop *) unfold gstep in H.
    destruct (cur_txn (g_o g)) as [t|] eqn:Et; [|discriminate]. injection H as <- <-. exact Hs.
  - (* ODropVec *) unfold gstep in H.
    destruct (negb _ || _) eqn:Eg; [discriminate|]. injection H as <- <-.
    cbn [g_o g_gh drop_vec fst log subs].
    intros k s' gh Ek Egh. apply nth_error_wake_all in Ek as (s & Ek & ->).
    destruct (Hs k s gh Ek Egh) as [Hc Hl]. split; [exact Hc|exact Hl].
Qed.

Theorem step_inv_run (g : gst A) xs : step_inv g -> step_inv (grun g xs).
Proof.
  revert g; induction xs as [|x xs IH]; intros g Hg; cbn [grun]; [assumption|].
  destruct (gstep g x) as [[g' out]|] eqn:E; apply IH; [|assumption].
  eapply step_inv_step; eassumption.
Qed.

Corollary step_inv_reachable capacity (xs : list (op A)) : step_inv (grun (ginit capacity) xs).
Proof. apply step_inv_run, step_inv_init. Qed.

(* For every reachable state, every live subscriber inside the retention window, and every j:
   the rest of the batch it is currently handing out (if any) followed by the diffs of the next
   j+1 retained messages, applied in order - each diff checked for applicability - to its replica,
   yield exactly the state published with message number sb_next+j.  (j ranges over the messages
   still to be received; the last one gives the current contents, which is the window clause of
   sub_inv.)  In words: every mutating call contributes diffs that take the replica from the state
   before the call to the state after it. *)
Theorem replay_stepwise capacity (xs : list (op A)) k s gh :
  let g := grun (ginit capacity) xs in
  nth_error (subs (g_o g)) k = Some (Some s) -> nth_error (g_gh g) k = Some gh ->
  length (log (g_o g)) - sb_next s <= cap2 (g_o g) ->
  forall j, j < length (log (g_o g)) - sb_next s ->
    apply_all_ok
      ((match sb_state s with SYield rest => rest | SRecv => [] end)
         ++ concat (map (@m_diffs A) (firstn (S j) (skipn (sb_next s) (log (g_o g))))))
      (gh_replica gh)
    = option_map (@m_state A) (nth_error (log (g_o g)) (sb_next s + j)).
Proof.
  intros g Ek Eg _ j Hj.
  destruct (step_inv_reachable capacity xs) as [Hg Hs]. fold g in Hg, Hs.
  destruct Hg as (_ & _ & _ & _ & _ & H5). destruct (H5 k s gh Ek Eg) as [Hsi _].
  rewrite sub_inv_unfold in Hsi. destruct Hsi as (_ & H2 & _).
  apply sub_step_replay; [eapply Hs; eassumption|assumption|lia].
Qed.

(* ... and in the Recv state with nothing pending from a batch, the replica itself is the state
   published with the last message it consumed (or the subscription snapshot if none yet) - stated
   as: the replica is a state the vector actually had *)
Theorem replica_is_a_published_state capacity (xs : list (op A)) k s gh :
  let g := grun (ginit capacity) xs in
  nth_error (subs (g_o g)) k = Some (Some s) -> nth_error (g_gh g) k = Some gh ->
  sb_state s = SRecv -> length (log (g_o g)) - sb_next s <= cap2 (g_o g) ->
  gh_start gh < sb_next s ->
  exists m, nth_error (log (g_o g)) (sb_next s - 1) = Some m /\ gh_replica gh = m_state m.
Proof.
  intros g Ek Eg Est _ Hlt.
  destruct (step_inv_reachable capacity xs) as [_ Hs]. fold g in Hs.
  destruct (Hs k s gh Ek Eg) as [_ Hl]. unfold link in Hl. rewrite Est in Hl.
  destruct Hl as (Ha & _). apply Ha; assumption.
Qed.

End Stepwise.
