(* AsyncGuardRun.v — the body of every call preserves the invariant and refines the specification. *)
From EB Require Import AsyncGuard AsyncGuardAux AsyncGuardInv AsyncGuardAbs.
From Coq Require Import Lia.

Section Run1.
Context {V : Type}.
Variable veq : V -> V -> bool.
Variable heq : V -> V -> bool.
Variable vdefault : V.
Notation fut := (@fut V).
Notation astate := (astate V).
Notation acall := (acall V).

Definition Ref (sv s' : astate) (c : acall) (r : result) : Prop :=
  match r with
  | Some r => match sync_op c with
              | Some x => sstep veq heq vdefault (abs sv) x = Some (abs s', conv c r)
              | None => abs s' = abs sv
              end
  | None => abs s' = abs sv
  end.

(* the futures as the model has them (R) and as the invariant sees them while future [id] runs (Vt):
   they differ in the phase of [id] only *)
Definition vrel (id : nat) (R Vt : list fut) : Prop := forall Z, set_ph id Z R = set_ph id Z Vt.

Lemma vrel_set id (R : list fut) Y : vrel id R (set_ph id Y R).
Proof. intro Z. unfold set_ph. rewrite upd_at_upd_at. reflexivity. Qed.
Lemma vrel_refl id (R : list fut) : vrel id R R.
Proof. intro Z. reflexivity. Qed.
Lemma vrel_set_r id (R Vt : list fut) Y : vrel id R Vt -> vrel id R (set_ph id Y Vt).
Proof. intros H Z. unfold set_ph. rewrite upd_at_upd_at. apply H. Qed.
Lemma vrel_mg id (R Vt : list fut) g : vrel id R Vt -> ~ In id g -> vrel id (mg_futs R g) (mg_futs Vt g).
Proof. intros H Hn Z. unfold set_ph. rewrite <- !mg_futs_comm by auto. f_equal. apply H. Qed.
Lemma vrel_mn id (R Vt : list fut) g : vrel id R Vt -> ~ In id g -> vrel id (mn_futs R g) (mn_futs Vt g).
Proof. intros H Hn Z. unfold set_ph. rewrite <- !mn_futs_comm by auto. f_equal. apply H. Qed.
Lemma vrel_length id (R Vt : list fut) : vrel id R Vt -> length R = length Vt.
Proof. intro H. specialize (H PhDone). apply (f_equal (@length _)) in H. unfold set_ph in H. rewrite !upd_at_length in H. auto. Qed.

(* the running future gives its permits back and moves to an idle phase X *)
Lemma drop_ok (o : obs V) sm G id f' X rel (s1 s3 : astate) granted (Fv' : list fut) :
  PInv o (s_free sm) (s_queue sm) Fv' G ->
  nth_error Fv' id = Some f' -> (f_phase f' = PhGranted \/ f_phase f' = Ph2Granted) -> held_fut f' = rel ->
  (X = PhDone \/ X = PhNotified) ->
  a_obs s1 = o -> a_sem s1 = sm -> a_guards s1 = G ->
  release_permits s1 rel = (s3, granted) ->
  PInv o (s_free (a_sem s3)) (s_queue (a_sem s3)) (mg_futs (set_ph id X Fv') granted) G /\
  (s_queue (a_sem s3) <> [] -> s_free (a_sem s3) = 0) /\
  a_obs s3 = o /\ a_guards s3 = G /\ a_futs s3 = mg_futs (a_futs s1) granted /\
  map p2key (mg_futs (set_ph id X Fv') granted) = map p2key (set_ph id X Fv') /\
  ~ In id granted.
Proof.
  intros HI Hf Hp Hh HX Eo Es Eg E.
  apply release_permits_eq in E. destruct E as (E1 & E2 & E3 & E4).
  assert (HI2 : PInv o (s_free sm + rel) (s_queue sm) (set_ph id X Fv') G).
  { eapply pinv_move; eauto.
    - destruct Hp as [-> | ->]; reflexivity.
    - destruct Hp as [-> | ->]; congruence.
    - destruct Hp as [-> | ->]; congruence.
    - destruct HX as [-> | ->]; reflexivity.
    - destruct HX as [-> | ->]; congruence.
    - destruct HX as [-> | ->]; congruence.
    - assert (held_fut (app_ph (fun _ => X) f') = 0) by (destruct HX as [-> | ->]; reflexivity). lia. }
  rewrite Es in E4.
  destruct (release_inv _ _ _ _ _ _ _ HI2 E4) as (A & B & C & D).
  rewrite E1, E2, Eo, Eg. refine (conj A (conj B (conj eq_refl (conj eq_refl (conj E3 (conj C _)))))).
  intro Hin. apply D in Hin. revert Hin. apply (pinv_notq _ _ _ _ _ HI id f' Hf). destruct Hp as [Hp | Hp]; rewrite Hp; reflexivity.
Qed.

Section Frame.
Variables (s sv : astate) (id : nat) (f : fut).
Hypothesis Eo : a_obs sv = a_obs s.
Hypothesis Es : a_sem sv = a_sem s.
Hypothesis Eg : a_guards sv = a_guards s.
Hypothesis Hvr : vrel id (a_futs s) (a_futs sv).
Hypothesis Hf : nth_error (a_futs sv) id = Some f.
Hypothesis HInv : Inv sv.

Lemma frame_pinv : PInv (a_obs s) (s_free (a_sem s)) (s_queue (a_sem s)) (a_futs sv) (a_guards s).
Proof. destruct HInv as [H _]. rewrite Eo, Es, Eg in H. exact H. Qed.

Lemma frame_owners : owners (a_obs s) = 1.
Proof. apply (pi_owners _ _ _ _ _ frame_pinv). Qed.

Lemma run_aset v second s' r w :
  f_call f = ASet v -> f_phase f = PhGranted ->
  run_body veq heq vdefault true s id (ASet v) second = (s', r, w) ->
  Inv s' /\ Ref sv s' (ASet v) r.
Proof.
  intros Ec Hp H. pose proof frame_pinv as HI. pose proof frame_owners as Hown.
  unfold run_body in H. unfold step, notify in H. rewrite Hown in H. cbn [Nat.eqb] in H.
  match type of H with context [release_permits ?a ?b] => destruct (release_permits a b) as [s3 granted] eqn:E end.
  inversion H; subst; clear H.
  pose proof (pinv_notify _ _ _ _ _ v HI) as HI2.
  assert (Hp' : f_phase f <> PhNotify) by congruence.
  pose proof (mn_keep _ _ _ _ _ _ _ HI Hf Hp') as Hf2.
  assert (NW : ~ In id (wakers (a_obs s))) by (eapply pinv_notw; eauto).
  eapply (drop_ok _ _ _ id f PhDone maxp) in E; eauto.
  2:{ unfold held_fut. rewrite Hp, Ec. reflexivity. }
  2:{ rewrite mark_notified_obs, upd_fut_obs. reflexivity. }
  2:{ rewrite mark_notified_sem, upd_fut_sem. reflexivity. }
  2:{ rewrite mark_notified_guards, upd_fut_guards. reflexivity. }
  destruct E as (A & B & C & D & E & Fp & Gn).
  rewrite mark_notified_futs, upd_fut_futs in E. cbn [a_futs] in E.
  rewrite (Hvr PhDone) in E. unfold set_ph in E at 1. rewrite mn_futs_comm in E by auto.
  fold (set_ph id PhDone (mn_futs (a_futs sv) (wakers (a_obs s)))) in E.
  split.
  - unfold Inv. rewrite C, D, E. auto.
  - unfold Ref. cbn [sync_op conv]. rewrite <- Eo. eapply abs_wset.
    + rewrite Eo. auto.
    + rewrite Eo. apply (pi_subs _ _ _ _ _ HI).
    + rewrite C, Eo. reflexivity.
Qed.

Lemma finish_plain o' rel s3 granted :
  PInv o' (s_free (a_sem s)) (s_queue (a_sem s)) (a_futs sv) (a_guards s) ->
  (f_phase f = PhGranted \/ f_phase f = Ph2Granted) -> held_fut f = rel ->
  release_permits (upd_fut {| a_obs := o'; a_sem := a_sem s; a_futs := a_futs s; a_guards := a_guards s |} id PhDone) rel
    = (s3, granted) ->
  Inv s3 /\ a_obs s3 = o' /\ (forall k, in_p2 (a_futs s3) k = in_p2 (set_ph id PhDone (a_futs sv)) k).
Proof.
  intros HI Hp Hh E.
  eapply (drop_ok _ _ _ id f PhDone rel) in E; eauto.
  2:{ rewrite upd_fut_obs. reflexivity. }
  2:{ rewrite upd_fut_sem. reflexivity. }
  2:{ rewrite upd_fut_guards. reflexivity. }
  destruct E as (A & B & C & D & E & Fp & Gn).
  rewrite upd_fut_futs in E. cbn [a_futs] in E. rewrite (Hvr PhDone) in E.
  split; [|split]; auto.
  - unfold Inv. rewrite C, D, E. auto.
  - intro k. apply in_p2_map. rewrite E. auto.
Qed.

(* the phase-2 flags when a first-phase future completes *)
Lemma p2_done_first : f_phase f = PhGranted ->
  forall k, in_p2 (set_ph id PhDone (a_futs sv)) k = in_p2 (a_futs sv) k.
Proof.
  intros Hp k. eapply in_p2_set_other; eauto.
  - unfold p2key. rewrite Hp. destruct (f_call f); congruence.
  - unfold p2key, app_ph. cbn. destruct (f_call f); congruence.
Qed.

Lemma run_aget second s' r w :
  f_call f = AGet -> f_phase f = PhGranted ->
  run_body veq heq vdefault true s id AGet second = (s', r, w) ->
  Inv s' /\ Ref sv s' AGet r.
Proof.
  intros Ec Hp H. pose proof frame_pinv as HI. pose proof frame_owners as Hown.
  unfold run_body in H. unfold step in H. rewrite Hown in H. cbn [Nat.eqb mark_notified] in H.
  match type of H with context [release_permits ?a ?b] => destruct (release_permits a b) as [s3 granted] eqn:E end.
  inversion H; subst; clear H.
  apply finish_plain in E; auto.
  2:{ unfold held_fut. rewrite Hp, Ec. reflexivity. }
  destruct E as (A & B & C). split; auto.
  unfold Ref. cbn [sync_op conv]. rewrite <- Eo. apply abs_wget. rewrite Eo; auto.
  apply abs_same; try (rewrite B, Eo; reflexivity).
  intro k. rewrite C. apply p2_done_first; auto.
Qed.

Lemma run_asubscribe second s' r w :
  f_call f = ASubscribe -> f_phase f = PhGranted ->
  run_body veq heq vdefault true s id ASubscribe second = (s', r, w) ->
  Inv s' /\ Ref sv s' ASubscribe r.
Proof.
  intros Ec Hp H. pose proof frame_pinv as HI. pose proof frame_owners as Hown.
  unfold run_body in H. unfold step in H. rewrite Hown in H. cbn [Nat.eqb mark_notified] in H.
  match type of H with context [release_permits ?a ?b] => destruct (release_permits a b) as [s3 granted] eqn:E end.
  inversion H; subst; clear H.
  apply finish_plain in E; auto.
  2:{ apply pinv_subs_app; auto. }
  2:{ unfold held_fut. rewrite Hp, Ec. reflexivity. }
  destruct E as (A & B & C). split; auto.
  unfold Ref. cbn [sync_op conv]. rewrite <- Eo. pose proof HInv as [HIv _]. apply abs_subscribe.
  - rewrite Eo. auto.
  - rewrite B, Eo. reflexivity.
  - intro k. rewrite C. apply p2_done_first; auto.
  - destruct (in_p2 (a_futs sv) (length (subs (a_obs sv)))) eqn:E2; auto.
    apply (in_p2_bound _ _ _ _ _ _ HIv) in E2. lia.
Qed.

Lemma run_anextnow k second s' r w :
  f_call f = ANextNow k -> f_phase f = PhGranted ->
  run_body veq heq vdefault true s id (ANextNow k) second = (s', r, w) ->
  Inv s' /\ Ref sv s' (ANextNow k) r.
Proof.
  intros Ec Hp H. pose proof frame_pinv as HI.
  assert (Hk : call_sub (f_call f) = Some k) by (rewrite Ec; reflexivity).
  assert (Hnd : f_phase f <> PhDone) by congruence.
  destruct (pinv_sub _ _ _ _ _ HI _ _ _ Hf Hk Hnd) as (ov & Hov & Hle).
  unfold run_body in H. unfold step in H. rewrite Hov in H. cbn [mark_notified] in H.
  match type of H with context [release_permits ?a ?b] => destruct (release_permits a b) as [s3 granted] eqn:E end.
  inversion H; subst; clear H.
  apply finish_plain in E; auto.
  2:{ apply pinv_subs_set; auto. }
  2:{ unfold held_fut. rewrite Hp, Ec. reflexivity. }
  destruct E as (A & B & C). split; auto.
  unfold Ref. cbn [sync_op conv]. rewrite <- Eo. eapply abs_next_now.
  - rewrite Eo. eauto.
  - rewrite B, Eo. reflexivity.
  - rewrite C, p2_done_first; auto. destruct HInv as [HIv _].
    eapply in_p2_none; eauto. unfold p2key. rewrite Ec. reflexivity.
  - intros. rewrite C, p2_done_first; auto.
Qed.

Lemma run_guard (g : guard) c s' :
  f_call f = c -> f_phase f = PhGranted -> held_guard g = need_of c ->
  s' = upd_fut {| a_obs := a_obs s; a_sem := a_sem s; a_futs := a_futs s;
                  a_guards := set_nth id g (a_guards s) |} id PhDone ->
  Inv s' /\ abs s' = abs sv.
Proof.
  intros Ec Hp Hg ->. pose proof frame_pinv as HI.
  assert (Hnd : f_phase f <> PhDone) by congruence.
  pose proof (pinv_guard_none _ _ _ _ _ HI _ _ Hf Hnd) as HG.
  assert (HI2 : PInv (a_obs s) (s_free (a_sem s) + held_guard g) (s_queue (a_sem s)) (set_ph id PhDone (a_futs sv)) (a_guards s)).
  { eapply pinv_move; eauto; try (rewrite Hp; congruence || reflexivity); try congruence.
    unfold held_fut, app_ph. rewrite Hp, Ec. cbn. lia. }
  eapply pinv_guard_take in HI2; eauto.
  2:{ unfold set_ph. apply nth_error_upd_at_eq. eauto. }
  2:{ reflexivity. }
  split.
  - unfold Inv. rewrite upd_fut_obs, upd_fut_sem, upd_fut_guards, upd_fut_futs. cbn [a_obs a_sem a_futs a_guards].
    rewrite (Hvr PhDone). split; auto. destruct HInv as [_ HF]. rewrite Es in HF. auto.
  - apply abs_same; rewrite ?upd_fut_obs; cbn [a_obs]; rewrite ?Eo; auto.
    intro k. rewrite upd_fut_futs. cbn [a_futs]. rewrite (Hvr PhDone). apply p2_done_first; auto.
Qed.

Lemma run_awrite second s' r w :
  f_call f = AWrite -> f_phase f = PhGranted ->
  run_body veq heq vdefault true s id AWrite second = (s', r, w) ->
  Inv s' /\ Ref sv s' AWrite r.
Proof.
  intros Ec Hp H. unfold run_body in H. inversion H; subst; clear H.
  eapply (run_guard GWrite AWrite) ; eauto.
Qed.

Lemma run_aread second s' r w :
  f_call f = ARead -> f_phase f = PhGranted ->
  run_body veq heq vdefault true s id ARead second = (s', r, w) ->
  Inv s' /\ Ref sv s' ARead r.
Proof.
  intros Ec Hp H. unfold run_body in H. inversion H; subst; clear H.
  destruct (run_guard GRead ARead _ Ec Hp eq_refl eq_refl) as [A B].
  split; auto. unfold Ref. cbn [sync_op conv].
  replace (val (a_obs s)) with (val (a_obs sv)) by (rewrite Eo; reflexivity). apply abs_wget; auto.
  rewrite Eo. apply frame_owners.
Qed.

Lemma run_aupd x second s' r w :
  f_call f = AUpd x -> f_phase f = PhGranted ->
  run_body veq heq vdefault true s id (AUpd x) second = (s', r, w) ->
  Inv s' /\ Ref sv s' (AUpd x) r.
Proof.
  intros Ec Hp H. pose proof frame_pinv as HI. pose proof frame_owners as Hown.
  assert (Hw : is_writer x = true).
  { pose proof (pi_upd _ _ _ _ _ HI _ _ Hf) as W. rewrite Ec in W. exact W. }
  destruct (step_writer_kind veq heq vdefault _ x Hown Hw) as (o' & r0 & w0 & Est & Hkind).
  unfold run_body in H. rewrite Est in H.
  match type of H with context [release_permits ?a ?b] => destruct (release_permits a b) as [s3 granted] eqn:E end.
  assert (Hh : held_fut f = maxp) by (unfold held_fut; rewrite Hp, Ec; reflexivity).
  assert (Hfin : Inv s3 /\ a_obs s3 = o' /\
                 (ver o' = ver (a_obs s) -> forall k, in_p2 (a_futs s3) k = in_p2 (a_futs sv) k)).
  { destruct Hkind as [(v' & -> & ->) | (-> & Hk)].
    - pose proof (pinv_notify _ _ _ _ _ v' HI) as HI2.
      assert (Hp' : f_phase f <> PhNotify) by congruence.
      pose proof (mn_keep _ _ _ _ _ _ _ HI Hf Hp') as Hf2.
      assert (NW : ~ In id (wakers (a_obs s))) by (eapply pinv_notw; eauto).
      eapply (drop_ok _ _ _ id f PhDone maxp) in E; eauto.
      2:{ rewrite mark_notified_obs, upd_fut_obs. reflexivity. }
      2:{ rewrite mark_notified_sem, upd_fut_sem. reflexivity. }
      2:{ rewrite mark_notified_guards, upd_fut_guards. reflexivity. }
      destruct E as (A & B & C & D & E & Fp & Gn).
      rewrite mark_notified_futs, upd_fut_futs in E. cbn [a_futs] in E.
      rewrite (Hvr PhDone) in E. unfold set_ph in E at 1. rewrite mn_futs_comm in E by auto.
      fold (set_ph id PhDone (mn_futs (a_futs sv) (wakers (a_obs s)))) in E.
      split; [|split]; auto.
      + unfold Inv. rewrite C, D, E. auto.
      + cbn [upd ver]. intro X. exfalso. lia.
    - cbn [mark_notified] in E. apply finish_plain in E; auto.
      2:{ destruct Hk as [-> | (v' & ->)]; [exact HI | apply pinv_val; exact HI]. }
      destruct E as (A & B & C). split; auto. split; auto.
      intros _ k. rewrite C. apply p2_done_first; auto. }
  inversion H; subst s' r w; clear H.
  destruct Hfin as (A & B & C). split; auto.
  unfold Ref. cbn [sync_op conv]. eapply abs_writer; eauto.
  - rewrite Eo. auto.
  - rewrite Eo. apply (pi_subs _ _ _ _ _ HI).
  - rewrite Eo. exact Est.
  - rewrite Eo. exact C.
Qed.

Lemma frame_sub k : call_sub (f_call f) = Some k -> f_phase f <> PhDone ->
  exists ov, nth_error (subs (a_obs s)) k = Some (Some ov) /\ ov <= ver (a_obs s).
Proof. intros. eapply pinv_sub; eauto using frame_pinv. Qed.

Lemma frame_ver : (ver (a_obs s) =? 0) = false.
Proof. pose proof (pi_ver _ _ _ _ _ frame_pinv). apply Nat.eqb_neq. lia. Qed.

(* poll_update answered Pending: register the waker, release the lock *)
Lemma run_pend k s3 granted :
  call_sub (f_call f) = Some k -> f_phase f = PhGranted -> need_of (f_call f) = 1 ->
  nth_error (subs (a_obs s)) k = Some (Some (ver (a_obs s))) ->
  release_permits
    (upd_fut {| a_obs := upd (a_obs s) (val (a_obs s)) (ver (a_obs s)) (wakers (a_obs s) ++ [id]);
                a_sem := a_sem s; a_futs := a_futs s; a_guards := a_guards s |} id PhNotify) 1 = (s3, granted) ->
  Inv s3 /\ abs s3 = abs sv.
Proof.
  intros Hk Hp Hn Hsk E. pose proof frame_pinv as HI.
  assert (HI1 : PInv (a_obs s) (s_free (a_sem s) + 1) (s_queue (a_sem s)) (set_ph id PhNotified (a_futs sv)) (a_guards s)).
  { eapply pinv_move; eauto; try (rewrite Hp; congruence || reflexivity); try congruence.
    unfold held_fut, app_ph. rewrite Hp, Hn. cbn. lia. }
  eapply (pinv_register _ _ _ _ _ id (app_ph (fun _ => PhNotified) f) k) in HI1; eauto.
  2:{ unfold set_ph. apply nth_error_upd_at_eq. auto. }
  unfold set_ph in HI1. rewrite upd_at_upd_at in HI1. fold (set_ph id PhNotify (a_futs sv)) in HI1.
  apply release_permits_eq in E. destruct E as (E1 & E2 & E3 & E4).
  rewrite upd_fut_obs in E1. rewrite upd_fut_guards in E2. rewrite upd_fut_futs in E3. rewrite upd_fut_sem in E4.
  cbn [a_obs a_sem a_futs a_guards] in *. rewrite (Hvr PhNotify) in E3.
  destruct (release_inv _ _ _ _ _ _ _ HI1 E4) as (A & B & C & D).
  split.
  - unfold Inv. rewrite E1, E2, E3. auto.
  - apply abs_same; rewrite ?E1, ?Eo; auto.
    intro j. rewrite E3. rewrite (in_p2_map _ _ j C). eapply in_p2_set_other; eauto.
    + unfold p2key. rewrite Hp. destruct (f_call f); congruence.
    + unfold p2key, app_ph. cbn. destruct (f_call f); congruence.
Qed.

Lemma run_astream k second s' r w :
  f_call f = AStreamNext k -> f_phase f = PhGranted ->
  run_body veq heq vdefault true s id (AStreamNext k) second = (s', r, w) ->
  Inv s' /\ Ref sv s' (AStreamNext k) r.
Proof.
  intros Ec Hp H. pose proof frame_pinv as HI.
  assert (Hk : call_sub (f_call f) = Some k) by (rewrite Ec; reflexivity).
  assert (Hnd : f_phase f <> PhDone) by congruence.
  destruct (frame_sub _ Hk Hnd) as (ov & Hov & Hle).
  unfold run_body in H. rewrite Hov, frame_ver in H.
  destruct (Nat.ltb_spec ov (ver (a_obs s))).
  - cbn [mark_notified] in H.
    match type of H with context [release_permits ?a ?b] => destruct (release_permits a b) as [s3 granted] eqn:E end.
    inversion H; subst; clear H.
    apply finish_plain in E; auto.
    2:{ apply pinv_subs_set; auto. }
    2:{ unfold held_fut. rewrite Hp, Ec. reflexivity. }
    destruct E as (A & B & C). split; auto.
    unfold Ref. cbn [sync_op conv]. rewrite <- Eo. eapply abs_poll_ready.
    + rewrite Eo. apply frame_owners.
    + rewrite Eo. eauto.
    + right. rewrite Eo. auto.
    + rewrite B, Eo. reflexivity.
    + rewrite C, p2_done_first; auto. destruct HInv as [HIv _].
      eapply in_p2_none; eauto. unfold p2key. rewrite Ec. reflexivity.
    + intros. rewrite C, p2_done_first; auto.
  - match type of H with context [release_permits ?a ?b] => destruct (release_permits a b) as [s3 granted] eqn:E end.
    inversion H; subst; clear H.
    assert (ov = ver (a_obs s)) by lia. subst ov.
    apply (run_pend k) in E; auto. rewrite Ec. reflexivity.
Qed.
End Frame.

Lemma nth_error_mg_notin g : forall (F : list fut) id, ~ In id g -> nth_error (mg_futs F g) id = nth_error F id.
Proof.
  induction g as [|a g IH]; intros F id H; auto.
  change (mg_futs F (a :: g)) with (mg_futs (upd_at a grant F) g). cbn in H.
  rewrite IH by tauto. apply nth_error_upd_at_neq. intro; subst; tauto.
Qed.

Lemma set_nth_set_nth {X} (l : list X) k x y : set_nth k x (set_nth k y l) = set_nth k x l.
Proof.
  apply nth_error_ext. intro j. rewrite !nth_error_set_nth. destruct (j =? k); auto.
  destruct (nth_error l j); reflexivity.
Qed.

Lemma p2key_next (f : fut) k : is_next (f_call f) = true -> call_sub (f_call f) = Some k ->
  forall X, p2key (app_ph (fun _ => X) f) = match X with Ph2Queued | Ph2Granted => Some k | _ => None end.
Proof.
  destruct f as [c p]. cbn. intros H1 H2 X. unfold p2key, app_ph. cbn.
  destruct c; try discriminate; inversion H2; subst; destruct X; reflexivity.
Qed.

Lemma p2key_next' (f : fut) k : is_next (f_call f) = true -> call_sub (f_call f) = Some k ->
  p2key f = match f_phase f with Ph2Queued | Ph2Granted => Some k | _ => None end.
Proof.
  destruct f as [c p]. cbn. intros H1 H2. unfold p2key. cbn.
  destruct c; try discriminate; inversion H2; subst; destruct p; reflexivity.
Qed.

Lemma run_anextref_eq fx (s : astate) id k second :
  run_body veq heq vdefault fx s id (ANextRef k) second = run_body veq heq vdefault fx s id (ANext k) second.
Proof. reflexivity. Qed.

Section Frame2.
Variables (s sv : astate) (id : nat) (f : fut).
Hypothesis Eo : a_obs sv = a_obs s.
Hypothesis Es : a_sem sv = a_sem s.
Hypothesis Eg : a_guards sv = a_guards s.
Hypothesis Hvr : vrel id (a_futs s) (a_futs sv).
Hypothesis Hf : nth_error (a_futs sv) id = Some f.
Hypothesis HInv : Inv sv.
Variable k : nat.
Hypothesis Hnx : is_next (f_call f) = true.
Hypothesis Hk : call_sub (f_call f) = Some k.

Let HI := frame_pinv s sv Eo Es Eg HInv.

Lemma next_need : need_of (f_call f) = 1.
Proof. revert Hnx. destruct (f_call f); try discriminate; reflexivity. Qed.

(* next_ref_now under the second lock *)
Lemma run_anext_second s' r w :
  f_phase f = Ph2Granted ->
  run_body veq heq vdefault true s id (ANext k) true = (s', r, w) ->
  Inv s' /\ Ref sv s' (ANext k) r.
Proof.
  intros Hp H.
  assert (Hnd : f_phase f <> PhDone) by congruence.
  destruct (frame_sub s sv id f Eo Es Eg Hf HInv _ Hk Hnd) as (ov & Hov & Hle).
  unfold run_body in H. rewrite Hov in H. cbn [mark_notified] in H.
  match type of H with context [release_permits ?a ?b] => destruct (release_permits a b) as [s3 granted] eqn:E end.
  inversion H; subst; clear H.
  eapply (finish_plain s sv id f) in E; eauto.
  2:{ apply pinv_subs_set; auto. }
  2:{ unfold held_fut. rewrite Hp. reflexivity. }
  destruct E as (A & B & C). split; auto.
  unfold Ref. cbn [sync_op conv]. rewrite <- Eo. pose proof HInv as [HIv _]. eapply abs_poll_ready.
  - rewrite Eo. apply (pi_owners _ _ _ _ _ HI).
  - rewrite Eo. eauto.
  - left. apply in_p2_true. exists id, f. split; auto. rewrite (p2key_next' f k); auto. rewrite Hp. reflexivity.
  - rewrite B, Eo. reflexivity.
  - rewrite C. eapply in_p2_set_leave; eauto. rewrite (p2key_next f k); auto.
  - intros. rewrite C. eapply in_p2_set_other; eauto.
    + rewrite (p2key_next' f k); auto. rewrite Hp. congruence.
    + rewrite (p2key_next f k); auto. congruence.
Qed.

Lemma run_anext_first s' r w :
  f_phase f = PhGranted ->
  run_body veq heq vdefault true s id (ANext k) false = (s', r, w) ->
  Inv s' /\ Ref sv s' (ANext k) r.
Proof.
  intros Hp H.
  assert (Hnd : f_phase f <> PhDone) by congruence.
  destruct (frame_sub s sv id f Eo Es Eg Hf HInv _ Hk Hnd) as (ov & Hov & Hle).
  unfold run_body in H. rewrite Hov, (frame_ver s sv Eo Es Eg HInv) in H.
  destruct (Nat.ltb_spec ov (ver (a_obs s))).
  2:{ match type of H with context [release_permits ?a ?b] => destruct (release_permits a b) as [s3 granted] eqn:E end.
      inversion H; subst; clear H.
      assert (ov = ver (a_obs s)) by lia. subst ov.
      eapply (run_pend s sv id f Eo Es Eg Hvr Hf HInv k) in E; auto using next_need. }
  set (o' := with_subs (a_obs s) (set_nth k (Some (ver (a_obs s))) (subs (a_obs s)))) in *.
  match type of H with context [release_permits ?a ?b] => destruct (release_permits a b) as [s3 granted] eqn:E end.
  destruct (sem_acquire (a_sem s3) id 1) as [sm ok] eqn:Ea.
  cbn [a_obs a_sem a_futs a_guards] in H.
  assert (HIa : PInv o' (s_free (a_sem s)) (s_queue (a_sem s)) (a_futs sv) (a_guards s)) by (apply pinv_subs_set; auto).
  eapply (drop_ok o' (a_sem s) (a_guards s) id f PhNotified 1) in E; eauto.
  2:{ unfold held_fut. rewrite Hp. apply next_need. }
  destruct E as (A & B & C & D & E & Fp & Gn). cbn [a_futs] in E.
  set (Fv3 := mg_futs (set_ph id PhNotified (a_futs sv)) granted) in *.
  assert (Hvr3 : vrel id (a_futs s3) Fv3). { rewrite E. apply vrel_mg; auto. apply vrel_set_r; auto. }
  set (f3 := app_ph (fun _ => PhNotified) f).
  assert (Hf3 : nth_error Fv3 id = Some f3).
  { unfold Fv3. rewrite nth_error_mg_notin by auto. apply nth_error_upd_at_eq; auto. }
  pose proof (acquire_inv o' (a_sem s3) Fv3 (a_guards s) id f3 true sm ok A B Hf3 eq_refl (fun _ => Hnx) Ea) as [HIb HFb].
  assert (Hp2s : forall j, in_p2 Fv3 j = in_p2 (a_futs sv) j).
  { intro j. rewrite (in_p2_map _ _ j Fp). eapply in_p2_set_other; eauto.
    - rewrite (p2key_next' f k); auto. rewrite Hp. congruence.
    - rewrite (p2key_next f k); auto. congruence. }
  assert (Hovv : nth_error (subs (a_obs sv)) k = Some (Some ov)) by (rewrite Eo; auto).
  assert (Hltv : ov < ver (a_obs sv)) by (rewrite Eo; auto).
  destruct ok.
  - (* granted at once: the second half runs in the same poll *)
    match type of H with context [release_permits ?a ?b] => destruct (release_permits a b) as [s6 granted2] eqn:E6 end.
    inversion H; subst; clear H.
    rewrite C, D in E6.
    set (o5 := with_subs o' (set_nth k (Some (ver o')) (subs o'))) in *.
    assert (HI5 : PInv o5 (s_free sm) (s_queue sm) (set_ph id Ph2Granted Fv3) (a_guards s)) by (apply pinv_subs_set; auto).
    eapply (drop_ok o5 sm (a_guards s) id (app_ph (fun _ => Ph2Granted) f3) PhDone 1) in E6; eauto.
    2:{ unfold set_ph. apply nth_error_upd_at_eq. auto. }
    2:{ rewrite upd_fut_obs. reflexivity. }
    2:{ rewrite upd_fut_sem. reflexivity. }
    2:{ rewrite upd_fut_guards. reflexivity. }
    destruct E6 as (A6 & B6 & C6 & D6 & E6 & Fp6 & Gn6).
    rewrite upd_fut_futs in E6. cbn [a_futs] in E6. rewrite (Hvr3 PhDone) in E6.
    unfold set_ph in A6, Fp6. rewrite upd_at_upd_at in A6, Fp6.
    fold (set_ph id PhDone Fv3) in A6, Fp6, E6.
    split.
    + unfold Inv. rewrite C6, D6, E6. auto.
    + unfold Ref. cbn [sync_op conv]. rewrite C. replace (val o') with (val (a_obs sv)) by (rewrite Eo; reflexivity).
      eapply abs_poll_ready; eauto.
      * rewrite Eo. apply (pi_owners _ _ _ _ _ HI).
      * rewrite C6. unfold o5, o'. cbn [with_subs ver subs]. rewrite set_nth_set_nth, Eo. reflexivity.
      * rewrite E6, (in_p2_map _ _ k Fp6).
        apply (in_p2_set_leave _ _ _ _ _ id f3 PhDone k A Hf3).
        -- exact Hk.
        -- unfold f3. cbn. congruence.
        -- change (p2key (app_ph (fun _ => PhDone) f) = None). rewrite (p2key_next f k); auto.
      * intros j Hj. rewrite E6, (in_p2_map _ _ j Fp6), <- Hp2s. eapply in_p2_set_other; eauto.
        -- unfold f3. rewrite (p2key_next f k); auto. congruence.
        -- unfold f3. unfold app_ph at 1. cbn [f_call f_phase]. 
           change (p2key (app_ph (fun _ => PhDone) f) <> Some j). rewrite (p2key_next f k); auto. congruence.
  - (* queued for the second lock *)
    inversion H; subst; clear H.
    split.
    + unfold Inv. rewrite upd_fut_obs, upd_fut_sem, upd_fut_guards, upd_fut_futs. cbn [a_obs a_sem a_futs a_guards].
      rewrite C, D, (Hvr3 Ph2Queued). auto.
    + unfold Ref. eapply abs_same_enter; eauto.
      * rewrite upd_fut_obs. cbn [a_obs]. rewrite C, Eo. reflexivity.
      * rewrite upd_fut_futs. cbn [a_futs]. rewrite (Hvr3 Ph2Queued). eapply in_p2_set_enter; eauto.
        unfold f3. change (p2key (app_ph (fun _ => Ph2Queued) f) = Some k). rewrite (p2key_next f k); auto.
      * intros j Hj. rewrite upd_fut_futs. cbn [a_futs]. rewrite (Hvr3 Ph2Queued), <- Hp2s.
        eapply in_p2_set_other; eauto.
        -- unfold f3. rewrite (p2key_next f k); auto. congruence.
        -- unfold f3. change (p2key (app_ph (fun _ => Ph2Queued) f) <> Some j). rewrite (p2key_next f k); auto. congruence.
Qed.
End Frame2.

Lemma run_body_ok (s sv : astate) id f (second : bool) s' r w :
  a_obs sv = a_obs s -> a_sem sv = a_sem s -> a_guards sv = a_guards s ->
  vrel id (a_futs s) (a_futs sv) -> nth_error (a_futs sv) id = Some f -> Inv sv ->
  f_phase f = (if second then Ph2Granted else PhGranted) ->
  run_body veq heq vdefault true s id (f_call f) second = (s', r, w) ->
  Inv s' /\ Ref sv s' (f_call f) r.
Proof.
  intros Eo Es Eg Hvr Hf HInv Hp H.
  pose proof HInv as [HIv _].
  destruct (pi_fut _ _ _ _ _ HIv _ _ Hf) as (_ & Hskip & Hph).
  assert (H2 : second = true -> is_next (f_call f) = true).
  { intro; subst second. rewrite Hp in Hph. auto. }
  destruct (f_call f) eqn:Ec.
  - destruct second; [specialize (H2 eq_refl); discriminate|]. eapply run_aset; eauto.
  - destruct second; [specialize (H2 eq_refl); discriminate|]. eapply run_aupd; eauto.
  - destruct second; [specialize (H2 eq_refl); discriminate|]. eapply run_aget; eauto.
  - destruct second; [specialize (H2 eq_refl); discriminate|]. eapply run_asubscribe; eauto.
  - destruct second; [specialize (H2 eq_refl); discriminate|]. eapply run_awrite; eauto.
  - destruct second; [specialize (H2 eq_refl); discriminate|]. eapply run_aread; eauto.
  - destruct second; [specialize (H2 eq_refl); discriminate|]. eapply run_anextnow; eauto.
  - assert (Hk : call_sub (f_call f) = Some k) by (rewrite Ec; reflexivity).
    assert (Hnx : is_next (f_call f) = true) by (rewrite Ec; reflexivity).
    destruct second; [eapply run_anext_second | eapply run_anext_first]; eauto.
  - assert (Hk : call_sub (f_call f) = Some k) by (rewrite Ec; reflexivity).
    assert (Hnx : is_next (f_call f) = true) by (rewrite Ec; reflexivity).
    rewrite run_anextref_eq in H. change (Ref sv s' (ANextRef k) r) with (Ref sv s' (ANext k) r).
    destruct second; [eapply run_anext_second | eapply run_anext_first]; eauto.
  - destruct second; [specialize (H2 eq_refl); discriminate|]. eapply run_astream; eauto.
  - specialize (Hskip eq_refl). destruct second; congruence.
Qed.

Definition RefD (s s' : astate) (d : option (acall * out V)) : Prop :=
  match d with
  | Some (c, r) => match sync_op c with
                   | Some x => sstep veq heq vdefault (abs s) x = Some (abs s', conv c r)
                   | None => abs s' = abs s
                   end
  | None => abs s' = abs s
  end.

Lemma RefD_Ref s s' c r : Ref s s' c r -> RefD s s' (option_map (pair c) r).
Proof. destruct r; auto. Qed.

Lemma Ref_abs_eq sv s s' c r : abs sv = abs s -> Ref sv s' c r -> Ref s s' c r.
Proof. unfold Ref. intros ->. auto. Qed.

Lemma p2key_idle (f : fut) X :
  (X = PhGranted \/ X = PhQueued \/ X = PhNotified \/ X = PhDone \/ X = PhNotify) -> p2key (app_ph (fun _ => X) f) = None.
Proof. unfold p2key, app_ph. cbn. intros [->|[->|[->|[->| ->]]]]; destruct (f_call f); reflexivity. Qed.

Lemma p2key_idle' (f : fut) :
  (f_phase f = PhGranted \/ f_phase f = PhQueued \/ f_phase f = PhNotified \/ f_phase f = PhDone \/ f_phase f = PhNotify) -> p2key f = None.
Proof. unfold p2key. intros [->|[->|[->|[->| ->]]]]; destruct (f_call f); reflexivity. Qed.

Lemma in_p2_idle (F : list fut) id f X j :
  nth_error F id = Some f -> p2key f = None -> p2key (app_ph (fun _ => X) f) = None ->
  in_p2 (set_ph id X F) j = in_p2 F j.
Proof. intros. eapply in_p2_set_other; eauto; congruence. Qed.

Lemma in_p2_snoc (F : list fut) x j : p2key x = None -> in_p2 (F ++ [x]) j = in_p2 F j.
Proof. intro H. unfold in_p2. rewrite existsb_app. cbn. rewrite H. rewrite !orb_false_r. reflexivity. Qed.

Lemma set_ph_snoc (F : list fut) c p Z :
  set_ph (length F) Z (F ++ [{| f_call := c; f_phase := p |}]) = F ++ [{| f_call := c; f_phase := Z |}].
Proof.
  apply nth_error_ext. intro j. unfold set_ph. rewrite nth_error_upd_at.
  destruct (Nat.eqb_spec j (length F)).
  - subst. rewrite !nth_error_snoc_eq. reflexivity.
  - destruct (Nat.lt_ge_cases j (length F)).
    + rewrite !nth_error_app1 by auto. reflexivity.
    + rewrite !nth_error_app2 by auto. destruct (j - length F) eqn:E; [lia|]. cbn. destruct n0; reflexivity.
Qed.

Lemma sub_busy_false (s : astate) k j fj :
  sub_busy s k = false -> nth_error (a_futs s) j = Some fj -> call_sub (f_call fj) = Some k -> f_phase fj = PhDone.
Proof.
  unfold sub_busy. intros H Hj Hk.
  destruct (f_phase fj) eqn:Ep; auto; exfalso;
  (assert (existsb (fun f : fut => match call_sub (f_call f), f_phase f with
                    | Some _, PhDone => false
                    | Some k', _ => k' =? k
                    | None, _ => false
                    end) (a_futs s) = true);
   [ apply existsb_exists; exists fj; split; [eapply nth_error_In; eauto | rewrite Hk, Ep; apply Nat.eqb_refl]
   | congruence ]).
Qed.
End Run1.

Section Run2.
Context {V : Type}.
Variable veq : V -> V -> bool.
Variable heq : V -> V -> bool.
Variable vdefault : V.
Notation fut := (@fut V).
Notation astate := (astate V).
Notation acall := (acall V).

Lemma Inv_eta (s : astate) :
  Inv {| a_obs := a_obs s; a_sem := a_sem s; a_futs := a_futs s; a_guards := a_guards s |} <-> Inv s.
Proof. unfold Inv. cbn. tauto. Qed.

Lemma abs_idle_change (s s' : astate) id f X :
  a_obs s' = a_obs s -> nth_error (a_futs s) id = Some f -> a_futs s' = set_ph id X (a_futs s) ->
  p2key f = None -> p2key (app_ph (fun _ => X) f) = None -> abs s' = abs s.
Proof.
  intros Eo Hf Ef H1 H2. apply abs_same; rewrite ?Eo; auto.
  intro j. rewrite Ef. eapply in_p2_idle; eauto.
Qed.

Lemma a_poll_ok (s : astate) id f s' r w :
  Inv s -> nth_error (a_futs s) id = Some f ->
  a_poll veq heq vdefault true s id = (s', r, w) ->
  Inv s' /\ Ref veq heq vdefault s s' (f_call f) r.
Proof.
  intros HInv Hf H. unfold a_poll in H. rewrite Hf in H.
  assert (Hsame : (s, @None (out V), @nil nat) = (s', r, w) -> Inv s' /\ Ref veq heq vdefault s s' (f_call f) r).
  { intro E. inversion E; subst. split; auto. reflexivity. }
  destruct (f_phase f) eqn:Ep; auto.
  - (* PhGranted *)
    eapply (run_body_ok veq heq vdefault s s id f false); eauto. apply vrel_refl.
  - (* PhNotified *)
    destruct (sem_acquire (a_sem s) id (need_of (f_call f))) as [sm ok] eqn:Ea.
    pose proof HInv as [HI HF].
    destruct (acquire_inv _ _ _ _ id f false sm ok HI HF Hf Ep (fun E => match Bool.diff_false_true E with end) Ea) as [HIb HFb].
    destruct ok.
    + set (sv := {| a_obs := a_obs s; a_sem := sm; a_futs := set_ph id PhGranted (a_futs s); a_guards := a_guards s |}).
      assert (HIv : Inv sv) by (split; auto).
      assert (Habs : abs sv = abs s).
      { eapply (abs_idle_change s sv id f PhGranted); eauto.
        - apply p2key_idle'. auto.
        - apply p2key_idle. auto. }
      eapply (run_body_ok veq heq vdefault _ sv id (app_ph (fun _ => PhGranted) f) false) in H; eauto.
      * destruct H as [A B]. split; auto. eapply Ref_abs_eq; eauto.
      * cbn. apply vrel_set.
      * cbn. unfold set_ph. apply nth_error_upd_at_eq. auto.
    + inversion H; subst; clear H. split.
      * unfold Inv. rewrite upd_fut_obs, upd_fut_sem, upd_fut_guards, upd_fut_futs. cbn. auto.
      * unfold Ref. eapply (abs_idle_change s _ id f PhQueued); eauto.
        -- rewrite upd_fut_obs. reflexivity.
        -- rewrite upd_fut_futs. reflexivity.
        -- apply p2key_idle'. auto.
        -- apply p2key_idle. auto.
  - (* Ph2Granted *)
    eapply (run_body_ok veq heq vdefault s s id f true); eauto. apply vrel_refl.
Qed.

Lemma call_possible_snoc (s : astate) c :
  Inv s -> call_possible s c = true ->
  c <> ASkip /\ call_wf c /\
  forall k, call_sub c = Some k ->
     k < length (subs (a_obs s)) /\
     forall j fj, nth_error (a_futs s) j = Some fj -> call_sub (f_call fj) = Some k -> f_phase fj = PhDone.
Proof.
  intros HInv H. unfold call_possible in H. split; [|split].
  - intro; subst. discriminate.
  - destruct c; cbn; auto.
  - intros k Hk. rewrite Hk in H.
    destruct (nth_error (subs (a_obs s)) k) as [[ov|]|] eqn:E; try discriminate.
    split. apply nth_error_Some. congruence.
    intros j fj Hj Hc. apply (sub_busy_false s k j fj); auto. destruct (sub_busy s k); auto; discriminate.
Qed.

Lemma a_start_ok (s : astate) c s' id r w :
  Inv s -> call_possible s c = true ->
  a_start veq heq vdefault true s c = (s', id, r, w) ->
  Inv s' /\ Ref veq heq vdefault s s' c r.
Proof.
  intros HInv Hposs H. destruct (call_possible_snoc s c HInv Hposs) as (Hns & Hwf & Hsub).
  pose proof HInv as [HI HF].
  assert (HI0 : PInv (a_obs s) (s_free (a_sem s)) (s_queue (a_sem s))
                  (a_futs s ++ [{| f_call := c; f_phase := PhNotified |}]) (a_guards s ++ [GNone])).
  { apply pinv_snoc; [exact HI | left; reflexivity | intro; congruence | intros k Hk _; auto | exact Hwf]. }
  unfold a_start in H. cbn [a_obs a_sem a_futs a_guards] in H.
  destruct (sem_acquire (a_sem s) (length (a_futs s)) (need_of c)) as [sm ok] eqn:Ea.
  set (f0 := {| f_call := c; f_phase := PhNotified |} : fut) in *.
  assert (Hf0 : nth_error (a_futs s ++ [f0]) (length (a_futs s)) = Some f0) by apply nth_error_snoc_eq.
  destruct (acquire_inv _ _ _ _ (length (a_futs s)) f0 false sm ok HI0 HF Hf0 eq_refl
              (fun E => match Bool.diff_false_true E with end) Ea) as [HIb HFb].
  unfold f0 in HIb. rewrite set_ph_snoc in HIb.
  destruct ok.
  - destruct (run_body _ _ _ _ _ _ _ _) as [[s2 r2] w2] eqn:Eb. inversion H; subst; clear H.
    set (sv := {| a_obs := a_obs s; a_sem := sm; a_futs := a_futs s ++ [{| f_call := c; f_phase := PhGranted |}];
                  a_guards := a_guards s ++ [GNone] |}).
    assert (HIv : Inv sv) by (split; auto).
    assert (Habs : abs sv = abs s).
    { apply abs_same; auto. intro j. cbn. apply in_p2_snoc. unfold p2key. cbn. destruct c; reflexivity. }
    eapply (run_body_ok veq heq vdefault _ sv (length (a_futs s)) {| f_call := c; f_phase := PhGranted |} false) in Eb; eauto.
    + destruct Eb as [A B]. split; auto. eapply Ref_abs_eq; eauto.
    + cbn. intro Z. rewrite !set_ph_snoc. reflexivity.
    + cbn. apply nth_error_snoc_eq.
  - inversion H; subst; clear H. split.
    + split; auto.
    + unfold Ref. apply abs_same; auto. intro j. cbn. apply in_p2_snoc. unfold p2key. cbn. destruct c; reflexivity.
Qed.

Lemma a_pad_ok (s : astate) : Inv s -> Inv (a_pad s) /\ abs (a_pad s) = abs s.
Proof.
  intros [HI HF]. split.
  - split; auto. cbn. apply pinv_snoc; [exact HI | right; reflexivity | reflexivity | intros k Hk; discriminate | exact I].
  - apply abs_same; auto. intro j. cbn. apply in_p2_snoc. reflexivity.
Qed.

Lemma a_drop_guard_ok (s : astate) id s' w :
  Inv s -> a_drop_guard s id = (s', w) -> Inv s' /\ abs s' = abs s.
Proof.
  intros HInv H. pose proof HInv as [HI HF]. unfold a_drop_guard in H.
  destruct (nth_error (a_guards s) id) as [g|] eqn:Eg.
  2:{ inversion H; subst. auto. }
  assert (Hrel : forall n, n = held_guard g ->
     release_permits {| a_obs := a_obs s; a_sem := a_sem s; a_futs := a_futs s;
                        a_guards := set_nth id GNone (a_guards s) |} n = (s', w) -> Inv s' /\ abs s' = abs s).
  { intros n -> E. apply release_permits_eq in E. cbn [a_obs a_sem a_futs a_guards] in E.
    destruct E as (E1 & E2 & E3 & E4).
    pose proof (pinv_guard_drop _ _ _ _ _ id g HI Eg) as HI2.
    destruct (release_inv _ _ _ _ _ _ _ HI2 E4) as (A & B & C & D).
    split.
    - unfold Inv. rewrite E1, E2, E3. auto.
    - apply abs_same; rewrite ?E1; auto. intro j. rewrite E3. apply in_p2_map. auto. }
  destruct g.
  - inversion H; subst. auto.
  - apply (Hrel maxp); auto.
  - apply (Hrel 1); auto.
Qed.

Lemma a_guard_set_ok (s : astate) id v s' r w :
  Inv s -> a_guard_set veq heq vdefault s id v = (s', r, w) ->
  Inv s' /\ Ref veq heq vdefault s s' (ASet v) r.
Proof.
  intros HInv H. pose proof HInv as [HI HF]. unfold a_guard_set in H.
  assert (Hsame : (s, @None (out V), @nil nat) = (s', r, w) -> Inv s' /\ Ref veq heq vdefault s s' (ASet v) r).
  { intro E. inversion E; subst. split; auto. reflexivity. }
  destruct (nth_error (a_guards s) id) as [[| |]|] eqn:Eg; auto.
  unfold step, notify in H. rewrite (pi_owners _ _ _ _ _ HI) in H. cbn [Nat.eqb] in H.
  inversion H; subst; clear H. split.
  - unfold Inv. rewrite mark_notified_obs, mark_notified_sem, mark_notified_guards, mark_notified_futs.
    cbn [a_obs a_sem a_futs a_guards]. split; auto. apply pinv_notify. auto.
  - unfold Ref. cbn [sync_op conv]. eapply abs_wset.
    + apply (pi_owners _ _ _ _ _ HI).
    + apply (pi_subs _ _ _ _ _ HI).
    + rewrite mark_notified_obs. reflexivity.
Qed.

Lemma a_step_ok (s : astate) e s' d w :
  Inv s -> a_step veq heq vdefault true s e = (s', d, w) ->
  Inv s' /\ RefD veq heq vdefault s s' d.
Proof.
  intros HInv H. unfold a_step in H. destruct e as [c|id|id|id v].
  - destruct (call_possible s c) eqn:Ep.
    + destruct (a_start veq heq vdefault true s c) as [[[s2 id2] r2] w2] eqn:E. inversion H; subst; clear H.
      apply a_start_ok in E; auto. destruct E. split; auto. apply RefD_Ref. auto.
    + inversion H; subst; clear H. apply a_pad_ok. auto.
  - destruct (nth_error (a_futs s) id) as [f|] eqn:Ef.
    + destruct (a_poll veq heq vdefault true s id) as [[s2 r2] w2] eqn:E. inversion H; subst; clear H.
      eapply a_poll_ok in E; eauto. destruct E. split; auto. apply RefD_Ref. auto.
    + inversion H; subst; clear H. split; auto. reflexivity.
  - destruct (a_drop_guard s id) as [s2 w2] eqn:E. inversion H; subst; clear H.
    apply a_drop_guard_ok in E; auto.
  - destruct (a_guard_set veq heq vdefault s id v) as [[s2 r2] w2] eqn:E. inversion H; subst; clear H.
    apply a_guard_set_ok in E; auto. destruct E. split; auto. apply RefD_Ref. auto.
Qed.

Lemma a_init_inv (v : V) n : Inv (a_init v n).
Proof.
  split; [|intros H; exfalso; apply H; reflexivity]. cbn. constructor; cbn; auto.
  - intros k x H. apply nth_error_In in H. apply repeat_spec in H. subst. eauto.
  - intros id f H. destruct id; discriminate.
  - constructor.
  - intros w [].
  - intros w [].
  - intros id [].
  - intros i j fi fj k H. destruct i; discriminate.
  - intros id g H. destruct id; discriminate.
  - intros id f H. destruct id; discriminate.
Qed.

Lemma a_run_inv es : forall (s : astate), Inv s -> Inv (a_run veq heq vdefault true s es).
Proof.
  induction es as [|e es IH]; intros s H; cbn; auto.
  apply IH. destruct (a_step veq heq vdefault true s e) as [[s2 d] w] eqn:E.
  apply a_step_ok in E; auto. cbn. tauto.
Qed.
End Run2.
