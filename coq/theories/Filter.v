(* Filter.v — eyeball-im-util/src/vector/filter.rs (FilterImpl), transcribed handler by handler.
   Generic in f : A -> option B (FilterMap); Filter is the instance
   f x = if p x then Some x else None (filter.rs:400). *)
From EB Require Export Diff.

Section Filter.
Context {A B : Type}.
Variable f : A -> option B.

(* filtered_indices (ascending original indices of the kept items), original_len *)
Record filter_st := { f_idx : list nat; f_len : nat }.

(* VecDeque::partition_point(|&i| i < x).  On a sequence partitioned by the predicate (which
   the ascending invariant gives) std's binary search returns the number of leading elements
   satisfying it; that is what is computed here. *)
Fixpoint partition_point_lt (x : nat) (l : list nat) : nat :=
  match l with
  | [] => 0
  | i :: l' => if i <? x then S (partition_point_lt x l') else 0
  end.

(* filter.rs:173-197 append_filter_map (and 151-171 append_filter): returns mapped values and
   pushes the original indices *)
Fixpoint append_scan (original_idx : nat) (vs : list A) : list B * list nat :=
  match vs with
  | [] => ([], [])
  | v :: vs' =>
      let '(ms, is) := append_scan (S original_idx) vs' in
      match f v with
      | Some m => (m :: ms, original_idx :: is)
      | None => (ms, is)
      end
  end.

Definition filter_append (st : filter_st) (vs : list A) : filter_st * option (list B) :=
  let '(ms, is) := append_scan (f_len st) vs in
  ({| f_idx := f_idx st ++ is; f_len := f_len st + length vs |},
   match ms with [] => None | _ => Some ms end).

(* FilterMap::new, filter.rs:95-111 *)
Definition filter_init (vs : list A) : list B * filter_st :=
  let '(ms, is) := append_scan 0 vs in
  (ms, {| f_idx := is; f_len := length vs |}).

Definition map_from (k : nat) (g : nat -> nat) (l : list nat) : list nat :=
  firstn k l ++ map g (skipn k l).

(* filter.rs:199-393, one handler per diff kind.  Panic = usize underflow / assert *)
Definition filter_on_diff (st : filter_st) (d : diff A) : outcome (filter_st * list (diff B)) :=
  let opt (o : option (diff B)) := match o with Some x => [x] | None => [] end in
  match d with
  | Append vs =>
      let '(st', o) := filter_append st vs in
      Ok (st', opt (option_map Append o))
  | Clear => Ok ({| f_idx := []; f_len := 0 |}, [Clear])
  | PushFront x =>
      let idx := map S (f_idx st) in
      match f x with
      | Some m => Ok ({| f_idx := 0 :: idx; f_len := S (f_len st) |}, [PushFront m])
      | None => Ok ({| f_idx := idx; f_len := S (f_len st) |}, [])
      end
  | PushBack x =>
      match f x with
      | Some m => Ok ({| f_idx := f_idx st ++ [f_len st]; f_len := S (f_len st) |}, [PushBack m])
      | None => Ok ({| f_idx := f_idx st; f_len := S (f_len st) |}, [])
      end
  | PopFront =>
      match csub (f_len st) 1 with
      | None => Panic
      | Some len' =>
          let '(idx, out) := match f_idx st with
                             | 0 :: rest => (rest, [PopFront])
                             | l => (l, [])
                             end in
          (* for idx in filtered_indices { *idx -= 1 } *)
          if existsb (fun i => i =? 0) idx then Panic
          else Ok ({| f_idx := map pred idx; f_len := len' |}, out)
      end
  | PopBack =>
      match csub (f_len st) 1 with
      | None => Panic
      | Some len' =>
          match back (f_idx st) with
          | Some i => if i =? len'
                      then Ok ({| f_idx := removelast (f_idx st); f_len := len' |}, [PopBack])
                      else Ok ({| f_idx := f_idx st; f_len := len' |}, [])
          | None => Ok ({| f_idx := f_idx st; f_len := len' |}, [])
          end
      end
  | Insert i x =>
      let k := partition_point_lt i (f_idx st) in
      let idx := map_from k S (f_idx st) in
      match f x with
      | Some m => Ok ({| f_idx := firstn k idx ++ i :: skipn k idx; f_len := S (f_len st) |}, [Insert k m])
      | None => Ok ({| f_idx := idx; f_len := S (f_len st) |}, [])
      end
  | SetAt i x =>
      let k := partition_point_lt i (f_idx st) in
      let matched := match nth_error (f_idx st) k with Some j => j =? i | None => false end in
      if matched then
        match f x with
        | Some m => Ok (st, [SetAt k m])
        | None => Ok ({| f_idx := firstn k (f_idx st) ++ skipn (S k) (f_idx st); f_len := f_len st |},
                      [Remove k])
        end
      else
        match f x with
        | Some m => Ok ({| f_idx := firstn k (f_idx st) ++ i :: skipn k (f_idx st); f_len := f_len st |},
                        [Insert k m])
        | None => Ok (st, [])
        end
  | Remove i =>
      match csub (f_len st) 1 with
      | None => Panic
      | Some len' =>
          let k := partition_point_lt i (f_idx st) in
          let matched := match nth_error (f_idx st) k with Some j => j =? i | None => false end in
          let '(idx, out) := if matched
                             then (firstn k (f_idx st) ++ skipn (S k) (f_idx st), [Remove k])
                             else (f_idx st, []) in
          if existsb (fun j => j =? 0) (skipn k idx) then Panic
          else Ok ({| f_idx := map_from k pred idx; f_len := len' |}, out)
      end
  | Truncate n =>
      let k := partition_point_lt n (f_idx st) in   (* take_while(idx < len).count() *)
      if k <? length (f_idx st)
      then Ok ({| f_idx := firstn k (f_idx st); f_len := n |}, [Truncate k])
      else Ok ({| f_idx := f_idx st; f_len := n |}, [])
  | Reset vs =>
      let '(st', o) := filter_append {| f_idx := []; f_len := 0 |} vs in
      Ok (st', [Reset (match o with Some ms => ms | None => [] end)])   (* unwrap_or_default *)
  end.

End Filter.
Arguments filter_st : clear implicits.
