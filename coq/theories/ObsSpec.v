(* ObsSpec.v — the readable specification of the observable value, written from the property
   text (C01, C03, C19), independent of versions and wakers:
     cur      the value most recently stored
     owners   live owning handles (the stream has ended iff this is 0)
     unseen_k "a notifying update happened that subscriber k has not observed yet" *)
From EB Require Export Obs.

Section ObsSpec.
Context {V : Type}.
Variable veq : V -> V -> bool.
Variable heq : V -> V -> bool.
Variable vdefault : V.

Record sspec := {
  s_cur : V;
  s_kind : kind;
  s_owners : nat;
  s_weaks : nat;
  s_unseen : list (option bool);     (* None = dropped *)
}.

Definition s_new (k : kind) (v : V) : sspec :=
  {| s_cur := v; s_kind := k; s_owners := 1; s_weaks := 0; s_unseen := [] |}.

Definition s_live (s : sspec) : nat :=
  length (filter (fun u => match u with Some _ => true | None => false end) (s_unseen s)).

Definition s_with (s : sspec) (v : V) (u : list (option bool)) : sspec :=
  {| s_cur := v; s_kind := s_kind s; s_owners := s_owners s; s_weaks := s_weaks s; s_unseen := u |}.
Definition s_handles (s : sspec) (k : kind) (ow we : nat) : sspec :=
  {| s_cur := s_cur s; s_kind := k; s_owners := ow; s_weaks := we; s_unseen := s_unseen s |}.

(* a notifying update: store, and every subscriber has something new to see *)
Definition s_notify (s : sspec) (v : V) : sspec :=
  s_with s v (map (option_map (fun _ => true)) (s_unseen s)).

Definition sstep (s : sspec) (x : op V) : option (sspec * out V) :=
  let need_owner (r : option (sspec * out V)) := if s_owners s =? 0 then None else r in
  let with_sub k (f : bool -> option (sspec * out V)) :=
    match nth_error (s_unseen s) k with Some (Some u) => f u | _ => None end in
  match x with
  | WSet v => need_owner (Some (s_notify s v, OVal (s_cur s)))
  | WTake => need_owner (Some (s_notify s vdefault, OVal (s_cur s)))
  | WSetIfNotEq v =>
      need_owner (if veq (s_cur s) v then Some (s, OOpt None) else Some (s_notify s v, OOpt (Some (s_cur s))))
  | WSetIfHashNotEq v =>
      need_owner (if heq (s_cur s) v then Some (s, OOpt None) else Some (s_notify s v, OOpt (Some (s_cur s))))
  | WUpdate v => need_owner (Some (s_notify s v, OUnit))
  | WUpdateIf v b => need_owner (if b then Some (s_notify s v, OUnit) else Some (s_with s v (s_unseen s), OUnit))
  | WGet => need_owner (Some (s, OVal (s_cur s)))
  | WSubscribe => need_owner (Some (s_with s (s_cur s) (s_unseen s ++ [Some false]), OSubId (length (s_unseen s))))
  | WSubscribeReset => need_owner (Some (s_with s (s_cur s) (s_unseen s ++ [Some true]), OSubId (length (s_unseen s))))
  | SPoll k =>
      with_sub k (fun u =>
        if s_owners s =? 0 then Some (s, OPollR (Ready None))
        else if u then Some (s_with s (s_cur s) (set_nth k (Some false) (s_unseen s)), OPollR (Ready (Some (s_cur s))))
        else Some (s, OPollR Pending))
  | SNextNow k => with_sub k (fun _ => Some (s_with s (s_cur s) (set_nth k (Some false) (s_unseen s)), OVal (s_cur s)))
  | SGet k => with_sub k (fun _ => Some (s, OVal (s_cur s)))
  | SReset k => with_sub k (fun _ => Some (s_with s (s_cur s) (set_nth k (Some true) (s_unseen s)), OUnit))
  | SClone k => with_sub k (fun u => Some (s_with s (s_cur s) (s_unseen s ++ [Some u]), OSubId (length (s_unseen s))))
  | SCloneReset k => with_sub k (fun _ => Some (s_with s (s_cur s) (s_unseen s ++ [Some true]), OSubId (length (s_unseen s))))
  | SDrop k => with_sub k (fun _ => Some (s_with s (s_cur s) (set_nth k None (s_unseen s)), OUnit))
  | HClone => match s_kind s with Unique => None | Shared => need_owner (Some (s_handles s Shared (S (s_owners s)) (s_weaks s), OUnit)) end
  | HDropOwner => need_owner (Some (s_handles s (s_kind s) (s_owners s - 1) (s_weaks s), OUnit))
  | HDowngrade => match s_kind s with Unique => None | Shared => need_owner (Some (s_handles s Shared (s_owners s) (S (s_weaks s)), OUnit)) end
  | HUpgrade =>
      if s_weaks s =? 0 then None
      else if s_owners s =? 0 then Some (s, OBool false)
      else Some (s_handles s (s_kind s) (S (s_owners s)) (s_weaks s), OBool true)
  | HDropWeak => if s_weaks s =? 0 then None else Some (s_handles s (s_kind s) (s_owners s) (s_weaks s - 1), OUnit)
  | HCloneWeak => if s_weaks s =? 0 then None else Some (s_handles s (s_kind s) (s_owners s) (S (s_weaks s)), OUnit)
  | HIntoShared => match s_kind s with Shared => None | Unique => need_owner (Some (s_handles s Shared 1 (s_weaks s), OUnit)) end
  | HCounts => need_owner (Some (s, OCounts (s_owners s) (s_live s) (s_owners s + s_live s) (s_weaks s)))
  end.

(* the implementation state [o] stands for the specification state [s] *)
Definition sim (o : obs V) (s : sspec) : Prop :=
  s_cur s = val o /\ s_kind s = okind o /\ s_owners s = owners o /\ s_weaks s = weaks o /\
  length (s_unseen s) = length (subs o) /\
  (forall k, (nth_error (subs o) k = Some None <-> nth_error (s_unseen s) k = Some None)) /\
  (* while the stream has not ended: unseen_k  <=>  observed_k < version *)
  (owners o <> 0 -> forall k ov, nth_error (subs o) k = Some (Some ov) ->
                                 nth_error (s_unseen s) k = Some (Some (ov <? ver o))).

(* invariant of reachable implementation states *)
Definition oinv (o : obs V) : Prop :=
  (ver o = 0 <-> owners o = 0) /\
  (forall k ov, nth_error (subs o) k = Some (Some ov) -> ver o <> 0 -> ov <= ver o) /\
  (okind o = Unique -> owners o <= 1 /\ weaks o = 0).

End ObsSpec.
Arguments sspec : clear implicits.
