(* ObsConcLin.v — C04, whole schedules: the concurrent run of any schedule of value operations is a
   sequential run of the operation-granularity model (Obs.step), in the order of the linearization
   points, with the same results and the same wakers woken.  (ObsConcFacts.lin_step is the one-step
   version; this file composes it over [release] - one released micro-step plus the cascade of
   previously blocked threads it unblocks - and over [run_sched].) *)
From EB Require Import Obs ObsConc ObsConcAux ObsConcFacts.

Section Lin.
Context {V : Type}.
Variables (veq heq : V -> V -> bool) (vdefault : V).

(* a linearization event: thread t's operation takes effect *)
Record lev := { le_thread : nat; le_op : cop V }.

(* the event (if any) of the micro-step thread t is about to take in s *)
Definition step_events (s : cstate V) (t : nat) : list lev :=
  match nth_error (c_threads s) t with
  | Some th => if is_lin (t_op th) (t_pc th) then [{| le_thread := t; le_op := t_op th |}] else []
  | None => []
  end.

(* mirrors ObsConc.wake_blocked, collecting the events of the threads that go on *)
Fixpoint wake_blocked_ev (fuel : nat) (s : cstate V) (ids : list nat) : list lev :=
  match fuel with
  | 0 => []
  | S f =>
      match ids with
      | [] => []
      | t :: rest =>
          match nth_error (c_threads s) t with
          | Some th =>
              if t_waiting th then
                match cstep true s t with
                | Advanced s' => step_events s t ++ wake_blocked_ev f (mark_waiting s' t false) rest
                | _ => wake_blocked_ev f s rest
                end
              else wake_blocked_ev f s rest
          | None => wake_blocked_ev f s rest
          end
      end
  end.

Definition release_ev (s : cstate V) (t : nat) : list lev :=
  match cstep true s t with
  | Advanced s' =>
      step_events s t ++ wake_blocked_ev (length (c_threads s)) s' (seq 0 (length (c_threads s)))
  | _ => []
  end.

Fixpoint sched_events (s : cstate V) (sched : list nat) : list lev :=
  match sched with
  | [] => []
  | t :: rest => release_ev s t ++ sched_events (fst (fst (release true s t))) rest
  end.

(* the sequential model run over a list of operations, collecting results and woken wakers *)
Fixpoint seq_run (o : obs V) (xs : list (Obs.op V)) : option (obs V * list (Obs.out V) * list nat) :=
  match xs with
  | [] => Some (o, [], [])
  | x :: r =>
      match Obs.step veq heq vdefault o x with
      | Panic => None
      | Ok (o', out, w) =>
          match seq_run o' r with
          | None => None
          | Some (o'', outs, ws) => Some (o'', out :: outs, w ++ ws)
          end
      end
  end.

(* what a thread reports, against the sequential result at its linearization point *)
Definition reports (th : thread V) (out : Obs.out V) : Prop :=
  match t_op th, t_pc th with
  | CPoll _, PPollDecided pr => out = OPollR pr
  | CPoll _, PDone (Some pr) _ _ => out = OPollR pr
  | (CSet _ | CGet), PDone _ (Some pv) _ => out = OVal pv
  | _, _ => True
  end.

(* ---------------- auxiliary lemmas ---------------- *)

Lemma seq_run_app o xs ys o1 outs1 w1 o2 outs2 w2 :
  seq_run o xs = Some (o1, outs1, w1) ->
  seq_run o1 ys = Some (o2, outs2, w2) ->
  seq_run o (xs ++ ys) = Some (o2, outs1 ++ outs2, w1 ++ w2).
Proof.
  revert o o1 outs1 w1. induction xs as [|x xs IH]; intros o o1 outs1 w1 H1 H2.
  - cbn [seq_run] in H1. injection H1 as <- <- <-. exact H2.
  - cbn [seq_run app] in *.
    destruct (Obs.step veq heq vdefault o x) as [[[o' out] w]|]; [|discriminate H1].
    destruct (seq_run o' xs) as [[[o'' outs] ws]|] eqn:E; [|discriminate H1].
    injection H1 as <- <- <-. rewrite (IH _ _ _ _ E H2). now rewrite app_assoc.
Qed.

Lemma seq_run_length xs : forall o o' outs w,
  seq_run o xs = Some (o', outs, w) -> length outs = length xs.
Proof.
  induction xs as [|x xs IH]; intros o o' outs w H; cbn [seq_run] in H.
  - injection H as <- <- <-. reflexivity.
  - destruct (Obs.step veq heq vdefault o x) as [[[o1 out] w1]|]; [|discriminate H].
    destruct (seq_run o1 xs) as [[[o2 outs2] ws]|] eqn:E; [|discriminate H].
    injection H as <- <- <-. cbn [length]. f_equal. eapply IH; eauto.
Qed.

Lemma NoDup_snoc {X} (l : list X) x : NoDup l -> ~ In x l -> NoDup (l ++ [x]).
Proof.
  induction l as [|y l IH]; intros Hnd Hnin; cbn [app].
  - constructor; [intros []|constructor].
  - inversion Hnd as [|y' l' Hy Hl]; subst. constructor.
    + rewrite in_app_iff. intros [Hin|[->|[]]]; [auto|]. apply Hnin. now left.
    + apply IH; auto. intros Hin. apply Hnin. now right.
Qed.

Lemma reports_ext (th th' : thread V) out :
  t_op th' = t_op th -> t_pc th' = t_pc th -> reports th out -> reports th' out.
Proof. unfold reports. intros -> ->. auto. Qed.

(* a step keeps the number of threads: the stepping thread exists before and after *)
Lemma cstep_nth (s : cstate V) t s' : cstep true s t = Advanced s' ->
  exists th th', nth_error (c_threads s) t = Some th /\ nth_error (c_threads s') t = Some th'.
Proof.
  intros H. pose proof (cstep_ops _ _ _ _ H) as Hops.
  assert (Hlen : length (c_threads s') = length (c_threads s)).
  { rewrite <- (map_length (@t_op V) (c_threads s')), Hops. apply map_length. }
  destruct (nth_error (c_threads s) t) as [th|] eqn:E.
  - destruct (nth_error (c_threads s') t) as [th'|] eqn:E'; [eauto|].
    apply nth_error_None in E'.
    assert (Hlt : t < length (c_threads s)) by (apply nth_error_Some; congruence). lia.
  - unfold cstep in H. rewrite E in H. discriminate H.
Qed.

(* value operations never decrease the number of clones nor change the number of subscribers *)
Lemma cstep_keeps (s : cstate V) t s' :
  value_ops (map (@t_op V) (c_threads s)) -> cstep true s t = Advanced s' ->
  c_clones s <= c_clones s' /\ length (c_subs s') = length (c_subs s).
Proof.
  intros Hvo H. destruct (cstep_nth _ _ _ H) as (th & th' & Hth & _).
  assert (Hop : match t_op th with CDrop | CUpgrade => False | _ => True end).
  { unfold value_ops in Hvo. rewrite Forall_forall in Hvo. apply Hvo.
    apply in_map. eapply nth_error_In; eauto. }
  cstep_inv H; injection Hth as <-; simpl in Hop; try contradiction; simpl;
    rewrite ?set_nth_length; split; lia.
Qed.

(* once past its linearization point, a thread keeps reporting the same result *)
Lemma reports_step (s : cstate V) t s' th th' out :
  nth_error (c_threads s) t = Some th -> cstep true s t = Advanced s' ->
  nth_error (c_threads s') t = Some th' ->
  past_lin (t_op th) (t_pc th) = true -> reports th out -> reports th' out.
Proof.
  intros Hth H Hth' Hp Hr.
  cstep_inv H; simpl in Hth'; injection Hth as <-;
    erewrite nth_error_set_nth_eq in Hth' by eauto; injection Hth' as <-;
    cbn in Hp; try discriminate Hp; unfold reports in *; cbn in *; auto.
Qed.

Lemma mark_nth (s : cstate V) t w u th' :
  nth_error (c_threads (mark_waiting s t w)) u = Some th' ->
  exists th, nth_error (c_threads s) u = Some th /\ t_op th' = t_op th /\ t_pc th' = t_pc th.
Proof.
  destruct (mark_waiting_cases s t w) as [->|(th & Hth & ->)]; [eauto|].
  cbn [upd_thread c_threads]. intros H. destruct (Nat.eq_dec u t) as [->|Hne].
  - erewrite nth_error_set_nth_eq in H by eauto. injection H as <-. eauto.
  - rewrite nth_error_set_nth_neq in H by auto. eauto.
Qed.

Lemma mark_ops (s : cstate V) t w :
  map (@t_op V) (c_threads (mark_waiting s t w)) = map (@t_op V) (c_threads s).
Proof.
  destruct (mark_waiting_cases s t w) as [->|(th & Hth & ->)]; auto.
  cbn [upd_thread c_threads]. eapply map_set_nth_same; eauto.
Qed.

Lemma abs_obs_mark (s : cstate V) t w : abs_obs (mark_waiting s t w) = abs_obs s.
Proof. unfold abs_obs. mark_rw s t w. reflexivity. Qed.

(* ---------------- the invariant carried along a schedule ---------------- *)
Section Trace.
Variable o0 : obs V.     (* the abstract state the sequential run starts from *)

Record Inv (s : cstate V) (evs : list lev) (outs : list (Obs.out V)) : Prop := {
  iv_ops : value_ops (map (@t_op V) (c_threads s));
  iv_cl : 1 <= c_clones s;
  iv_k : forall t th k, nth_error (c_threads s) t = Some th -> t_op th = CPoll k ->
                        k < length (c_subs s);
  iv_run : seq_run o0 (map (fun e => seq_op (le_op e)) evs) = Some (abs_obs s, outs, c_woken s);
  iv_nd : NoDup (map le_thread evs);
  iv_past : forall t th, nth_error (c_threads s) t = Some th ->
              (past_lin (t_op th) (t_pc th) = true <-> In t (map le_thread evs));
  iv_rep : forall i e out th, nth_error evs i = Some e -> nth_error outs i = Some out ->
              nth_error (c_threads s) (le_thread e) = Some th ->
              t_op th = le_op e /\ reports th out }.

Lemma Inv_mark s t w evs outs : Inv s evs outs -> Inv (mark_waiting s t w) evs outs.
Proof.
  intros [Hvo Hcl Hk Hrun Hnd Hpast Hrep].
  split; rewrite ?mark_ops, ?abs_obs_mark; auto.
  - mark_rw s t w. exact Hcl.
  - intros u thu k Hu Hopu. destruct (mark_nth _ _ _ _ _ Hu) as (th & Hth & Ho & Hp).
    mark_rw s t w. eapply Hk; eauto. congruence.
  - mark_rw s t w. exact Hrun.
  - intros u thu Hu. destruct (mark_nth _ _ _ _ _ Hu) as (th & Hth & Ho & Hp).
    rewrite Ho, Hp. auto.
  - intros i e out thu He Hout Hu. destruct (mark_nth _ _ _ _ _ Hu) as (th & Hth & Ho & Hp).
    destruct (Hrep _ _ _ _ He Hout Hth) as (Hope & Hr).
    split; [congruence|]. eapply reports_ext; eauto.
Qed.

Lemma Inv_step s t s' evs outs :
  Inv s evs outs -> cstep true s t = Advanced s' ->
  exists outs', Inv s' (evs ++ step_events s t) outs'.
Proof.
  intros [Hvo Hcl Hk Hrun Hnd Hpast Hrep] H.
  destruct (cstep_nth _ _ _ H) as (th & th' & Hth & Hth').
  destruct (lin_once _ _ _ _ _ Hth H Hth') as (Hop & Hl1 & Hl0 & Hoth).
  destruct (cstep_keeps _ _ _ Hvo H) as (Hcl' & Hlen).
  pose proof (cstep_ops _ _ _ _ H) as Hops.
  pose proof (lin_step veq heq vdefault _ _ _ _ Hvo Hth H (fun k => Hk t th k Hth) Hcl) as Hlin.
  assert (Hk' : forall u thu k, nth_error (c_threads s') u = Some thu -> t_op thu = CPoll k ->
                                k < length (c_subs s')).
  { intros u thu k Hu Hopu. rewrite Hlen. destruct (Nat.eq_dec u t) as [->|Hne].
    - rewrite Hth' in Hu. injection Hu as <-. apply (Hk t th k Hth). congruence.
    - rewrite (Hoth _ Hne) in Hu. eapply Hk; eauto. }
  unfold step_events. rewrite Hth.
  destruct (is_lin (t_op th) (t_pc th)) eqn:Elin.
  - (* the linearization point of thread t *)
    destruct Hlin as (r & w & Hstep & Hwok & Hres).
    destruct (Hl1 eq_refl) as (Hp0 & Hp1).
    assert (Hnin : ~ In t (map le_thread evs)).
    { intro Hin. apply (Hpast _ _ Hth) in Hin. congruence. }
    pose proof (seq_run_length _ _ _ _ _ Hrun) as Hlen_o. rewrite map_length in Hlen_o.
    exists (outs ++ [r]). split.
    + rewrite Hops. exact Hvo.
    + lia.
    + exact Hk'.
    + rewrite map_app. cbn [map le_op]. rewrite Hwok.
      eapply seq_run_app; [exact Hrun|]. cbn [seq_run]. rewrite Hstep, app_nil_r. reflexivity.
    + rewrite map_app. cbn [map le_thread]. apply NoDup_snoc; auto.
    + intros u thu Hu. rewrite map_app, in_app_iff. cbn [map le_thread In].
      destruct (Nat.eq_dec u t) as [->|Hne].
      * rewrite Hth' in Hu. injection Hu as <-. split; auto.
      * rewrite (Hoth _ Hne) in Hu. rewrite (Hpast _ _ Hu).
        split; [auto|]. intros [Hin|[Heq|[]]]; [auto|congruence].
    + intros i e out th0 He Ho Hn. destruct (Nat.lt_ge_cases i (length evs)) as [Hi|Hi].
      * rewrite nth_error_app1 in He by auto. rewrite nth_error_app1 in Ho by lia.
        assert (Hne : le_thread e <> t).
        { intros Heq. apply Hnin. rewrite <- Heq. apply in_map. eapply nth_error_In; eauto. }
        rewrite (Hoth _ Hne) in Hn. eauto.
      * rewrite nth_error_app2 in He by auto. rewrite nth_error_app2 in Ho by lia.
        rewrite Hlen_o in Ho.
        destruct (i - length evs) as [|j]; cbn [nth_error] in He, Ho;
          [|destruct j; discriminate He].
        injection He as <-. injection Ho as <-. cbn [le_thread le_op] in *.
        rewrite Hth' in Hn. injection Hn as <-. split; [exact Hop|].
        rewrite Hth' in Hres. unfold reports. rewrite Hop.
        destruct (t_op th); try destruct Hres as (pr & -> & ->); auto;
          destruct (t_pc th'); auto.
  - (* any other micro-step *)
    destruct Hlin as (Habs & Hwok). rewrite app_nil_r. exists outs. split.
    + rewrite Hops. exact Hvo.
    + lia.
    + exact Hk'.
    + rewrite Habs, Hwok. exact Hrun.
    + exact Hnd.
    + intros u thu Hu. destruct (Nat.eq_dec u t) as [->|Hne].
      * rewrite Hth' in Hu. injection Hu as <-. rewrite (Hl0 eq_refl). apply Hpast; auto.
      * rewrite (Hoth _ Hne) in Hu. auto.
    + intros i e out th0 He Ho Hn. destruct (Nat.eq_dec (le_thread e) t) as [Et|Hne].
      * rewrite Et, Hth' in Hn. injection Hn as <-.
        assert (Hthe : nth_error (c_threads s) (le_thread e) = Some th) by (rewrite Et; exact Hth).
        destruct (Hrep _ _ _ _ He Ho Hthe) as (Hope & Hr). split; [congruence|].
        apply (reports_step s t s' th th' out Hth H Hth'); [|exact Hr].
        apply (Hpast _ _ Hth). rewrite <- Et. apply in_map. eapply nth_error_In; eauto.
      * rewrite (Hoth _ Hne) in Hn. eauto.
Qed.

Lemma Inv_wake fuel : forall s ids acc evs outs, Inv s evs outs ->
  exists outs', Inv (fst (wake_blocked true fuel s ids acc)) (evs ++ wake_blocked_ev fuel s ids) outs'.
Proof.
  induction fuel as [|f IH]; intros s ids acc evs outs HI; cbn [wake_blocked wake_blocked_ev].
  - cbn [fst]. rewrite app_nil_r. eauto.
  - destruct ids as [|t rest]; [cbn [fst]; rewrite app_nil_r; eauto|].
    destruct (nth_error (c_threads s) t) as [th|]; [|eauto].
    destruct (t_waiting th); [|eauto].
    destruct (cstep true s t) as [s'| |] eqn:E; eauto.
    destruct (Inv_step _ _ _ _ _ HI E) as (outs1 & HI1).
    destruct (IH (mark_waiting s' t false) rest (acc ++ [t]) _ _ (Inv_mark _ t false _ _ HI1))
      as (outs2 & HI2).
    exists outs2. rewrite app_assoc. exact HI2.
Qed.

Lemma Inv_release s t evs outs : Inv s evs outs ->
  exists outs', Inv (fst (fst (release true s t))) (evs ++ release_ev s t) outs'.
Proof.
  intros HI. unfold release, release_ev. destruct (cstep true s t) as [s'| |] eqn:E.
  - destruct (Inv_step _ _ _ _ _ HI E) as (outs1 & HI1).
    destruct (Inv_wake (length (c_threads s)) s' (seq 0 (length (c_threads s))) [] _ _ HI1)
      as (outs2 & HI2).
    destruct (wake_blocked true (length (c_threads s)) s' (seq 0 (length (c_threads s))) [])
      as [s'' unb].
    cbn [fst] in *. exists outs2. rewrite app_assoc. exact HI2.
  - cbn [fst]. rewrite app_nil_r. exists outs. apply Inv_mark; auto.
  - cbn [fst]. rewrite app_nil_r. eauto.
Qed.

Lemma Inv_run sched : forall s evs outs, Inv s evs outs ->
  exists outs', Inv (run_sched true s sched) (evs ++ sched_events s sched) outs'.
Proof.
  induction sched as [|t rest IH]; intros s evs outs HI; cbn [run_sched sched_events].
  - rewrite app_nil_r. eauto.
  - destruct (Inv_release _ t _ _ HI) as (outs1 & HI1).
    destruct (IH _ _ _ HI1) as (outs2 & HI2).
    exists outs2. rewrite app_assoc. exact HI2.
Qed.

End Trace.

Theorem sched_linearizable (v : V) ver clones subs pending ops sched :
  start_ok ver clones subs pending ops ->
  value_ops ops ->
  (forall k, In (CPoll k) ops -> k < length subs) ->
  1 <= clones ->
  let s0 := cinit v ver clones subs pending ops in
  let s := run_sched true s0 sched in
  let evs := sched_events s0 sched in
  exists outs,
    (* the concurrent run IS the sequential run of the operations in linearization order *)
    seq_run (abs_obs s0) (map (fun e => seq_op (le_op e)) evs) = Some (abs_obs s, outs, c_woken s) /\
    (* every operation takes effect at most once; exactly those past their linearization point have *)
    NoDup (map le_thread evs) /\
    (forall t th, nth_error (c_threads s) t = Some th ->
       (past_lin (t_op th) (t_pc th) = true <-> In t (map le_thread evs))) /\
    (* each event is the operation of its thread, and the thread reports the sequential result *)
    (forall i e out th, nth_error evs i = Some e -> nth_error outs i = Some out ->
       nth_error (c_threads s) (le_thread e) = Some th ->
       t_op th = le_op e /\ reports th out).
Proof.
  intros _ Hvo Hk Hcl s0 s evs.
  assert (HI0 : Inv (abs_obs s0) s0 [] []).
  { split.
    - unfold s0, cinit. cbn [c_threads]. rewrite map_map. cbn [t_op]. rewrite map_id. exact Hvo.
    - exact Hcl.
    - intros t th k Hth Hop. unfold s0, cinit in Hth. cbn [c_threads c_subs] in *.
      rewrite nth_error_map in Hth. destruct (nth_error ops t) as [op|] eqn:E; [|discriminate Hth].
      cbn [option_map] in Hth. injection Hth as <-. cbn [t_op] in Hop. subst op.
      apply Hk. eapply nth_error_In; eauto.
    - reflexivity.
    - constructor.
    - intros t th Hth. unfold s0, cinit in Hth. cbn [c_threads] in Hth.
      rewrite nth_error_map in Hth. destruct (nth_error ops t) as [op|]; [|discriminate Hth].
      cbn [option_map] in Hth. injection Hth as <-. cbn [t_op t_pc map In].
      split; [destruct op; discriminate|intros []].
    - intros i e out th He. destruct i; discriminate He. }
  destruct (Inv_run (abs_obs s0) sched s0 [] [] HI0) as (outs & HI).
  cbn [app] in HI. destruct HI as [_ _ _ Hrun Hnd Hpast Hrep].
  exists outs. split; [exact Hrun|]. split; [exact Hnd|]. split; [exact Hpast|exact Hrep].
Qed.

End Lin.

(* non-vacuity: two setters and a poller; the schedule lets set(7) win, then set(9), then the poll *)
Example sched_linearizable_example :
  let s0 := cinit 0 1 2 [1] [] [CSet 7; CSet 9; CPoll 0] in
  let sched := [0; 1; 0; 0; 2; 1; 1; 2; 2; 2; 2] in
  map (fun e => (le_thread e, seq_op (le_op e))) (sched_events s0 sched) <> [] /\
  c_val (run_sched true s0 sched) = 9.
Proof. vm_compute. split; [discriminate|reflexivity]. Qed.

Print Assumptions sched_linearizable.
