(* ObsWakerFacts.v — theorems about the waker-identity tracking of ObsWaker.v *)
From EB Require Import Obs ObsSpec ObsFacts ObsWaker.

Section WakerFacts.
Context {V : Type}.
Variables (veq heq : V -> V -> bool) (vdefault : V).
Local Notation wstep := (wstep veq heq vdefault).
Local Notation wrun := (wrun veq heq vdefault).

(* the tracking is consistent: one identity per entry *)
Theorem winv_step s x wid s' r w : winv s -> wstep s x wid = Ok (s', r, w) -> winv s'.
Proof.
  unfold winv, wstep. intros Hi.
  destruct (step veq heq vdefault (w_obs s) x) as [[[o' r0] w0]|] eqn:E; [|discriminate].
  destruct (step_wakes _ _ _ _ _ _ _ _ E) as [[-> Hw]|[-> [extra Hw]]].
  - destruct (wakers (w_obs s)) as [|a l] eqn:El; intro H; injection H as <- <- <-; cbn [w_obs w_ids].
    + rewrite Hw. cbn [length]. rewrite Nat.sub_0_r, app_length, repeat_length, Hi. reflexivity.
    + rewrite Hw. reflexivity.
  - intro H; injection H as <- <- <-; cbn [w_obs w_ids].
    rewrite Hw, !app_length, repeat_length, Hi. lia.
Qed.

(* it does not change what Obs.step does *)
Theorem wstep_erases s x wid :
  match wstep s x wid with
  | Ok (s', r, w) => exists w0, step veq heq vdefault (w_obs s) x = Ok (w_obs s', r, w0) /\ length w <= length w0
  | Panic => step veq heq vdefault (w_obs s) x = Panic
  end.
Proof.
  unfold wstep. destruct (step veq heq vdefault (w_obs s) x) as [[[o' r0] w0]|] eqn:E; [|reflexivity].
  destruct w0 as [|a w0]; cbn [w_obs].
  - exists []. split; [reflexivity|]. cbn. lia.
  - exists (a :: w0). split; [reflexivity|]. rewrite combine_length. lia.
Qed.

(* the waker supplied to a poll that answers Pending is registered, as the entry of that subscriber *)
Theorem wpoll_pending_registers s k wid s' w :
  winv s -> wstep s (SPoll k) wid = Ok (s', OPollR Pending, w) ->
  In (k, wid) (entries s') /\ w = [].
Proof.
  unfold winv, wstep, entries. intros Hi.
  destruct (step veq heq vdefault (w_obs s) (SPoll k)) as [[[o' r0] w0]|] eqn:E; [|discriminate].
  intro H.
  assert (Hr : r0 = OPollR Pending) by (destruct w0; injection H as _ Hr _; exact Hr).
  subst r0.
  assert (Hs : wakers o' = wakers (w_obs s) ++ [k] /\ w0 = []).
  { unfold Obs.step in E; cbv beta iota zeta in E.
    destruct (nth_error (subs (w_obs s)) k) as [[ov|]|]; try discriminate E.
    destruct (ver (w_obs s) =? 0); [discriminate E|].
    destruct (ov <? ver (w_obs s)); [discriminate E|].
    injection E as <- <-. cbn [wakers upd]. split; reflexivity. }
  destruct Hs as [Hw ->]. injection H as <- <-; cbn [w_obs w_ids].
  split; [|reflexivity].
  rewrite Hw, app_length. cbn [length]. replace (length (wakers (w_obs s)) + 1 - length (wakers (w_obs s))) with 1 by lia.
  cbn [repeat].
  assert (G : forall (l : list nat) (u : list nat) a b, length u = length l -> In (a, b) (combine (l ++ [a]) (u ++ [b]))).
  { induction l as [|x l IH]; intros [|y u] a b Hl; try discriminate; cbn.
    - left; reflexivity.
    - right. apply IH. cbn in Hl. lia. }
  apply G. exact Hi.
Qed.

Lemma in_combine_app_l {X Y} (l l2 : list X) (u u2 : list Y) e :
  length u = length l -> In e (combine l u) -> In e (combine (l ++ l2) (u ++ u2)).
Proof.
  revert u; induction l as [|x l IH]; intros [|y u] Hl H; try discriminate; cbn in *; [contradiction|].
  destruct H as [H|H]; [left; exact H|right; apply IH; [lia|exact H]].
Qed.

(* one call: a registered (subscriber, waker) entry stays registered or is among those woken *)
Lemma wstep_keeps s x wid s' r w e :
  winv s -> wstep s x wid = Ok (s', r, w) -> In e (entries s) -> In e (entries s') \/ In e w.
Proof.
  unfold winv, wstep, entries. intros Hi.
  destruct (step veq heq vdefault (w_obs s) x) as [[[o' r0] w0]|] eqn:E; [|discriminate].
  destruct (step_wakes _ _ _ _ _ _ _ _ E) as [[-> Hw]|[-> [extra Hw]]].
  - destruct (wakers (w_obs s)) as [|a l] eqn:El; intros H He; injection H as <- <- <-; cbn [w_obs w_ids].
    + cbn in He. contradiction.
    + right. exact He.
  - intros H He; injection H as <- <- <-; cbn [w_obs w_ids]. left.
    rewrite Hw. apply in_combine_app_l; assumption.
Qed.

(* ... through any further history, with any wakers: the entry stays until it is woken - and when it
   is woken, it is THIS waker that is woken (the pair carries its identity) *)
Theorem wno_lost_wakeup : forall xs s e,
  winv s -> In e (entries s) ->
  In e (entries (fst (wrun s xs))) \/ In e (snd (wrun s xs)).
Proof.
  induction xs as [|[x wid] xs IH]; intros s e Hi He; cbn [wrun].
  - left; exact He.
  - destruct (wstep s x wid) as [[[s' r] w]|] eqn:E.
    + pose proof (winv_step _ _ _ _ _ _ Hi E) as Hi'.
      destruct (wstep_keeps _ _ _ _ _ _ _ Hi E He) as [H|H].
      * specialize (IH s' e Hi' H). destruct (wrun s' xs) as [s'' w']. cbn [fst snd] in *.
        destruct IH as [IH|IH]; [left; exact IH|right; apply in_or_app; right; exact IH].
      * destruct (wrun s' xs) as [s'' w']. cbn [fst snd]. right. apply in_or_app; left; exact H.
    + apply IH; assumption.
Qed.

(* a call that changes the version (a notifying update, the close) wakes every registered waker
   object, each exactly as registered *)
Theorem wversion_change_wakes_all s x wid s' r w :
  winv s -> oinv (w_obs s) -> wstep s x wid = Ok (s', r, w) ->
  ver (w_obs s') <> ver (w_obs s) -> w = entries s /\ entries s' = [].
Proof.
  unfold winv, wstep, entries. intros Hi Ho.
  destruct (step veq heq vdefault (w_obs s) x) as [[[o' r0] w0]|] eqn:E; [|discriminate].
  pose proof (version_change_wakes_all_reach _ _ _ _ _ _ _ _ Ho E) as [Hc _].
  intros H Hv. assert (Hv' : ver o' <> ver (w_obs s)).
  { destruct w0; injection H as <- _ _; exact Hv. }
  destruct (Hc Hv') as [-> Hw].
  destruct (wakers (w_obs s)) as [|a l] eqn:El; injection H as <- <- <-; cbn [w_obs w_ids].
  - rewrite Hw. destruct (w_ids s); [|discriminate]. cbn. split; reflexivity.
  - rewrite Hw. split; reflexivity.
Qed.

End WakerFacts.


(* non-vacuity: subscriber 0 is polled Pending with waker 7, then again with waker 9 (the task moved);
   a set wakes both waker objects, among them the latest *)
Example waker_example :
  let s0 := {| w_obs := obs_new Shared 0; w_ids := [] |} in
  snd (wrun Nat.eqb Nat.eqb 0 s0 [(WSubscribe, 0); (SPoll 0, 7); (SPoll 0, 9); (WSet 5, 0)]) = [(0, 7); (0, 9)].
Proof. vm_compute. reflexivity. Qed.
