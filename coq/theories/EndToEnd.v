(* EndToEnd.v — the whole pipeline on the model: an ObservableVector (OVecRun.v: any history of
   mutators, traversals, transactions, subscriptions, polls, drops), one of its subscribers, and a
   stream adapter (any adapter whose step function is correct w.r.t. a relation R: AdapterCore.step_ok,
   proved for Head/Tail/Skip/Filter/Sort and preserved by composition) fed with exactly the diffs
   that subscriber's stream delivers.  The consumer applies what the adapter emits to its view. *)
From EB Require Import Diff AdapterCore OVec OVecRun OVecFacts OVecExtra.
From Coq Require Import Lia.

Section EndToEnd.
Context {A B St : Type}.
Variable on_diff : St -> diff A -> outcome (St * list (diff B)).
Variable R : St -> list A -> list B -> Prop.
(* how the adapter is created from the subscription snapshot: state and initial view *)
Variable init : list A -> St * list B.

(* feed a delivered item's diffs to the adapter; the consumer applies the outputs (checked) *)
Fixpoint feed (st : St) (v : list B) (ds : list (diff A)) : option (St * list B) :=
  match ds with
  | [] => Some (st, v)
  | d :: rest =>
      match on_diff st d with
      | Ok (st', outs) =>
          match apply_all_ok outs v with
          | Some v' => feed st' v' rest
          | None => None
          end
      | Panic => None
      end
  end.

(* run a history together with the adapter attached to subscriber k *)
Fixpoint e2e_run (k : nat) (g : gst A) (a : option (St * list B)) (xs : list (op A))
  : option (gst A * option (St * list B)) :=
  match xs with
  | [] => Some (g, a)
  | x :: rest =>
      match gstep g x with
      | Panic => e2e_run k g a rest                  (* an impossible / panicking call has no effect *)
      | Ok (g', out) =>
          match x, out, a with
          | OSub _, VSub k' snap, _ =>
              e2e_run k g' (if k' =? k then Some (init snap) else a) rest
          | OPoll k', VPoll (Ready (Some it)), Some (st, v) =>
              if k' =? k then
                match feed st v (item_diffs it) with
                | Some sv => e2e_run k g' (Some sv) rest
                | None => None
                end
              else e2e_run k g' a rest
          | _, _, _ => e2e_run k g' a rest
          end
      end
  end.

Hypothesis step : step_ok on_diff R.
Hypothesis init_ok : forall l, R (fst (init l)) l (snd (init l)).

(* ---------------- auxiliary lemmas ---------------- *)

(* feeding applicable diffs through a correct adapter *)
Lemma feed_ok : forall ds st l v l', R st l v -> apply_all_ok ds l = Some l' ->
  exists st' v', feed st v ds = Some (st', v') /\ R st' l' v'.
Proof.
  induction ds as [|d ds IH]; intros st l v l' HR H; cbn [feed apply_all_ok] in *.
  - injection H as <-. eauto.
  - destruct (ok_in d l) eqn:Eok; [|discriminate].
    destruct (step st l v d HR Eok) as (st' & outs & l1 & v1 & E1 & E2 & E3 & HR').
    rewrite E2 in H. cbn [obind] in H. rewrite E1, E3. eapply IH; eassumption.
Qed.

(* the clause of T1 relating the adapter to subscriber k's ghost *)
Definition clause (k : nat) (g : gst A) (a : option (St * list B)) : Prop :=
  match a with
  | Some (st, v) => exists gh, nth_error (g_gh g) k = Some gh /\ R st (gh_replica gh) v
  | None => length (g_gh g) <= k
  end.

Lemma clause_same_gh k g g' a : g_gh g' = g_gh g -> clause k g a -> clause k g' a.
Proof. unfold clause. intros ->. exact (fun H => H). Qed.

(* operations other than subscribe / poll leave the ghosts alone *)
Lemma gstep_gh_other (g : gst A) x g' out : gstep g x = Ok (g', out) ->
  match x with OSub _ | OPoll _ => True | _ => g_gh g' = g_gh g end.
Proof.
  intro H; unfold gstep in H; destruct x; try exact I;
  repeat match type of H with
  | (if ?c then _ else _) = _ => destruct c; try discriminate
  | match ?c with _ => _ end = _ => destruct c eqn:?; try discriminate
  end; injection H as <- _; reflexivity.
Qed.

Lemma gstep_sub (g : gst A) b g' out : gstep g (OSub b) = Ok (g', out) ->
  exists gh, out = VSub (length (subs (g_o g))) (gh_replica gh) /\ g_gh g' = g_gh g ++ [gh].
Proof.
  unfold gstep. destruct (_ || _); [discriminate|]. unfold subscribe.
  intro H; injection H as <- <-. eexists. split; [|reflexivity]. reflexivity.
Qed.

Lemma e2e_gen k : forall xs g a, ginv_strong g -> clause k g a ->
  exists a', e2e_run k g a xs = Some (grun g xs, a') /\ clause k (grun g xs) a'.
Proof.
  induction xs as [|x xs IH]; intros g a Hg Ha; cbn [e2e_run grun].
  - eauto.
  - destruct (gstep g x) as [[g' out]|] eqn:E; [|apply IH; assumption].
    pose proof (ginv_strong_step _ _ _ _ Hg E) as Hg'.
    destruct x.
    3: { (* OSub *)
      destruct (gstep_sub _ _ _ _ E) as (gh & -> & Hgh).
      destruct Hg as (_ & Hlen & _).
      cbv iota. apply IH; [assumption|].
      rewrite <- Hlen.
      destruct (Nat.eqb_spec (length (g_gh g)) k) as [e|ne].
      - unfold clause. pose proof (init_ok (gh_replica gh)) as Hi.
        destruct (init (gh_replica gh)) as [st v]. cbn [fst snd] in Hi. exists gh.
        split; [|assumption].
        rewrite Hgh, <- e, nth_error_app2, Nat.sub_diag by lia. reflexivity.
      - unfold clause in *. destruct a as [[st v]|].
        + destruct Ha as (gh0 & E0 & HR). exists gh0. split; [|assumption].
          rewrite Hgh, nth_error_app1; [assumption|]. apply nth_error_Some. congruence.
        + rewrite Hgh, app_length. cbn [length]. lia. }
    3: { (* OPoll *)
      destruct (gstep_poll _ _ _ _ Hg E) as (s & gh & s' & r & gh' & Ek & Eg & _ & _ & -> & -> & Hgh).
      assert (Hk : k0 < length (g_gh g)) by (apply nth_error_Some; congruence).
      destruct r as [[it|]|].
      - destruct Hgh as (r' & Hap & ->).
        destruct a as [[st v]|].
        + cbv iota. destruct (Nat.eqb_spec k0 k) as [e|ne].
          * subst k0. destruct Ha as (gh0 & E0 & HR). rewrite Eg in E0. injection E0 as <-.
            destruct (feed_ok _ _ _ _ _ HR Hap) as (st' & v' & Ef & HR').
            rewrite Ef. apply IH; [assumption|].
            unfold clause. cbn [g_gh]. eexists. split; [apply nth_error_set_nth_eq; assumption|].
            exact HR'.
          * apply IH; [assumption|]. unfold clause in *. cbn [g_gh].
            rewrite nth_error_set_nth_neq by congruence. exact Ha.
        + cbv iota. apply IH; [assumption|]. unfold clause in *. cbn [g_gh].
          rewrite length_set_nth. exact Ha.
      - subst gh'. cbv iota. apply IH; [assumption|].
        eapply clause_same_gh; [|exact Ha]. cbn [g_gh]. apply set_nth_same; assumption.
      - subst gh'. cbv iota. apply IH; [assumption|].
        eapply clause_same_gh; [|exact Ha]. cbn [g_gh]. apply set_nth_same; assumption. }
    all: pose proof (gstep_gh_other _ _ _ _ E) as Hgh; cbv iota in Hgh |- *;
      (apply IH; [assumption|]); eapply clause_same_gh; eassumption.
Qed.

(* T1. the adapter never panics, never emits an inapplicable diff, and its view always stands for
   subscriber k's replica *)
Theorem e2e_invariant :
  forall (capacity : nat) (xs : list (op A)) (k : nat),
    exists g a, e2e_run k (ginit capacity) None xs = Some (g, a) /\
      g = grun (ginit capacity) xs /\
      match a with
      | Some (st, v) => exists gh, nth_error (g_gh g) k = Some gh /\ R st (gh_replica gh) v
      | None => length (g_gh g) <= k
      end.
Proof.
  intros capacity xs k.
  destruct (e2e_gen k xs (ginit capacity) None) as (a' & E & Hc).
  - apply ginv_strong_init.
  - cbn. lia.
  - exists (grun (ginit capacity) xs), a'. split; [exact E|]. split; [reflexivity|]. exact Hc.
Qed.

(* T2. whenever subscriber k's stream reports Pending, the consumer's view stands for the vector's
   CURRENT contents - whatever the capacity, the lag, the polling pattern, transactions in between *)
Theorem e2e_view_at_pending :
  forall (capacity : nat) (xs : list (op A)) (k : nat) g st v g',
    e2e_run k (ginit capacity) None xs = Some (g, Some (st, v)) ->
    gstep g (OPoll k) = Ok (g', VPoll Pending) ->
    R st (values (g_o g')) v.
Proof.
  intros capacity xs k g st v g' E H.
  destruct (e2e_invariant capacity xs k) as (g0 & a0 & E0 & -> & Hc).
  rewrite E0 in E. injection E as <- ->.
  destruct Hc as (gh & Eg & HR).
  set (g := grun (ginit capacity) xs) in *.
  pose proof (reachable_strong capacity xs) as Hg. fold g in Hg.
  destruct (gstep_poll _ _ _ _ Hg H) as (s & gh0 & s' & r & gh' & Ek & Eg0 & _ & _ & Er & Eg' & Hgh).
  injection Er as <-. subst gh'. rewrite Eg in Eg0. injection Eg0 as <-.
  assert (Egh' : nth_error (g_gh g') k = Some gh).
  { rewrite Eg'. cbn [g_gh]. apply nth_error_set_nth_eq. apply nth_error_Some. congruence. }
  pose proof (poll_meaning g k g' Pending gh Hg H Egh') as P. cbv beta iota in P.
  destruct P as (_ & <- & _). exact HR.
Qed.

End EndToEnd.

Print Assumptions e2e_invariant.
Print Assumptions e2e_view_at_pending.
