(* AdapterCore.v — what it means for a stream adapter to be correct, and the generic lifting of
   the one-step statements to arbitrary event sequences (DESIGN.md appendix A.2). *)
From EB Require Export Diff.

(* apply_all_ok with an additional bound on the length of every intermediate result (C15) *)
Fixpoint apply_all_ok_bound {A} (b : nat) (ds : list (diff A)) (l : list A) : option (list A) :=
  match ds with
  | [] => Some l
  | d :: ds' =>
      if ok_in d l then
        match apply d l with
        | Some l' => if length l' <=? b then apply_all_ok_bound b ds' l' else None
        | None => None
        end
      else None
  end.

Section Core.
Context {A B St : Type}.
(* [I] = A-diff, possibly with extra oracle input; [ok] says when the extra input is acceptable *)
Variable on_diff : St -> diff A -> outcome (St * list (diff B)).
Variable on_param : St -> nat -> St * option (list (diff B)).
(* R st l v: adapter state [st] stands for source contents [l] while the consumer holds view [v] *)
Variable R : St -> list A -> list B -> Prop.

Definition step_ok : Prop :=
  forall st l v d, R st l v -> ok_in d l = true ->
    exists st' outs l' v',
      on_diff st d = Ok (st', outs) /\ apply d l = Some l' /\
      apply_all_ok outs v = Some v' /\ R st' l' v'.

Definition param_ok : Prop :=
  forall st l v n, R st l v ->
    exists st' v',
      fst (on_param st n) = st' /\
      apply_all_ok (match snd (on_param st n) with Some ds => ds | None => [] end) v = Some v' /\
      R st' l v'.

(* events the adapter consumes, in the order it consumes them *)
Inductive event := EDiff (d : diff A) | EParam (n : nat).

(* run the adapter over events; the consumer applies every emitted diff (checked) to its view;
   the source applies every source diff.  None = something went wrong (panic, inapplicable diff). *)
Fixpoint run_events (evs : list event) (st : St) (l : list A) (v : list B)
  : option (St * list A * list B) :=
  match evs with
  | [] => Some (st, l, v)
  | EDiff d :: rest =>
      if ok_in d l then
        match on_diff st d, apply d l with
        | Ok (st', outs), Some l' =>
            match apply_all_ok outs v with
            | Some v' => run_events rest st' l' v'
            | None => None
            end
        | _, _ => None
        end
      else None
  | EParam n :: rest =>
      let '(st', o) := on_param st n in
      match apply_all_ok (match o with Some ds => ds | None => [] end) v with
      | Some v' => run_events rest st' l v'
      | None => None
      end
  end.

(* the source history is valid: every source diff is applicable when it happens *)
Fixpoint src_valid (evs : list event) (l : list A) : bool :=
  match evs with
  | [] => true
  | EDiff d :: rest =>
      ok_in d l && match apply d l with Some l' => src_valid rest l' | None => false end
  | EParam _ :: rest => src_valid rest l
  end.

Fixpoint src_after (evs : list event) (l : list A) : list A :=
  match evs with
  | [] => l
  | EDiff d :: rest => match apply d l with Some l' => src_after rest l' | None => l end
  | EParam _ :: rest => src_after rest l
  end.

Theorem run_events_ok :
  step_ok -> param_ok ->
  forall evs st l v, R st l v -> src_valid evs l = true ->
    exists st' v', run_events evs st l v = Some (st', src_after evs l, v') /\ R st' (src_after evs l) v'.
Proof.
  intros Hs Hp evs; induction evs as [|e evs IH]; intros st l v HR Hv.
  - exists st, v; split; [reflexivity|assumption].
  - destruct e as [d|n]; cbn [run_events src_valid src_after] in *.
    + apply andb_prop in Hv as [Hok Hv].
      destruct (Hs st l v d HR Hok) as (st' & outs & l' & v' & E1 & E2 & E3 & HR').
      rewrite Hok, E1, E2, E3. rewrite E2 in Hv. apply IH; assumption.
    + destruct (Hp st l v n HR) as (st' & v' & E1 & E2 & HR').
      destruct (on_param st n) as [st1 o] eqn:E. cbn [fst snd] in *. subst st1.
      rewrite E2. apply IH; assumption.
Qed.

End Core.
Arguments EDiff {A} d.
Arguments EParam {A} n.

Lemma apply_all_ok_bound_ok {A} b (ds : list (diff A)) l l' :
  apply_all_ok_bound b ds l = Some l' -> apply_all_ok ds l = Some l'.
Proof.
  revert l; induction ds as [|d ds IH]; intros l H; cbn [apply_all_ok_bound apply_all_ok] in *.
  - assumption.
  - destruct (ok_in d l); [|discriminate].
    destruct (apply d l) as [l1|]; [|discriminate]. cbn [obind].
    destruct (length l1 <=? b); [|discriminate]. apply IH; assumption.
Qed.

Lemma apply_all_ok_app {A} (ds1 ds2 : list (diff A)) l :
  apply_all_ok (ds1 ++ ds2) l = obind (apply_all_ok ds1 l) (apply_all_ok ds2).
Proof.
  revert l; induction ds1 as [|d ds1 IH]; intros l; cbn [app apply_all_ok obind]; [reflexivity|].
  destruct (ok_in d l); [|reflexivity].
  destruct (apply d l); cbn [obind]; [apply IH|reflexivity].
Qed.

(* one checked step of the consumer *)
Lemma aaob_cons {A} b (d : diff A) ds l l1 :
  ok_in d l = true -> apply d l = Some l1 -> length l1 <= b ->
  apply_all_ok_bound b (d :: ds) l = apply_all_ok_bound b ds l1.
Proof.
  intros H1 H2 H3. cbn [apply_all_ok_bound]. rewrite H1, H2.
  apply Nat.leb_le in H3. rewrite H3. reflexivity.
Qed.

Lemma aao_cons {A} (d : diff A) ds l l1 :
  ok_in d l = true -> apply d l = Some l1 ->
  apply_all_ok (d :: ds) l = apply_all_ok ds l1.
Proof. intros H1 H2. cbn [apply_all_ok]. rewrite H1, H2. reflexivity. Qed.

Lemma insert_at_some {A} i (x : A) l :
  i <= length l -> insert_at i x l = Some (firstn i l ++ x :: skipn i l).
Proof. intro H. unfold insert_at. apply Nat.leb_le in H. rewrite H. reflexivity. Qed.
Lemma set_at_some {A} i (x : A) l :
  i < length l -> set_at i x l = Some (firstn i l ++ x :: skipn (S i) l).
Proof. intro H. unfold set_at. apply Nat.ltb_lt in H. rewrite H. reflexivity. Qed.
Lemma remove_at_some {A} i (l : list A) :
  i < length l -> remove_at i l = Some (firstn i l ++ skipn (S i) l).
Proof. intro H. unfold remove_at. apply Nat.ltb_lt in H. rewrite H. reflexivity. Qed.

(* the latest parameter announced in an event sequence *)
Fixpoint last_param {A} (evs : list (@event A)) (p0 : option nat) : option nat :=
  match evs with
  | [] => p0
  | EDiff _ :: rest => last_param rest p0
  | EParam n :: rest => last_param rest (Some n)
  end.
