(* EndToEndInst.v — EndToEnd.e2e_view_at_pending spelled out for Skip, Tail and Filter/FilterMap
   (the Head instance is props/C12.v, C12_e2e_head): an ObservableVector under any history, one of
   its subscribers, the adapter fed with exactly what that subscriber's stream delivers; whenever the
   stream reports Pending the consumer's view is the explicit function of the vector's CURRENT
   contents. *)
From EB Require Import Diff AdapterCore OVec OVecRun EndToEnd
  Skip SkipFacts Tail TailFacts Filter FilterFacts.

(* Skip created with a count n: the view is everything after the first n items *)
Theorem e2e_skip :
  forall (A : Type) (n capacity : nat) (xs : list (op A)) (k : nat) g st v g',
    let init := fun l : list A => (snd (skip_init n l), fst (skip_init n l)) in
    e2e_run skip_on_diff init k (ginit capacity) None xs = Some (g, Some (st, v)) ->
    gstep g (OPoll k) = Ok (g', VPoll Pending) ->
    v = skipn n (values (g_o g')).
Proof.
  intros A n capacity xs k g st v g' init H1 H2.
  pose (R := fun (st : skip_st A) (l v : list A) => skip_R st l v /\ s_count st = Some n).
  assert (Hs : step_ok skip_on_diff R).
  { intros st0 l v0 d [HR Hl] Hok.
    destruct (skip_step st0 l v0 d HR Hok) as (st' & outs & l' & E1 & E2 & E3 & HR' & Hl').
    exists st', outs, l', (skip_view_of (s_count st0) l').
    split; [exact E1|]. split; [exact E2|]. split; [exact E3|].
    split; [exact HR'|]. rewrite Hl'. exact Hl. }
  assert (Hi : forall l, R (fst (init l)) l (snd (init l))).
  { intro l. unfold init, R. cbn [fst snd].
    destruct (skip_init_ok n l) as [E HR]. rewrite E. split; [exact HR|].
    unfold skip_init. reflexivity. }
  destruct (e2e_view_at_pending skip_on_diff R init Hs Hi capacity xs k g st v g' H1 H2) as [[Hb Hv] Hl].
  rewrite Hl in Hv. cbn [skip_view_of] in Hv. exact Hv.
Qed.

(* Tail with limit n: the view is the last n items *)
Theorem e2e_tail :
  forall (A : Type) (n capacity : nat) (xs : list (op A)) (k : nat) g st v g',
    let init := fun l : list A => (snd (tail_init n l), fst (tail_init n l)) in
    e2e_run tail_on_diff init k (ginit capacity) None xs = Some (g, Some (st, v)) ->
    gstep g (OPoll k) = Ok (g', VPoll Pending) ->
    v = skipn (length (values (g_o g')) - n) (values (g_o g')).
Proof.
  intros A n capacity xs k g st v g' init H1 H2.
  pose (R := fun (st : tail_st A) (l v : list A) => tail_R st l v /\ t_limit st = n).
  assert (Hs : step_ok tail_on_diff R).
  { intros st0 l v0 d [HR Hl] Hok.
    destruct (tail_step_bound st0 l v0 d HR Hok) as (st' & outs & l' & E1 & E2 & E3 & HR' & Hl').
    exists st', outs, l', (skipn (length l' - t_limit st0) l').
    split; [exact E1|]. split; [exact E2|].
    split; [eapply apply_all_ok_bound_ok; eassumption|].
    split; [exact HR'|]. rewrite Hl'. exact Hl. }
  assert (Hi : forall l, R (fst (init l)) l (snd (init l))).
  { intro l. unfold init, R. cbn [fst snd].
    destruct (tail_init_ok n l) as [E HR]. rewrite E. split; [exact HR|].
    unfold tail_init. reflexivity. }
  destruct (e2e_view_at_pending tail_on_diff R init Hs Hi capacity xs k g st v g' H1 H2) as [[Hb Hv] Hl].
  rewrite Hl in Hv. exact Hv.
Qed.

(* FilterMap with any partial mapping f (Filter proper: f x = if p x then Some x else None, see
   C10_filter_instance): the view is the mapped matching items, in order *)
Theorem e2e_filter_map :
  forall (A B : Type) (f : A -> option B) (capacity : nat) (xs : list (op A)) (k : nat) g st v g',
    let init := fun l : list A => (snd (filter_init f l), fst (filter_init f l)) in
    e2e_run (filter_on_diff f) init k (ginit capacity) None xs = Some (g, Some (st, v)) ->
    gstep g (OPoll k) = Ok (g', VPoll Pending) ->
    v = fmap_opt f (values (g_o g')).
Proof.
  intros A B f capacity xs k g st v g' init H1 H2.
  assert (Hs : step_ok (filter_on_diff f) (filter_R f)).
  { intros st0 l v0 d HR Hok.
    destruct (filter_step f st0 l v0 d HR Hok) as (st' & outs & l' & E1 & E2 & E3 & HR').
    exists st', outs, l', (fmap_opt f l'). auto. }
  assert (Hi : forall l, filter_R f (fst (init l)) l (snd (init l))).
  { intro l. unfold init. cbn [fst snd].
    destruct (filter_init_ok f l) as [E HR]. rewrite E. exact HR. }
  destruct (e2e_view_at_pending (filter_on_diff f) (filter_R f) init Hs Hi capacity xs k g st v g' H1 H2)
    as (_ & _ & Hv).
  exact Hv.
Qed.

Print Assumptions e2e_skip. Print Assumptions e2e_tail. Print Assumptions e2e_filter_map.
