(* ObsWaker.v — waker identity (C02: "wakes the waker supplied to that Pending poll").
   Obs.v keeps, in the waker list, the id of the SUBSCRIBER whose poll registered; the code pushes
   `cx.waker().clone()` (state.rs poll_update), so each entry is also a particular waker object, and a
   task may poll the same subscriber with different wakers over time.  This file tracks, beside
   Obs.step and without changing it, the identity of the waker of every entry, and proves that the
   waker supplied to a poll that answered Pending is on the list, stays there whatever happens, and
   is among the wakers woken by the next call that wakes anybody. *)
From EB Require Export Obs.

Section Waker.
Context {V : Type}.
Variables (veq heq : V -> V -> bool) (vdefault : V).

(* w_ids: the identity of the waker object of each entry of [wakers (w_obs _)], in order *)
Record wobs := { w_obs : obs V; w_ids : list nat }.

Definition entries (s : wobs) : list (nat * nat) := combine (wakers (w_obs s)) (w_ids s).

Definition winv (s : wobs) : Prop := length (w_ids s) = length (wakers (w_obs s)).

(* a call made by a task whose current waker is [wid]: entries appended by this call carry [wid];
   a call that wakes takes the whole list *)
Definition wstep (s : wobs) (x : op V) (wid : nat) : outcome (wobs * out V * list (nat * nat)) :=
  let o := w_obs s in
  match step veq heq vdefault o x with
  | Panic => Panic
  | Ok (o', r, w) =>
      match w with
      | [] =>
          Ok ({| w_obs := o'; w_ids := w_ids s ++ repeat wid (length (wakers o') - length (wakers o)) |}, r, [])
      | _ :: _ =>
          Ok ({| w_obs := o'; w_ids := [] |}, r, combine w (w_ids s))
      end
  end.

(* a history of calls with the waker each was made with; everything woken is collected *)
Fixpoint wrun (s : wobs) (xs : list (op V * nat)) : wobs * list (nat * nat) :=
  match xs with
  | [] => (s, [])
  | (x, wid) :: rest =>
      match wstep s x wid with
      | Ok (s', _, w) => let '(s'', w') := wrun s' rest in (s'', w ++ w')
      | Panic => wrun s rest
      end
  end.

End Waker.
