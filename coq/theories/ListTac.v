(* ListTac.v — proving list equalities pointwise: rewrite nth_error of every list expression
   into conditionals over indices, split the conditions, finish with lia. *)
From EB Require Export ListVec ListVecFacts.

Lemma nth_error_cons {A} (x : A) l k :
  nth_error (x :: l) k = match k with 0 => Some x | S k' => nth_error l k' end.
Proof. destruct k; reflexivity. Qed.

Lemma nth_error_cons_if {A} (x : A) l k :
  nth_error (x :: l) k = if k =? 0 then Some x else nth_error l (k - 1).
Proof. destruct k; cbn [Nat.eqb nth_error]; [reflexivity|]. replace (S k - 1) with k by lia. reflexivity. Qed.

Lemma nth_error_nil {A} k : nth_error (@nil A) k = None.
Proof. destruct k; reflexivity. Qed.

Lemma nth_error_rev {A} (l : list A) k :
  nth_error (rev l) k = if k <? length l then nth_error l (length l - 1 - k) else None.
Proof.
  destruct (Nat.ltb_spec k (length l)) as [H|H].
  - destruct l as [|d l0] eqn:El; [cbn in H; lia|]. rewrite <- El in *.
    rewrite (nth_error_nth' (rev l) d) by (rewrite rev_length; lia).
    rewrite (nth_error_nth' l d) by lia.
    rewrite rev_nth by lia. f_equal. f_equal. lia.
  - apply nth_error_None. rewrite rev_length. assumption.
Qed.

Lemma nth_error_repeat {A} (x : A) n k :
  nth_error (repeat x n) k = if k <? n then Some x else None.
Proof.
  revert k; induction n as [|n IH]; intros k; cbn [repeat].
  - rewrite nth_error_nil. reflexivity.
  - destruct k; cbn [nth_error]; [reflexivity|]. rewrite IH.
    destruct (Nat.ltb_spec k n), (Nat.ltb_spec (S k) (S n)); try lia; reflexivity.
Qed.

Lemma nth_error_map {A B} (f : A -> B) l k :
  nth_error (map f l) k = option_map f (nth_error l k).
Proof. apply nth_error_map. Qed.

Lemma length_firstn {A} n (l : list A) : length (firstn n l) = min n (length l).
Proof. apply firstn_length. Qed.
Lemma length_skipn {A} n (l : list A) : length (skipn n l) = length l - n.
Proof. apply skipn_length. Qed.

Lemma nth_error_some_lt {A} (l : list A) k x : nth_error l k = Some x -> k < length l.
Proof. intro H. apply nth_error_Some. congruence. Qed.

#[export] Hint Rewrite @app_length @length_firstn @length_skipn @rev_length @map_length
  @repeat_length @length_tl @length_removelast @seq_length @combine_length : len.

Ltac len_norm := repeat (progress (autorewrite with len in *; cbn [length] in *)).

Ltac nth_norm :=
  repeat (rewrite ?nth_error_app, ?nth_error_firstn, ?nth_error_skipn, ?nth_error_tl,
            ?nth_error_removelast, ?nth_error_rev, ?nth_error_repeat, ?nth_error_cons_if,
            ?nth_error_nil, ?nth_error_map;
          len_norm).

(* split every boolean comparison in the goal *)
Ltac split_ifs :=
  repeat match goal with
  | |- context [?a <? ?b] => destruct (Nat.ltb_spec a b)
  | |- context [?a <=? ?b] => destruct (Nat.leb_spec a b)
  | |- context [?a =? ?b] => destruct (Nat.eqb_spec a b)
  end.

Ltac nth_arith :=
  try reflexivity; try lia;
  try (f_equal; lia);
  try (symmetry; apply nth_error_None; len_norm; lia);
  try (apply nth_error_None; len_norm; lia);
  try (etransitivity; [apply nth_error_None; len_norm; lia | symmetry; apply nth_error_None; len_norm; lia]).

Ltac list_ext :=
  apply nth_error_ext; let k := fresh "k" in intro k; nth_norm; split_ifs; nth_arith.

Ltac unfold_vec :=
  unfold push_front, push_back, pop_front, pop_back, truncate, skeep, truncate_from_end in *.
