(* ObsSeqFacts.v — consequences of the sequential specification that C04 names explicitly (by the
   linearizability theorems every concurrent execution is equivalent to such a sequential history):
   the chain of previous values returned by set, monotone observation, ending on the final value. *)
From EB Require Import Obs ObsSpec ObsFacts.
From Coq Require Import Lia.

Section ObsSeqFacts.
Context {V : Type}.
Variable veq : V -> V -> bool.
Variable heq : V -> V -> bool.
Variable vdefault : V.

(* run a history, collecting the calls that were possible together with their results *)
Fixpoint run_outs (o : obs V) (xs : list (op V)) : obs V * list (op V * out V) :=
  match xs with
  | [] => (o, [])
  | x :: rest =>
      match step veq heq vdefault o x with
      | Ok (o', r, _) => let '(o2, l) := run_outs o' rest in (o2, (x, r) :: l)
      | Panic => run_outs o rest
      end
  end.

Definition stores (x : op V) : bool :=
  match x with
  | WSet _ | WTake | WSetIfNotEq _ | WSetIfHashNotEq _ | WUpdate _ | WUpdateIf _ _ => true
  | _ => false
  end.

Definition set_prevs (l : list (op V * out V)) : list V :=
  flat_map (fun p => match p with (WSet _, OVal v) => [v] | _ => [] end) l.
Definition set_written (l : list (op V * out V)) : list V :=
  flat_map (fun p => match p with (WSet v, _) => [v] | _ => [] end) l.

(* ---------------- auxiliary facts ---------------- *)

Ltac split_tests H :=
  repeat match type of H with
  | context [?a =? ?b] => destruct (Nat.eqb_spec a b)
  | context [?a <? ?b] => destruct (Nat.ltb_spec0 a b)
  | context [nth_error ?l ?k] =>
      let E := fresh "Esub" in destruct (nth_error l k) as [[?|]|] eqn:E
  | context [okind ?o] => let E := fresh "Ekind" in destruct (okind o) eqn:E
  | context [if ?b then _ else _] => let E := fresh "Etest" in destruct b eqn:E
  end.

Ltac inv_step H :=
  unfold Obs.step, notify, close in H; cbv beta iota zeta in H;
  split_tests H; try discriminate H;
  injection H as <- <- <-.

Lemma nth_set_nth_eq {X} (k : nat) (x y : X) l :
  nth_error (set_nth k x l) k = Some y -> y = x.
Proof.
  revert k; induction l as [|a l IH]; intros [|k] E; simpl in E; try discriminate.
  - injection E as <-. reflexivity.
  - eauto.
Qed.

Lemma nth_set_nth_hit {X} (k : nat) (x a : X) l :
  nth_error l k = Some a -> nth_error (set_nth k x l) k = Some x.
Proof.
  revert k; induction l as [|b l IH]; intros [|k] E; simpl in *; try discriminate; auto.
Qed.

Lemma nth_set_nth_neq {X} (j k : nat) (x : X) l :
  j <> k -> nth_error (set_nth j x l) k = nth_error l k.
Proof.
  revert j k; induction l as [|a l IH]; intros [|j] [|k] Hn; simpl; auto; try congruence.
Qed.

(* a set returns the value it replaces and stores its argument *)
Lemma step_set o v o' r w :
  step veq heq vdefault o (WSet v) = Ok (o', r, w) -> r = OVal (val o) /\ val o' = v.
Proof. intros H. inv_step H. split; reflexivity. Qed.

(* every other call that does not store leaves the value alone (close keeps it too) *)
Lemma step_nostore o x o' r w :
  stores x = false -> step veq heq vdefault o x = Ok (o', r, w) -> val o' = val o.
Proof.
  intros Hs H. destruct x; try discriminate Hs; inv_step H; reflexivity.
Qed.

Lemma set_prevs_other x r l :
  (forall v, x <> WSet v) -> set_prevs ((x, r) :: l) = set_prevs l.
Proof.
  intros Hx. unfold set_prevs. cbn [flat_map].
  destruct x; try reflexivity. exfalso; eapply Hx; reflexivity.
Qed.

Lemma set_written_other x r l :
  (forall v, x <> WSet v) -> set_written ((x, r) :: l) = set_written l.
Proof.
  intros Hx. unfold set_written. cbn [flat_map].
  destruct x; try reflexivity. exfalso; eapply Hx; reflexivity.
Qed.

Lemma oinv_ver_nz (o : obs V) : oinv o -> owners o <> 0 -> ver o <> 0.
Proof. intros ([H _] & _) Hn Hv. auto. Qed.

(* T1. every set returns the value stored by its immediate predecessor: in a history whose only
   storing calls are sets (any other calls - polls, gets, subscribing, cloning, drops - in between),
   the previous values returned by the sets followed by the final value are the initial value
   followed by the values written, in order *)
Theorem set_chain :
  forall o xs o' l,
    (forall x, In x xs -> stores x = true -> exists v, x = WSet v) ->
    run_outs o xs = (o', l) ->
    set_prevs l ++ [val o'] = val o :: set_written l.
Proof.
  intros o xs; revert o; induction xs as [|x rest IH]; intros o o' l Hst H; cbn [run_outs] in H.
  - injection H as <- <-. reflexivity.
  - assert (Hrest : forall y, In y rest -> stores y = true -> exists v, y = WSet v)
      by (intros y Hy; apply Hst; right; exact Hy).
    destruct (step veq heq vdefault o x) as [[[o1 r] w]|] eqn:E.
    + destruct (run_outs o1 rest) as [o2 l'] eqn:E2. injection H as <- <-.
      specialize (IH _ _ _ Hrest E2).
      destruct (stores x) eqn:Es.
      * destruct (Hst x (or_introl eq_refl) Es) as [v ->].
        destruct (step_set _ _ _ _ _ E) as [-> Hv].
        cbn [set_prevs set_written flat_map app]. fold (set_prevs l') (set_written l').
        rewrite IH, Hv. reflexivity.
      * rewrite <- (step_nostore _ _ _ _ _ Es E).
        rewrite (set_prevs_other x r l'), (set_written_other x r l'); auto;
          intros v ->; discriminate Es.
    + eapply IH; eauto.
Qed.

(* T2. a subscriber never goes backwards: while an owner exists, no call other than its own reset
   lowers the version subscriber k has observed *)
Theorem observed_monotone :
  forall o x o' r w k ov ov',
    oinv o -> owners o <> 0 -> x <> SReset k ->
    step veq heq vdefault o x = Ok (o', r, w) ->
    nth_error (subs o) k = Some (Some ov) -> nth_error (subs o') k = Some (Some ov') ->
    ov <= ov'.
Proof.
  intros o x o' r w k ov ov' Hinv Hown Hx H Hk Hk'.
  pose proof (oinv_ver_nz o Hinv Hown) as Hnz.
  destruct Hinv as (_ & Hb & _).
  pose proof (Hb _ _ Hk Hnz) as Hle.
  assert (Hlt : k < length (subs o)) by (apply nth_error_Some; congruence).
  destruct x; inv_step H; cbn [subs upd with_subs with_handles] in Hk';
    try (rewrite Hk in Hk'; injection Hk' as <-; lia);
    try (rewrite nth_error_app1 in Hk' by exact Hlt; rewrite Hk in Hk'; injection Hk' as <-; lia);
    try match type of Hk' with
        | nth_error (set_nth ?j _ _) _ = _ =>
            destruct (Nat.eq_dec j k) as [->|Hjk];
              [ apply nth_set_nth_eq in Hk'; try discriminate Hk';
                try (injection Hk' as ->; lia); try (exfalso; apply Hx; reflexivity)
              | rewrite nth_set_nth_neq in Hk' by exact Hjk;
                rewrite Hk in Hk'; injection Hk' as <-; lia ]
        end.
Qed.

(* T3. after the writers have finished a subscriber ends on the final value: in any reachable state
   with an owner, polling subscriber k yields the current (= final) value at most once and is then
   Pending *)
Theorem subscriber_ends_on_final :
  forall o k ov,
    oinv o -> owners o <> 0 -> nth_error (subs o) k = Some (Some ov) ->
    (ov = ver o /\ exists o1, step veq heq vdefault o (SPoll k) = Ok (o1, OPollR Pending, []) /\ val o1 = val o)
    \/
    (ov < ver o /\ exists o1 o2,
       step veq heq vdefault o (SPoll k) = Ok (o1, OPollR (Ready (Some (val o))), []) /\
       step veq heq vdefault o1 (SPoll k) = Ok (o2, OPollR Pending, []) /\ val o2 = val o).
Proof.
  intros o k ov Hinv Hown Hk.
  pose proof (oinv_ver_nz o Hinv Hown) as Hnz.
  destruct Hinv as (_ & Hb & _).
  pose proof (Hb _ _ Hk Hnz) as Hle.
  assert (Hz : (ver o =? 0) = false) by (apply Nat.eqb_neq; exact Hnz).
  destruct (Nat.eq_dec ov (ver o)) as [He|Hne].
  - left. split; [exact He|].
    eexists. split.
    + unfold Obs.step. rewrite Hk, Hz.
      replace (ov <? ver o) with false by (symmetry; apply Nat.ltb_ge; lia).
      reflexivity.
    + reflexivity.
  - right. split; [lia|].
    assert (Hlt : (ov <? ver o) = true) by (apply Nat.ltb_lt; lia).
    do 2 eexists. split; [|split].
    + unfold Obs.step. rewrite Hk, Hz, Hlt. reflexivity.
    + unfold Obs.step. cbn [subs ver val wakers with_subs].
      rewrite (nth_set_nth_hit _ _ _ _ Hk), Hz, Nat.ltb_irrefl. reflexivity.
    + reflexivity.
Qed.

End ObsSeqFacts.

Print Assumptions set_chain.
Print Assumptions observed_monotone.
Print Assumptions subscriber_ends_on_final.
