(* SkipFacts.v — correctness of the Skip adapter model (C09). *)
From EB Require Import Skip AdapterCore ListTac DiffFacts.

Section SkipFacts.
Context {A : Type}.
Implicit Types (l v vs : list A) (st : skip_st A).

Definition skip_view_of (c : option nat) l : list A :=
  match c with None => [] | Some c => skipn c l end.

Definition skip_R st l v : Prop := s_buf st = l /\ v = skip_view_of (s_count st) l.

Lemma skeep_impl_skipn c l : skeep_impl c l = skipn c l.
Proof.
  unfold skeep_impl. destruct c as [|c]; [reflexivity|].
  destruct (Nat.leb_spec (length l) (S c)); [|reflexivity].
  symmetry. apply skipn_all2. assumption.
Qed.

Lemma skip_init_ok c vs :
  fst (skip_init c vs) = skipn c vs /\ skip_R (snd (skip_init c vs)) vs (skipn c vs).
Proof.
  unfold skip_init, skip_R. cbn [fst snd s_buf s_count skip_view_of].
  rewrite skeep_impl_skipn. repeat split.
Qed.

Lemma skip_init_dynamic_ok vs : skip_R (skip_init_dynamic vs) vs [].
Proof. split; reflexivity. Qed.

Ltac stepo :=
  erewrite aao_cons;
  [ | cbn [ok_in]; unfold_vec; len_norm;
      first [reflexivity | apply Nat.ltb_lt; lia | apply Nat.leb_le; lia]
    | cbn [apply]; unfold_vec;
      first [reflexivity | apply insert_at_some; len_norm; lia | apply set_at_some; len_norm; lia
            | apply remove_at_some; len_norm; lia] ].

Lemma skip_handle_ok c l d l' :
  ok_in d l = true -> apply d l = Some l' ->
  exists outs, skip_handle_diff d c (length l) l' = Ok outs /\
               apply_all_ok outs (skipn c l) = Some (skipn c l').
Proof.
  intros Hok Hl'. unfold skip_handle_diff.
  destruct d; cbn [apply ok_in] in *; unfold_vec.
  - (* Append *)
    injection Hl' as <-. len_norm.
    destruct (Nat.ltb_spec c (length l + length vs)); eexists; (split; [reflexivity|]).
    + rewrite skeep_impl_skipn. destruct (Nat.ltb_spec (length l) c); stepo; cbn [apply_all_ok]; f_equal; list_ext.
    + cbn. f_equal. rewrite !skipn_all2 by (len_norm; lia). reflexivity.
  - (* Clear *)
    injection Hl' as <-. eexists; split; [reflexivity|]. stepo. cbn [apply_all_ok]. rewrite skipn_nil. reflexivity.
  - (* PushFront *)
    injection Hl' as <-.
    destruct (Nat.leb_spec c (length l)).
    + destruct (Nat.eqb_spec c 0) as [->|Hc].
      * eexists; split; [reflexivity|]. stepo. cbn [apply_all_ok]. reflexivity.
      * destruct (nth_error (x :: l) c) as [y|] eqn:E; eexists; (split; [reflexivity|]).
        -- stepo. cbn [apply_all_ok]. f_equal. unfold_vec. revert E. rewrite nth_error_cons_if.
           destruct (Nat.eqb_spec c 0); [lia|]. intro E.
           apply nth_error_ext; intro k. nth_norm. split_ifs; nth_arith.
           ++ rewrite <- E. f_equal. lia.
        -- apply nth_error_None in E. cbn [length] in E.
           cbn. f_equal. rewrite !skipn_all2 by (cbn [length]; lia). reflexivity.
    + eexists; split; [reflexivity|]. cbn. f_equal.
      rewrite !skipn_all2 by (cbn [length]; lia). reflexivity.
  - (* PushBack *)
    injection Hl' as <-.
    destruct (Nat.leb_spec c (length l)); eexists; (split; [reflexivity|]).
    + stepo. cbn [apply_all_ok]. f_equal. unfold_vec. list_ext.
    + cbn. f_equal. rewrite !skipn_all2 by (len_norm; lia). reflexivity.
  - (* PopFront *)
    injection Hl' as <-. apply Nat.ltb_lt in Hok.
    destruct (Nat.ltb_spec c (length l)); eexists; (split; [reflexivity|]).
    + stepo. cbn [apply_all_ok]. f_equal. unfold_vec. list_ext.
    + cbn. f_equal. rewrite !skipn_all2 by (len_norm; lia). reflexivity.
  - (* PopBack *)
    injection Hl' as <-. apply Nat.ltb_lt in Hok.
    destruct (Nat.ltb_spec c (length l)); eexists; (split; [reflexivity|]).
    + stepo. cbn [apply_all_ok]. f_equal. unfold_vec. list_ext.
    + cbn. f_equal. rewrite !skipn_all2 by (len_norm; lia). reflexivity.
  - (* Insert *)
    pose proof Hok as Hok'. apply Nat.leb_le in Hok'. rewrite insert_at_some in Hl' by lia.
    injection Hl' as <-.
    destruct (Nat.leb_spec c (length l)).
    + destruct (Nat.ltb_spec 0 c); destruct (Nat.ltb_spec i c); cbn [andb].
      * destruct (nth_error (firstn i l ++ x :: skipn i l) c) as [y|] eqn:E; eexists; (split; [reflexivity|]).
        -- stepo. cbn [apply_all_ok]. f_equal. unfold_vec. revert E. nth_norm. split_ifs; try lia. intro E.
           apply nth_error_ext; intro k. nth_norm. split_ifs; nth_arith.
           ++ rewrite <- E. f_equal. lia.
        -- apply nth_error_None in E. len_norm.
           cbn. f_equal. rewrite !skipn_all2 by (len_norm; lia). reflexivity.
      * unfold csub. replace (c <=? i) with true by (symmetry; apply Nat.leb_le; lia).
        eexists; split; [reflexivity|]. stepo. cbn [apply_all_ok]. f_equal. list_ext.
      * unfold csub. replace (c <=? i) with true by (symmetry; apply Nat.leb_le; lia).
        eexists; split; [reflexivity|]. stepo. cbn [apply_all_ok]. f_equal. list_ext.
      * unfold csub. replace (c <=? i) with true by (symmetry; apply Nat.leb_le; lia).
        eexists; split; [reflexivity|]. stepo. cbn [apply_all_ok]. f_equal. list_ext.
    + eexists; split; [reflexivity|]. cbn. f_equal.
      rewrite !skipn_all2 by (len_norm; lia). reflexivity.
  - (* SetAt *)
    pose proof Hok as Hok'. apply Nat.ltb_lt in Hok'. rewrite set_at_some in Hl' by lia.
    injection Hl' as <-.
    destruct (Nat.leb_spec c i); eexists; (split; [reflexivity|]).
    + stepo. cbn [apply_all_ok]. f_equal. list_ext.
    + cbn. f_equal. list_ext.
  - (* Remove *)
    pose proof Hok as Hok'. apply Nat.ltb_lt in Hok'. rewrite remove_at_some in Hl' by lia.
    injection Hl' as <-.
    destruct (Nat.ltb_spec c (length l)).
    + destruct (Nat.ltb_spec i c); eexists; (split; [reflexivity|]).
      * stepo. cbn [apply_all_ok]. f_equal. unfold_vec. list_ext.
      * stepo. cbn [apply_all_ok]. f_equal. list_ext.
    + eexists; split; [reflexivity|]. cbn. f_equal.
      rewrite !skipn_all2 by (len_norm; lia). reflexivity.
  - (* Truncate *)
    injection Hl' as <-. apply Nat.ltb_lt in Hok.
    destruct (Nat.ltb_spec c (length l)).
    + destruct (Nat.ltb_spec c n); eexists; (split; [reflexivity|]).
      * stepo. cbn [apply_all_ok]. f_equal. unfold_vec. list_ext.
      * stepo. cbn [apply_all_ok]. f_equal. rewrite skipn_all2 by (len_norm; lia). reflexivity.
    + eexists; split; [reflexivity|]. cbn. f_equal.
      rewrite !skipn_all2 by (len_norm; lia). reflexivity.
  - (* Reset *)
    injection Hl' as <-. eexists; split; [reflexivity|]. rewrite skeep_impl_skipn. stepo. reflexivity.
Qed.

Theorem skip_step st l v d :
  skip_R st l v -> ok_in d l = true ->
  exists st' outs l',
    skip_on_diff st d = Ok (st', outs) /\ apply d l = Some l' /\
    apply_all_ok outs v = Some (skip_view_of (s_count st) l') /\
    skip_R st' l' (skip_view_of (s_count st) l') /\ s_count st' = s_count st.
Proof.
  intros [Hb Hv] Hok. destruct st as [buf c]. cbn [s_buf s_count] in *. subst buf v.
  destruct (ok_in_apply_some d l Hok) as [l' Hl'].
  unfold skip_on_diff. cbn [s_buf s_count]. rewrite Hl'.
  destruct c as [c|].
  - destruct (skip_handle_ok c l d l' Hok Hl') as (outs & E1 & E2). rewrite E1.
    eexists _, _, _. repeat split; eauto.
  - eexists _, _, _. repeat split; eauto.
Qed.

Lemma map_PushFront_apply (ms : list A) v :
  apply_all_ok (map PushFront ms) v = Some (rev ms ++ v).
Proof.
  revert v; induction ms as [|m ms IH]; intros v; [reflexivity|].
  cbn [map]. erewrite aao_cons; [|reflexivity|reflexivity]. rewrite IH. unfold_vec.
  cbn [rev]. rewrite <- app_assoc. reflexivity.
Qed.

Lemma repeat_PopFront_apply k v :
  k <= length v -> apply_all_ok (repeat PopFront k) v = Some (skipn k v).
Proof.
  revert v; induction k as [|k IH]; intros v Hk; [reflexivity|].
  cbn [repeat]. erewrite aao_cons; [|cbn [ok_in]; apply Nat.ltb_lt; lia|reflexivity].
  rewrite IH by (unfold_vec; len_norm; lia). f_equal. unfold_vec. list_ext.
Qed.

(* a count change *)
Theorem skip_param_ok st l v n :
  skip_R st l v ->
  exists st' v',
    fst (skip_update_count st n) = st' /\
    apply_all_ok (match snd (skip_update_count st n) with Some ds => ds | None => [] end) v = Some v' /\
    skip_R st' l v' /\ s_count st' = Some n.
Proof.
  intros [Hb Hv]. destruct st as [buf oc]. cbn [s_buf s_count] in *. subst buf v.
  exists {| s_buf := l; s_count := Some n |}, (skipn n l).
  unfold skip_update_count. cbn [s_buf s_count].
  destruct l as [|a l0] eqn:El.
  { cbn [fst snd]. repeat split. destruct oc; cbn; rewrite ?skipn_nil; reflexivity. }
  rewrite <- El. assert (Hlen : 0 < length l) by (subst l; cbn; lia). clear El.
  destruct oc as [old|]; cbn [skip_view_of].
  2:{ cbn [fst snd]. repeat split. rewrite skeep_impl_skipn. stepo. reflexivity. }
  destruct (Nat.compare_spec (min old (length l)) (min n (length l))) as [He|Hlt|Hgt]; cbn [fst snd].
  - repeat split. cbn. f_equal.
    destruct (Nat.le_gt_cases (length l) old); destruct (Nat.le_gt_cases (length l) n);
      rewrite ?skipn_all2 by lia; try reflexivity; try lia.
    replace old with n by lia. reflexivity.
  - destruct (Nat.leb_spec (length l) (min n (length l))); cbn [fst snd]; repeat split.
    + stepo. cbn [apply_all_ok]. f_equal. rewrite skipn_all2 by lia. reflexivity.
    + rewrite repeat_PopFront_apply by (len_norm; lia). f_equal. list_ext.
  - destruct (Nat.eqb_spec (min old (length l)) (length l)); destruct (Nat.eqb_spec (min n (length l)) 0);
      cbn [andb fst snd].
    + repeat split. stepo. cbn [apply_all_ok]. f_equal. rewrite skipn_all2 by lia.
      replace n with 0 by lia. reflexivity.
    + destruct (firstn _ _) as [|m ms] eqn:Em; cbn [fst snd]; repeat split.
      * assert (Hl : length (firstn (min old (length l) - min n (length l))
                     (skipn (length l - min old (length l)) (rev l))) = 0) by (rewrite Em; reflexivity).
        len_norm. lia.
      * rewrite <- Em. rewrite map_PushFront_apply. f_equal. list_ext.
    + destruct (firstn _ _) as [|m ms] eqn:Em; cbn [fst snd]; repeat split.
      * assert (Hl : length (firstn (min old (length l) - min n (length l))
                     (skipn (length l - min old (length l)) (rev l))) = 0) by (rewrite Em; reflexivity).
        len_norm. lia.
      * rewrite <- Em. rewrite map_PushFront_apply. f_equal. list_ext.
    + destruct (firstn _ _) as [|m ms] eqn:Em; cbn [fst snd]; repeat split.
      * assert (Hl : length (firstn (min old (length l) - min n (length l))
                     (skipn (length l - min old (length l)) (rev l))) = 0) by (rewrite Em; reflexivity).
        len_norm. lia.
      * rewrite <- Em. rewrite map_PushFront_apply. f_equal. list_ext.
Qed.

(* update_count never returns Some [] (the poll loop would turn that into end-of-stream) *)
Lemma skip_update_count_nonempty st n : snd (skip_update_count st n) <> Some [].
Proof.
  unfold skip_update_count. destruct (s_buf st) as [|a l0] eqn:El; [discriminate|].
  destruct (s_count st) as [old|]; [|discriminate].
  set (len := length (a :: l0)).
  destruct (Nat.compare_spec (min old len) (min n len)); cbn [snd]; try discriminate.
  - destruct (len <=? min n len); [discriminate|].
    destruct (min n len - min old len) eqn:E; [lia|]. discriminate.
  - destruct (_ && _); cbn [snd]; [discriminate|].
    destruct (firstn _ _); cbn [snd]; discriminate.
Qed.

End SkipFacts.
