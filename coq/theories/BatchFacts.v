(* BatchFacts.v — C13: the batched and the unbatched flavour of an adapter emit the same diffs in
   the same order.  Both are characterised against one reference: the flat_map of on_diff over
   all queued input diffs. *)
From EB Require Import PollLoop.

Section Batch.
Context {I B St : Type}.
Variable on_diff : St -> I -> outcome (St * list (diff B)).
Variable on_param : St -> nat -> St * option (list (diff B)).

Lemma flat_map_diffs_app st xs ys :
  flat_map_diffs on_diff st (xs ++ ys) =
  match flat_map_diffs on_diff st xs with
  | Panic => Panic
  | Ok (st1, o1) =>
      match flat_map_diffs on_diff st1 ys with
      | Panic => Panic
      | Ok (st2, o2) => Ok (st2, o1 ++ o2)
      end
  end.
Proof.
  revert st; induction xs as [|x xs IH]; intros st; cbn [app flat_map_diffs].
  - destruct (flat_map_diffs on_diff st ys) as [[st2 o2]|]; reflexivity.
  - destruct (on_diff st x) as [[st1 o1]|]; [|reflexivity].
    rewrite IH. destruct (flat_map_diffs on_diff st1 xs) as [[st2 o2]|]; [|reflexivity].
    destruct (flat_map_diffs on_diff st2 ys) as [[st3 o3]|]; [|reflexivity].
    rewrite app_assoc. reflexivity.
Qed.

(* the diffs still to be delivered by an unbatched adapter: its ready buffer, then whatever the
   queued input diffs produce *)
Definition pending_u (s : @ustate B St) (qi : list I) : outcome (St * list (diff B)) :=
  match flat_map_diffs on_diff (u_st s) qi with
  | Panic => Panic
  | Ok (stf, outs) => Ok (stf, u_ready s ++ outs)
  end.

Definition pending_b (st : St) (qi : list (list I)) : outcome (St * list (diff B)) :=
  flat_map_diffs on_diff st (concat qi).

(* by definition, the two flavours have the same diffs still to deliver *)
Lemma pending_same st qi :
  pending_u {| u_st := st; u_ready := [] |} (concat qi) = pending_b st qi.
Proof.
  unfold pending_u, pending_b. cbn [u_st u_ready].
  destruct (flat_map_diffs on_diff st (concat qi)) as [[a b]|]; reflexivity.
Qed.

Lemma poll_inner_u_outs (hp : bool) st qi iend pend first tr s' qi' r tr' stf all :
  poll_inner_u on_diff hp st qi iend pend first tr = Ok (s', qi', r, tr') ->
  flat_map_diffs on_diff st qi = Ok (stf, all) ->
  match r with
  | Ready (Some o) => exists rest, pending_u s' qi' = Ok (stf, rest) /\ all = o :: rest
  | _ => all = [] /\ u_st s' = stf /\ qi' = [] /\ u_ready s' = []
  end.
Proof.
  revert st first tr all; induction qi as [|d rest IH]; intros st first tr all H F;
    cbn [poll_inner_u flat_map_diffs] in *.
  - injection H as <- <- <- <-. injection F as <- <-. destruct iend; repeat split.
  - destruct (on_diff st d) as [[st1 outs]|]; [|discriminate].
    destruct (flat_map_diffs on_diff st1 rest) as [[st2 outs2]|] eqn:F2; [|discriminate].
    injection F as <- <-.
    destruct outs as [|o outs'].
    + cbn [app]. eapply IH; eassumption.
    + injection H as <- <- <- <-. exists (outs' ++ outs2). split; [|reflexivity].
      unfold pending_u. cbn [u_st u_ready]. rewrite F2. reflexivity.
Qed.

(* one poll of the unbatched flavour (parameters fixed: nothing queued on the parameter stream)
   delivers exactly the next pending diff; it answers Pending / end only when nothing is pending *)
Theorem poll_u_next (hp : bool) s qi iend pend s' qi' qp' r tr stf all :
  poll_u on_diff on_param hp s qi iend [] pend = Ok (s', qi', qp', r, tr) ->
  pending_u s qi = Ok (stf, all) ->
  match r with
  | Ready (Some o) => exists rest, pending_u s' qi' = Ok (stf, rest) /\ all = o :: rest
  | _ => all = [] /\ u_st s' = stf /\ qi' = [] /\ u_ready s' = []
  end.
Proof.
  unfold poll_u, pending_u. destruct (u_ready s) as [|o rd] eqn:Er.
  - destruct (flat_map_diffs on_diff (u_st s) qi) as [[stf0 outs]|] eqn:F; [|discriminate].
    intros H P. injection P as <- <-. cbn [app].
    destruct hp; cbn [poll_params] in H.
    + destruct (poll_inner_u on_diff true (u_st s) qi iend pend true _) as [[[[s2 qi2] r2] tr2]|] eqn:Ei;
        [|discriminate].
      injection H as <- <- <- <- <-.
      exact (poll_inner_u_outs _ _ _ _ _ _ _ _ _ _ _ _ _ Ei F).
    + destruct (poll_inner_u on_diff false (u_st s) qi iend pend true _) as [[[[s2 qi2] r2] tr2]|] eqn:Ei;
        [|discriminate].
      injection H as <- <- <- <- <-.
      exact (poll_inner_u_outs _ _ _ _ _ _ _ _ _ _ _ _ _ Ei F).
  - intros H P. injection H as <- <- <- <- <-.
    destruct (flat_map_diffs on_diff (u_st s) qi) as [[stf0 outs]|] eqn:F; [|discriminate].
    injection P as <- <-. exists (rd ++ outs). split; [|reflexivity].
    cbn [u_st u_ready]. rewrite F. reflexivity.
Qed.

Lemma poll_inner_b_outs (hp : bool) st qi iend pend first tr st' qi' r tr' stf all :
  poll_inner_b on_diff hp st qi iend pend first tr = Ok (st', qi', r, tr') ->
  pending_b st qi = Ok (stf, all) ->
  match r with
  | Ready (Some outs) => outs <> [] /\ exists rest, pending_b st' qi' = Ok (stf, rest) /\ all = outs ++ rest
  | _ => all = [] /\ st' = stf /\ qi' = []
  end.
Proof.
  unfold pending_b.
  revert st first tr all; induction qi as [|b rest IH]; intros st first tr all H F;
    cbn [poll_inner_b concat] in *.
  - cbn [flat_map_diffs] in F. injection H as <- <- <- <-. injection F as <- <-. destruct iend; repeat split.
  - rewrite flat_map_diffs_app in F.
    destruct (flat_map_diffs on_diff st b) as [[st1 outs]|]; [|discriminate].
    destruct (flat_map_diffs on_diff st1 (concat rest)) as [[st2 outs2]|] eqn:F2; [|discriminate].
    injection F as <- <-.
    destruct outs as [|o outs'].
    + cbn [app]. eapply IH; eassumption.
    + injection H as <- <- <- <-. split; [discriminate|]. exists outs2. split; [assumption|reflexivity].
Qed.

(* one poll of the batched flavour delivers a non-empty prefix of the pending diffs: everything
   one source batch produces (skipping batches that produce nothing) *)
Theorem poll_b_next (hp : bool) st qi iend pend st' qi' qp' r tr stf all :
  poll_b on_diff on_param hp st qi iend [] pend = Ok (st', qi', qp', r, tr) ->
  pending_b st qi = Ok (stf, all) ->
  match r with
  | Ready (Some outs) => outs <> [] /\ exists rest, pending_b st' qi' = Ok (stf, rest) /\ all = outs ++ rest
  | _ => all = [] /\ st' = stf /\ qi' = []
  end.
Proof.
  unfold poll_b. intros H P.
  destruct hp; cbn [poll_params] in H.
  - destruct (poll_inner_b on_diff true st qi iend pend true _) as [[[[st2 qi2] r2] tr2]|] eqn:Ei;
      [|discriminate].
    injection H as <- <- <- <- <-.
    exact (poll_inner_b_outs _ _ _ _ _ _ _ _ _ _ _ _ _ Ei P).
  - destruct (poll_inner_b on_diff false st qi iend pend true _) as [[[[st2 qi2] r2] tr2]|] eqn:Ei;
      [|discriminate].
    injection H as <- <- <- <- <-.
    exact (poll_inner_b_outs _ _ _ _ _ _ _ _ _ _ _ _ _ Ei P).
Qed.

(* a parameter change produces one batch holding exactly the diffs update_* returned *)
Lemma poll_b_param (hp : bool) st qi iend n qp pend st1 ds :
  hp = true -> on_param st n = (st1, Some ds) -> ds <> [] ->
  exists tr, poll_b on_diff on_param hp st qi iend (n :: qp) pend
             = Ok (st1, qi, qp, Ready (Some ds), tr).
Proof.
  intros Hh E Hne. unfold poll_b. rewrite Hh. cbn [poll_params]. rewrite E.
  destruct ds; [congruence|]. eexists; reflexivity.
Qed.

End Batch.
