(* OVecDrainAux.v — auxiliary lemmas for OVecDrainFacts.v: what the vector side can do to the
   state while a subscriber is in the middle of a poll, and the loop invariants of the racing
   drain loops of OVecDrain.v. *)
From EB Require Import OVec OVecRun OVecFacts OVecExtra OVecStepwise OVecDrain AdapterCore ListTac.

Section DrainAux.
Context {A : Type}.
Implicit Types (o : ovec A) (g : gst A).

(* ---------------- what the environment preserves ---------------- *)

(* the same subscriber record up to the waiting flag *)
Definition same_sub (s s' : sub A) : Prop :=
  sb_next s' = sb_next s /\ sb_batched s' = sb_batched s /\ sb_state s' = sb_state s.

Lemma same_sub_refl (s : sub A) : same_sub s s.
Proof. repeat split. Qed.

Lemma same_sub_trans (s1 s2 s3 : sub A) : same_sub s1 s2 -> same_sub s2 s3 -> same_sub s1 s3.
Proof. intros (H1 & H2 & H3) (K1 & K2 & K3). repeat split; congruence. Qed.

(* the log only grows, the capacity is fixed, subscriber k keeps its position *)
Definition ext_k (k : nat) o o' : Prop :=
  (exists new, log o' = log o ++ new) /\ cap2 o' = cap2 o /\
  forall s, nth_error (subs o) k = Some (Some s) ->
    exists s', nth_error (subs o') k = Some (Some s') /\ same_sub s s'.

Lemma ext_k_refl k o : ext_k k o o.
Proof.
  split; [exists []; rewrite app_nil_r; reflexivity|]. split; [reflexivity|].
  intros s E. exists s. split; [exact E|apply same_sub_refl].
Qed.

Lemma ext_k_trans k o1 o2 o3 : ext_k k o1 o2 -> ext_k k o2 o3 -> ext_k k o1 o3.
Proof.
  intros ([n1 L1] & C1 & S1) ([n2 L2] & C2 & S2).
  split; [exists (n1 ++ n2); rewrite L2, L1, app_assoc; reflexivity|].
  split; [congruence|]. intros s E.
  destruct (S1 s E) as (s2 & E2 & R2). destruct (S2 s2 E2) as (s3 & E3 & R3).
  exists s3. split; [exact E3|eapply same_sub_trans; eassumption].
Qed.

Lemma ext_k_same k o o' new :
  log o' = log o ++ new -> cap2 o' = cap2 o -> subs o' = subs o -> ext_k k o o'.
Proof.
  intros L C S. split; [eauto|]. split; [exact C|]. rewrite S.
  intros s E. exists s. split; [exact E|apply same_sub_refl].
Qed.

Lemma nth_error_wake_all_some ss k (s : sub A) :
  nth_error ss k = Some (Some s) -> nth_error (wake_all ss) k = Some (Some (wake1 s)).
Proof. intro E. unfold wake_all. rewrite nth_error_map, E. reflexivity. Qed.

Lemma ext_k_wake k o o' new :
  log o' = log o ++ new -> cap2 o' = cap2 o -> subs o' = wake_all (subs o) -> ext_k k o o'.
Proof.
  intros L C S. split; [eauto|]. split; [exact C|]. rewrite S.
  intros s E. exists (wake1 s). split; [apply nth_error_wake_all_some; exact E|repeat split].
Qed.

Lemma send_ext k o o1 (mg : msg A) :
  log o1 = log o -> cap2 o1 = cap2 o -> subs o1 = subs o -> ext_k k o (fst (send o1 mg)).
Proof.
  intros L C S. unfold send. destruct (rx_cnt o1 =? 0); cbn [fst].
  - apply (ext_k_same k o o1 []); rewrite ?app_nil_r; assumption.
  - apply (ext_k_wake k o _ [mg]); cbn [log cap2 subs]; congruence.
Qed.

Lemma ovec_mutate_ext k o m o' r w : ovec_mutate o m = Ok (o', r, w) -> ext_k k o o'.
Proof.
  intro H. pose proof (ovec_mutate_spec o m) as S.
  destruct (mutate m (values o) false) as [[[v' r0] od]|]; [|congruence].
  destruct S as (o1 & w1 & E & _ & Hc & _ & _ & Hl). rewrite E in H. injection H as <- _ _.
  destruct od as [d|].
  - destruct (rx_cnt o =? 0); destruct Hl as [Hl Hs].
    + apply (ext_k_same k o o1 []); rewrite ?app_nil_r; assumption.
    + eapply ext_k_wake; eassumption.
  - destruct Hl as [Hl Hs]. apply (ext_k_same k o o1 []); rewrite ?app_nil_r; assumption.
Qed.

Lemma do_mut_ext k o in_txn m o' r w : do_mut o in_txn m = Ok (o', r, w) -> ext_k k o o'.
Proof.
  unfold do_mut. destruct in_txn.
  - destruct (txn_mutate o m) as [[o1 r1]|] eqn:E; [|discriminate].
    intro H; injection H as <- _ _. destruct (txn_mutate_invisible _ _ _ _ E) as (_ & Hl & Hs & Hc & _).
    apply (ext_k_same k o o1 []); rewrite ?app_nil_r; assumption.
  - apply ovec_mutate_ext.
Qed.

Lemma for_each_ext k o in_txn decs o' vis w : for_each o in_txn decs = Ok (o', vis, w) -> ext_k k o o'.
Proof.
  unfold for_each. intro H.
  refine (traverse_preserves (fun x => ext_k k o x) in_txn _ _ _ _ _ _ _ _ _ _ (ext_k_refl k o) H).
  intros o0 m o1 r w0 HP E. eapply ext_k_trans; [exact HP|]. eapply do_mut_ext; eassumption.
Qed.

Ltac noextra := exists []; rewrite app_nil_r; reflexivity.

(* one operation of the other side *)
Lemma gstep_env k g x g' out :
  env_op k x = true -> gstep g x = Ok (g', out) ->
  ext_k k (g_o g) (g_o g') /\ exists extra, g_gh g' = g_gh g ++ extra.
Proof.
  intros He. unfold gstep. destruct x; cbn [env_op] in He; try discriminate.
  - (* OMut *) destruct (_ || _); [discriminate|].
    destruct (ovec_mutate (g_o g) m) as [[[o' r] w]|] eqn:E; [|discriminate].
    intro H; injection H as <- _. cbn [g_o g_gh]. split; [eapply ovec_mutate_ext; eassumption|noextra].
  - (* OEach *) destruct (_ || _); [discriminate|].
    destruct (for_each (g_o g) false decs) as [[[o' r] w]|] eqn:E; [|discriminate].
    intro H; injection H as <- _. cbn [g_o g_gh]. split; [eapply for_each_ext; eassumption|noextra].
  - (* OSub *) destruct (_ || _); [discriminate|]. unfold subscribe.
    intro H; injection H as <- _. cbn [g_o g_gh]. split; [|eauto].
    split; [exists []; rewrite app_nil_r; reflexivity|]. split; [reflexivity|].
    cbn [subs with_subs]. intros s E. exists s. split; [|apply same_sub_refl].
    rewrite nth_error_app1 by (eapply nth_error_some_lt; eassumption). exact E.
  - (* ODropSub *) intro H; injection H as <- _. cbn [g_o g_gh]. split; [|noextra].
    split; [exists []; rewrite app_nil_r; reflexivity|]. split; [reflexivity|].
    unfold drop_sub. cbn [subs with_subs]. intros s E. exists s. split; [|apply same_sub_refl].
    rewrite nth_error_set_nth_neq; [exact E|].
    apply negb_true_iff in He. apply Nat.eqb_neq in He. congruence.
  - (* OTxnBegin *) destruct (_ || _); [discriminate|].
    intro H; injection H as <- _. cbn [g_o g_gh]. split; [|noextra].
    apply (ext_k_same k _ _ []); rewrite ?app_nil_r; reflexivity.
  - (* OTMut *) destruct (txn_mutate (g_o g) m) as [[o' r]|] eqn:E; [|discriminate].
    intro H; injection H as <- _. cbn [g_o g_gh]. split; [|noextra].
    destruct (txn_mutate_invisible _ _ _ _ E) as (_ & Hl & Hs & Hc & _).
    apply (ext_k_same k _ _ []); rewrite ?app_nil_r; assumption.
  - (* OTEach *) destruct (cur_txn (g_o g)); [|discriminate].
    destruct (for_each (g_o g) true decs) as [[[o' r] w]|] eqn:E; [|discriminate].
    intro H; injection H as <- _. cbn [g_o g_gh]. split; [eapply for_each_ext; eassumption|noextra].
  - (* OTRollback *) destruct (cur_txn (g_o g)) eqn:Et; [|discriminate].
    intro H; injection H as <- _. cbn [g_o g_gh]. split; [|noextra].
    unfold txn_rollback. rewrite Et. apply (ext_k_same k _ _ []); rewrite ?app_nil_r; reflexivity.
  - (* OTCommit *) destruct (cur_txn (g_o g)) eqn:Et; [|discriminate].
    intro H; injection H as <- _. cbn [g_o g_gh]. split; [|noextra].
    unfold txn_commit. rewrite Et. destruct (tx_batch t).
    + cbn [fst]. apply (ext_k_same k _ _ []); rewrite ?app_nil_r; reflexivity.
    + apply send_ext; reflexivity.
  - (* OTDrop *) destruct (cur_txn (g_o g)); [|discriminate].
    intro H; injection H as <- _. cbn [g_o g_gh]. split; [|noextra].
    apply (ext_k_same k _ _ []); rewrite ?app_nil_r; reflexivity.
  - (* ODropVec *) destruct (_ || _); [discriminate|].
    intro H; injection H as <- _. cbn [g_o g_gh]. split; [|noextra].
    apply (ext_k_wake k _ _ []); rewrite ?app_nil_r; reflexivity.
Qed.

(* the state reached from g by operations of the other side, during a poll of subscriber k *)
Definition envr (k : nat) g g1 : Prop :=
  step_inv g1 /\ ext_k k (g_o g) (g_o g1) /\ exists extra, g_gh g1 = g_gh g ++ extra.

Lemma envr_refl k g : step_inv g -> envr k g g.
Proof. intro H. split; [exact H|]. split; [apply ext_k_refl|noextra]. Qed.

Lemma envr_trans k g1 g2 g3 : envr k g1 g2 -> envr k g2 g3 -> envr k g1 g3.
Proof.
  intros (_ & E1 & [x1 X1]) (I & E2 & [x2 X2]). split; [exact I|].
  split; [eapply ext_k_trans; eassumption|]. exists (x1 ++ x2). rewrite X2, X1, app_assoc. reflexivity.
Qed.

Lemma envr_grun k xs : forall g, step_inv g -> env_ops k xs = true -> envr k g (grun g xs).
Proof.
  induction xs as [|x xs IH]; intros g Hg He; cbn [grun]; [apply envr_refl; exact Hg|].
  unfold env_ops in He. cbn [forallb] in He. apply andb_prop in He as [Hx He].
  destruct (gstep g x) as [[g' out]|] eqn:E; [|apply IH; assumption].
  eapply envr_trans; [|apply IH; [eapply step_inv_step; eassumption|exact He]].
  split; [eapply step_inv_step; eassumption|]. eapply gstep_env; eassumption.
Qed.

Lemma envr_facts k g g1 s gh :
  envr k g g1 -> nth_error (subs (g_o g)) k = Some (Some s) -> nth_error (g_gh g) k = Some gh ->
  step_inv g1 /\ cap2 (g_o g1) = cap2 (g_o g) /\ length (log (g_o g)) <= length (log (g_o g1)) /\
  nth_error (g_gh g1) k = Some gh /\
  exists s1, nth_error (subs (g_o g1)) k = Some (Some s1) /\ same_sub s s1.
Proof.
  intros (I & ([new L] & C & S) & [extra X]) Ek Eg.
  split; [exact I|]. split; [exact C|]. split; [rewrite L, app_length; lia|].
  split; [|apply S; exact Ek].
  rewrite X, nth_error_app1 by (eapply nth_error_some_lt; eassumption). exact Eg.
Qed.

Lemma envr_len k g g1 : envr k g g1 -> length (log (g_o g)) <= length (log (g_o g1)).
Proof. intros (_ & ([new L] & _) & _). rewrite L, app_length. lia. Qed.

Lemma envr_cap2 k g g1 : envr k g g1 -> cap2 (g_o g1) = cap2 (g_o g).
Proof. intros (_ & (_ & C & _) & _). exact C. Qed.

Lemma step_inv_cap2 g : step_inv g -> 1 <= cap2 (g_o g).
Proof. intros [(_ & _ & H & _) _]. exact H. Qed.

Lemma step_inv_wf g : step_inv g -> Forall msg_wf (log (g_o g)).
Proof. intros [(_ & _ & _ & H & _) _]. exact H. Qed.

(* ---------------- the sequential loops from any position ---------------- *)
Lemma back_exists (lg : list (msg A)) : 0 < length lg -> exists m, back lg = Some m.
Proof.
  intro H. unfold back. destruct (nth_error lg (length lg - 1)) as [m|] eqn:E; [eauto|].
  apply nth_error_None in E. lia.
Qed.

Lemma handle_lag_S_lagged (lg : list (msg A)) c cl n last f :
  c < length lg - n ->
  handle_lag (S f) lg c cl n last = handle_lag f lg c cl (length lg - c) last.
Proof. intro Hl. cbn [handle_lag]. rewrite try_recv_lagged by exact Hl. reflexivity. Qed.

Lemma handle_lag_any (lg : list (msg A)) c cl n last (m : msg A) :
  1 <= c -> n <= length lg -> (if n <? length lg then back lg else last) = Some m ->
  handle_lag (S (S (length lg))) lg c cl n last = (Ok (Some (m_state m)), length lg).
Proof.
  intros Hc Hn Hm. destruct (Nat.le_gt_cases (length lg - n) c) as [Hw|Hl].
  - apply handle_lag_drain; try lia. exact Hm.
  - rewrite handle_lag_S_lagged by exact Hl.
    apply handle_lag_drain; try lia.
    destruct (Nat.ltb_spec n (length lg)); [|lia].
    destruct (Nat.ltb_spec (length lg - c) (length lg)); [exact Hm|lia].
Qed.

Lemma batch_loop_lagged (lg : list (msg A)) c cl n batch (m : msg A) :
  1 <= c -> c < length lg - n -> back lg = Some m ->
  batch_loop (S (S (length lg))) lg c cl n batch = (Ok (Some [Reset (m_state m)]), length lg).
Proof.
  intros Hc Hl Hb. cbn [batch_loop]. rewrite try_recv_lagged by exact Hl.
  rewrite (handle_lag_after_lag lg c cl n m Hc Hl Hb). reflexivity.
Qed.

(* ---------------- list facts ---------------- *)
Lemma firstn_S_nth {X} (l : list X) n x : nth_error l n = Some x -> firstn (S n) l = firstn n l ++ [x].
Proof.
  revert n; induction l as [|y l IH]; intros [|n] H; cbn [nth_error] in H; try discriminate.
  - injection H as ->. rewrite firstn_cons, !firstn_O. reflexivity.
  - rewrite !firstn_cons, (IH n H). reflexivity.
Qed.

Lemma firstn_app_le {X} (l new : list X) n : n <= length l -> firstn n (l ++ new) = firstn n l.
Proof.
  intro H. rewrite firstn_app. replace (n - length l) with 0 by lia.
  rewrite firstn_O, app_nil_r. reflexivity.
Qed.

Lemma skipn_firstn_skipn {X} (l : list X) a n :
  a <= n -> n <= length l -> skipn a (firstn n l) ++ skipn n l = skipn a l.
Proof.
  intros Ha Hn. rewrite <- (firstn_skipn n l) at 3. rewrite skipn_app.
  rewrite firstn_length. replace (a - Nat.min n (length l)) with 0 by lia. reflexivity.
Qed.

(* ---------------- handle_lag against a moving sender ---------------- *)
Definition hl_inv o (next : nat) (last : option (msg A)) : Prop :=
  next <= length (log o) /\ 0 < length (log o) /\ (next = length (log o) -> last = back (log o)).

Lemma hl_inv_ext k o o' next last : ext_k k o o' -> hl_inv o next last -> hl_inv o' next last.
Proof.
  intros ([new L] & _) (H1 & H2 & H3). unfold hl_inv. rewrite L.
  destruct new as [|x new]; [rewrite app_nil_r; auto|].
  rewrite app_length. cbn [length]. split; [lia|]. split; [lia|]. intro; lia.
Qed.

Lemma c_handle_lag_spec k : forall inj g next last used,
  step_inv g -> forallb (env_ops k) inj = true -> hl_inv (g_o g) next last ->
  exists g1 u mb n',
    c_handle_lag inj g next last used = (Ok (Some (m_state mb)), n', g1, u) /\
    n' = length (log (g_o g1)) /\ envr k g g1 /\ back (log (g_o g1)) = Some mb /\
    used <= u /\ u <= used + length inj.
Proof.
  induction inj as [|xs inj IH]; intros g next last used Hg Hinj (H1 & H2 & H3).
  - cbn [c_handle_lag].
    assert (Hm : exists mb, (if next <? length (log (g_o g)) then back (log (g_o g)) else last) = Some mb
                            /\ back (log (g_o g)) = Some mb).
    { destruct (back_exists _ H2) as [mb Eb]. exists mb. split; [|exact Eb].
      destruct (Nat.ltb_spec next (length (log (g_o g)))); [exact Eb|]. rewrite H3 by lia. exact Eb. }
    destruct Hm as (mb & Hm & Eb).
    rewrite (handle_lag_any _ _ _ _ _ mb (step_inv_cap2 _ Hg) H1 Hm).
    exists g, used, mb, (length (log (g_o g))). split; [reflexivity|]. split; [reflexivity|].
    split; [apply envr_refl; exact Hg|]. split; [exact Eb|]. cbn [length]. lia.
  - cbn [forallb] in Hinj. apply andb_prop in Hinj as [Hxs Hinj].
    pose proof (envr_grun k xs g Hg Hxs) as Henv. cbn [c_handle_lag].
    set (g1 := grun g xs) in *.
    assert (Hg1 : step_inv g1) by apply Henv.
    pose proof (step_inv_cap2 _ Hg1) as Hc1.
    destruct (hl_inv_ext k _ _ _ _ (proj1 (proj2 Henv)) (conj H1 (conj H2 H3))) as (K1 & K2 & K3).
    destruct (Nat.eq_dec next (length (log (g_o g1)))) as [Heq|Hne].
    + (* at the tail: the loop ends *)
      destruct (back_exists _ K2) as [mb Eb]. rewrite (K3 Heq), Eb in *.
      rewrite Heq, try_recv_end.
      exists g1, (S used), mb, (length (log (g_o g1))).
      split; [destruct (negb (alive (g_o g1))); rewrite ?Eb; reflexivity|].
      split; [reflexivity|]. split; [exact Henv|]. split; [exact Eb|]. cbn [length]. lia.
    + destruct (Nat.le_gt_cases (length (log (g_o g1)) - next) (cap2 (g_o g1))) as [Hw|Hl].
      * (* a message *)
        destruct (try_recv_window (log (g_o g1)) (cap2 (g_o g1)) (negb (alive (g_o g1))) next
                    ltac:(lia) Hw) as (m & Em & ->).
        destruct (IH g1 (S next) (Some m) (S used) Hg1 Hinj) as (g2 & u & mb & n' & E & En & Henv2 & Eb & U1 & U2).
        { split; [lia|]. split; [lia|]. intro Hs. rewrite <- Em. unfold back. f_equal. lia. }
        exists g2, u, mb, n'. split; [exact E|]. split; [exact En|].
        split; [eapply envr_trans; eassumption|]. split; [exact Eb|]. cbn [length]. lia.
      * (* lagged again *)
        rewrite try_recv_lagged by exact Hl.
        destruct (IH g1 (length (log (g_o g1)) - cap2 (g_o g1)) last (S used) Hg1 Hinj)
          as (g2 & u & mb & n' & E & En & Henv2 & Eb & U1 & U2).
        { split; [lia|]. split; [lia|]. intro; lia. }
        exists g2, u, mb, n'. split; [exact E|]. split; [exact En|].
        split; [eapply envr_trans; eassumption|]. split; [exact Eb|]. cbn [length]. lia.
Qed.

(* ---------------- the batch loop against a moving sender ---------------- *)
Definition bl_inv o (a next : nat) (batch : list (diff A)) : Prop :=
  a < next /\ next <= length (log o) /\ batch = all_diffs (skipn a (firstn next (log o))).

Lemma bl_inv_ext k o o' a next batch : ext_k k o o' -> bl_inv o a next batch -> bl_inv o' a next batch.
Proof.
  intros ([new L] & _) (H1 & H2 & H3). unfold bl_inv. rewrite L, app_length.
  split; [exact H1|]. split; [lia|]. rewrite firstn_app_le by exact H2. exact H3.
Qed.

Lemma c_batch_loop_spec k : forall inj g a next batch used,
  step_inv g -> forallb (env_ops k) inj = true -> bl_inv (g_o g) a next batch ->
  exists g1 u r n',
    c_batch_loop inj g next batch used = (Ok (Some r), n', g1, u) /\
    n' = length (log (g_o g1)) /\ envr k g g1 /\ used <= u /\ u <= used + length inj /\
    (r = all_diffs (skipn a (log (g_o g1))) \/
     exists mb, back (log (g_o g1)) = Some mb /\ r = [Reset (m_state mb)] /\
                cap2 (g_o g) < length (log (g_o g1)) - a).
Proof.
  induction inj as [|xs inj IH]; intros g a next batch used Hg Hinj (H1 & H2 & H3).
  - cbn [c_batch_loop]. pose proof (step_inv_cap2 _ Hg) as Hc.
    destruct (Nat.le_gt_cases (length (log (g_o g)) - next) (cap2 (g_o g))) as [Hw|Hl].
    + rewrite batch_loop_window by lia.
      exists g, used, (batch ++ all_diffs (skipn next (log (g_o g)))), (length (log (g_o g))).
      split; [reflexivity|]. split; [reflexivity|]. split; [apply envr_refl; exact Hg|].
      split; [lia|]. split; [cbn [length]; lia|]. left.
      rewrite H3, <- all_diffs_app, skipn_firstn_skipn by lia. reflexivity.
    + destruct (back_exists (log (g_o g)) ltac:(lia)) as [mb Eb].
      rewrite (batch_loop_lagged _ _ _ _ _ mb Hc Hl Eb).
      exists g, used, [Reset (m_state mb)], (length (log (g_o g))).
      split; [reflexivity|]. split; [reflexivity|]. split; [apply envr_refl; exact Hg|].
      split; [lia|]. split; [cbn [length]; lia|]. right. exists mb. split; [exact Eb|]. split; [reflexivity|lia].
  - cbn [forallb] in Hinj. apply andb_prop in Hinj as [Hxs Hinj].
    pose proof (envr_grun k xs g Hg Hxs) as Henv. cbn [c_batch_loop].
    set (g1 := grun g xs) in *.
    assert (Hg1 : step_inv g1) by apply Henv.
    pose proof (step_inv_cap2 _ Hg1) as Hc1.
    pose proof (envr_cap2 _ _ _ Henv) as Hcap.
    destruct (bl_inv_ext k _ _ _ _ _ (proj1 (proj2 Henv)) (conj H1 (conj H2 H3))) as (K1 & K2 & K3).
    destruct (Nat.eq_dec next (length (log (g_o g1)))) as [Heq|Hne].
    + (* at the tail: the batch is complete *)
      rewrite Heq, try_recv_end.
      exists g1, (S used), batch, (length (log (g_o g1))).
      split; [destruct (negb (alive (g_o g1))); reflexivity|].
      split; [reflexivity|]. split; [exact Henv|]. split; [lia|]. split; [cbn [length]; lia|].
      left. rewrite K3, Heq, firstn_all. reflexivity.
    + destruct (Nat.le_gt_cases (length (log (g_o g1)) - next) (cap2 (g_o g1))) as [Hw|Hl].
      * destruct (try_recv_window (log (g_o g1)) (cap2 (g_o g1)) (negb (alive (g_o g1))) next
                    ltac:(lia) Hw) as (m & Em & ->).
        destruct (IH g1 a (S next) (batch ++ m_diffs m) (S used) Hg1 Hinj)
          as (g2 & u & r & n' & E & En & Henv2 & U1 & U2 & Hr).
        { split; [lia|]. split; [lia|].
          rewrite (firstn_S_nth _ _ _ Em), all_diffs_skipn_snoc by (rewrite firstn_length; lia).
          rewrite K3. reflexivity. }
        exists g2, u, r, n'. split; [exact E|]. split; [exact En|].
        split; [eapply envr_trans; eassumption|]. split; [lia|]. split; [cbn [length]; lia|].
        rewrite <- Hcap. exact Hr.
      * rewrite try_recv_lagged by exact Hl.
        destruct (c_handle_lag_spec k inj g1 (length (log (g_o g1)) - cap2 (g_o g1)) None (S used) Hg1 Hinj)
          as (g2 & u & mb & n' & E & En & Henv2 & Eb & U1 & U2).
        { split; [lia|]. split; [lia|]. intro; lia. }
        rewrite E. exists g2, u, [Reset (m_state mb)], n'. split; [reflexivity|]. split; [exact En|].
        split; [eapply envr_trans; eassumption|]. split; [lia|]. split; [cbn [length]; lia|].
        right. exists mb. split; [exact Eb|]. split; [reflexivity|].
        pose proof (envr_len _ _ _ Henv2). lia.
Qed.

End DrainAux.
