(* DiffFacts.v — proofs about VectorDiff::map / apply (C18) and general diff lemmas. *)
From EB Require Import Diff ListVecFacts.

Section DiffFacts.
Context {A : Type}.
Implicit Types (l : list A) (d : diff A).

Lemma map_apply_commute {B} (f : A -> B) d l :
  apply (dmap f d) (map f l) = option_map (map f) (apply d l).
Proof.
  destruct d; cbn [dmap apply]; unfold push_front, push_back, pop_front, pop_back, truncate,
    insert_at, set_at, remove_at; rewrite ?map_length; cbn [option_map].
  - rewrite map_app; reflexivity.
  - reflexivity.
  - reflexivity.
  - rewrite map_app; reflexivity.
  - rewrite map_tl; reflexivity.
  - rewrite map_removelast; reflexivity.
  - destruct (i <=? length l); cbn [option_map]; [|reflexivity].
    rewrite map_app, firstn_map, map_cons, skipn_map. reflexivity.
  - destruct (i <? length l); cbn [option_map]; [|reflexivity].
    rewrite map_app, firstn_map, map_cons, skipn_map. reflexivity.
  - destruct (i <? length l); cbn [option_map]; [|reflexivity].
    rewrite map_app, firstn_map, skipn_map. reflexivity.
  - rewrite firstn_map; reflexivity.
  - reflexivity.
Qed.

Lemma dmap_id d : dmap (fun x => x) d = d.
Proof. destruct d; simpl; rewrite ?map_id; reflexivity. Qed.

Lemma dmap_ext {B} (f g : A -> B) d : (forall x, f x = g x) -> dmap f d = dmap g d.
Proof.
  intro H; destruct d; simpl; rewrite ?H; try reflexivity;
    f_equal; apply map_ext; assumption.
Qed.

Lemma apply_panics_iff_oob d l : apply d l = None <-> oob d l = true.
Proof.
  destruct d; simpl; unfold insert_at, set_at, remove_at; try (split; discriminate).
  - destruct (Nat.leb_spec i (length l)), (Nat.ltb_spec (length l) i); try lia;
      split; congruence.
  - destruct (Nat.ltb_spec i (length l)), (Nat.leb_spec (length l) i); try lia;
      split; congruence.
  - destruct (Nat.ltb_spec i (length l)), (Nat.leb_spec (length l) i); try lia;
      split; congruence.
Qed.

Lemma apply_documented_effect d l l' :
  apply d l = Some l' -> forall k, nth_error l' k = spec_nth d l k.
Proof.
  destruct d; cbn [apply spec_nth]; unfold push_front, push_back, pop_front, pop_back, truncate,
    insert_at, set_at, remove_at; intros H k.
  - injection H as <-. apply nth_error_app.
  - injection H as <-. destruct k; reflexivity.
  - injection H as <-. destruct k; reflexivity.
  - injection H as <-. rewrite nth_error_app. cbn [length].
    destruct (Nat.ltb_spec k (length l)); [reflexivity|].
    destruct (Nat.eqb_spec k (length l)).
    + subst; rewrite Nat.sub_diag; reflexivity.
    + destruct (k - length l) as [|m] eqn:E; [lia|]. cbn [nth_error]. destruct m; reflexivity.
  - injection H as <-. apply nth_error_tl.
  - injection H as <-. apply nth_error_removelast.
  - destruct (Nat.leb_spec i (length l)); [|discriminate]. injection H as <-.
    rewrite nth_error_app, firstn_length, Nat.min_l by assumption.
    destruct (Nat.ltb_spec k i).
    + rewrite nth_error_firstn. destruct (Nat.ltb_spec k i); [reflexivity|lia].
    + destruct (Nat.eqb_spec k i).
      * subst; rewrite Nat.sub_diag; reflexivity.
      * destruct (k - i) as [|m] eqn:E; [lia|]. cbn [nth_error].
        rewrite nth_error_skipn. f_equal. lia.
  - destruct (Nat.ltb_spec i (length l)); [|discriminate]. injection H as <-.
    rewrite nth_error_app, firstn_length, Nat.min_l by lia.
    destruct (Nat.eqb_spec k i).
    + subst. rewrite Nat.ltb_irrefl, Nat.sub_diag. reflexivity.
    + destruct (Nat.ltb_spec k i).
      * rewrite nth_error_firstn. destruct (Nat.ltb_spec k i); [reflexivity|lia].
      * destruct (k - i) as [|m] eqn:E; [lia|]. cbn [nth_error].
        rewrite nth_error_skipn. f_equal. lia.
  - destruct (Nat.ltb_spec i (length l)); [|discriminate]. injection H as <-.
    rewrite nth_error_app, firstn_length, Nat.min_l by lia.
    destruct (Nat.ltb_spec k i).
    + rewrite nth_error_firstn. destruct (Nat.ltb_spec k i); [reflexivity|lia].
    + rewrite nth_error_skipn. f_equal. lia.
  - injection H as <-. apply nth_error_firstn.
  - injection H as <-. reflexivity.
Qed.

(* The element-wise description determines the result. *)
Lemma apply_unique_by_spec d l l' l'' :
  apply d l = Some l' -> (forall k, nth_error l'' k = spec_nth d l k) -> l'' = l'.
Proof.
  intros H H2. apply nth_error_ext. intro k.
  rewrite H2. symmetry. eapply apply_documented_effect; eassumption.
Qed.

Lemma ok_in_apply_some d l : ok_in d l = true -> exists l', apply d l = Some l'.
Proof.
  destruct d; simpl; unfold insert_at, set_at, remove_at; intro H; try (eexists; reflexivity);
    rewrite H; eexists; reflexivity.
Qed.

End DiffFacts.
