(* FullStackFacts.v — theorems about FullStack.v: the three crates wired together.
   Generic in the adapter (any step / parameter function correct w.r.t. a relation R and a
   "current parameter" projection), instantiated for Head and Skip at the end. *)
From EB Require Import Diff AdapterCore PollLoop OVec OVecRun Obs ObsSpec FullStack.
From EB Require Import OVecFacts OVecExtra ObsFacts ObsSeqFacts Head HeadFacts Skip SkipFacts.
From EB Require Import ListTac FullStackAux.
From Coq Require Import Lia.

(* update_if with a closure that changes the value but answers false stores WITHOUT announcing
   (C01: "update_if notifies exactly when its closure returns true"); the adapter follows the
   latest limit ANNOUNCED, so the statements that compare with the observable's current value
   exclude such silent stores *)
Definition no_silent {A} (evs : list (fev A)) : Prop :=
  forall v, ~ In (FLim (WUpdateIf v false)) evs.

Section Facts.
Context {A St : Type}.
Variable veq heq : nat -> nat -> bool.
Variable vdefault : nat.
Variable on_diff : St -> diff A -> outcome (St * list (diff A)).
Variable on_param : St -> nat -> St * option (list (diff A)).
Variable init : nat -> list A -> St * list A.
Variable R : St -> list A -> list A -> Prop.
Variable param : St -> nat.

Hypothesis Hinit : forall n l, R (fst (init n l)) l (snd (init n l)) /\ param (fst (init n l)) = n.
Hypothesis Hstep : step_ok on_diff R.
Hypothesis Hstep_param : forall st d st' outs, on_diff st d = Ok (st', outs) -> param st' = param st.
Hypothesis Hparam : param_ok on_param R.
Hypothesis Hparam_set : forall st n, param (fst (on_param st n)) = n.
Hypothesis Hshape : forall st n, snd (on_param st n) <> Some [].

Notation fstep := (fstep veq heq vdefault on_diff on_param init).
Notation frun := (frun veq heq vdefault on_diff on_param init).

(* ---------------- the poll loop over the two real leaves ---------------- *)
Section LoopFacts.
Variable ns : Prop.            (* "no silent store so far" *)
Variables k j : nat.           (* the vector subscriber / the limit subscriber the adapter owns *)

(* the limit side: the observable is in a reachable state, subscriber j is alive, and - as long as
   nothing was stored silently - if it has seen the current version of the (open) observable, the
   adapter's parameter is the observable's value *)
Definition limok (st : St) (o : obs nat) : Prop :=
  ObsSpec.oinv o /\
  exists ov, nth_error (Obs.subs o) j = Some (Some ov) /\
    (ns -> ver o <> 0 -> ov = ver o -> param st = val o).

(* the vector side: reachable state, subscriber k alive and plain, and the adapter state stands for
   the replica of subscriber k while the consumer (after the parked diffs) holds v *)
Definition vecok (st : St) (v : list A) (g : gst A) : Prop :=
  ginv_strong g /\ subk k (OVec.subs (g_o g)) /\
  exists gh, nth_error (g_gh g) k = Some gh /\ R st (gh_replica gh) v.

Notation lp := (lpoll veq heq vdefault j).
Notation fparams' := (fparams on_param (lpoll veq heq vdefault j)).
Notation floop' := (floop on_diff on_param (vinner k) (lpoll veq heq vdefault j)).
Notation fpoll' := (fpoll on_diff on_param (vinner k) (lpoll veq heq vdefault j)).

Definition odl (od : option (list (diff A))) : list (diff A) :=
  match od with Some ds => ds | None => [] end.

Lemma limok_param st st' o : param st' = param st -> limok st o -> limok st' o.
Proof.
  intros E (Ho & ov & Hj & Hl). split; [exact Ho|]. exists ov. split; [exact Hj|].
  rewrite E. exact Hl.
Qed.

Lemma emit (d : diff A) ds v v' :
  apply_all_ok (d :: ds) v = Some v' ->
  exists v1, apply_all_ok [d] v = Some v1 /\ apply_all_ok ds v1 = Some v'.
Proof.
  intro H. apply aao_cons_inv in H as (v1 & Hok & Hap & Hr).
  exists v1. split; [apply aao_single; assumption|exact Hr].
Qed.

(* the limit stream of a subscriber that is up to date (or whose observable is closed) answers
   Pending (or None) at once *)
Lemma fparams_caught f st (o : obs nat) ov :
  ObsSpec.oinv o -> nth_error (Obs.subs o) j = Some (Some ov) ->
  (ver o = 0 \/ ov = ver o) ->
  (ns -> ver o <> 0 -> param st = val o) ->
  exists o', fparams' (S f) st o = ROk (st, o', None) /\ limok st o' /\
    (ver o' <> 0 -> In j (wakers o') /\ (ns -> param st = val o')).
Proof.
  intros Ho Hj Hc Hl. cbn [fparams].
  destruct (lpoll_spec veq heq vdefault o j ov Ho Hj) as [(Hv & E)|[(Hv & Hlt & E)|(Hv & Heq & E)]].
  - rewrite E. exists o. split; [reflexivity|]. split.
    + split; [exact Ho|]. exists ov. split; [exact Hj|]. intros; contradiction.
    + intro; contradiction.
  - exfalso. lia.
  - rewrite E. eexists. split; [reflexivity|].
    destruct (lpoll_step _ _ _ _ _ _ _ E) as (w & Es).
    pose proof (oinv_step _ _ _ _ _ _ _ _ Ho Es) as Ho'.
    cbn [ver val wakers upd Obs.subs]. split.
    + split; [exact Ho'|]. exists ov. cbn [ver val wakers upd Obs.subs]. split; [exact Hj|].
      intros Hn Hv' _. apply Hl; assumption.
    + intros _. split; [apply in_or_app; right; left; reflexivity|]. intro Hn. apply Hl; assumption.
Qed.

(* the `while let Ready(Some(n)) = limit_stream.poll_next()` loop: at most two polls *)
Lemma fparams_spec fuel st (o : obs nat) l v :
  limok st o -> R st l v ->
  match fparams' fuel st o with
  | RPanic => False
  | RFuel => fuel < 2
  | ROk (st', o', od) =>
      limok st' o' /\ od <> Some [] /\
      (exists v', apply_all_ok (odl od) v = Some v' /\ R st' l v') /\
      (od = None -> ver o' <> 0 -> In j (wakers o') /\ (ns -> param st' = val o'))
  end.
Proof.
  intros (Ho & ov & Hj & Hl) HR.
  destruct fuel as [|f]; [cbn [fparams]; lia|].
  pose proof Ho as (_ & Hb & _). pose proof (Hb _ _ Hj) as Hle.
  destruct (Nat.eq_dec (ver o) 0) as [Hz|Hnz].
  { destruct (fparams_caught f st o ov Ho Hj (or_introl Hz)) as (o' & -> & Hl' & Hp).
    - intros; contradiction.
    - split; [exact Hl'|]. split; [discriminate|]. split; [exists v; split; [reflexivity|exact HR]|].
      intros _. exact Hp. }
  specialize (Hle Hnz).
  destruct (Nat.eq_dec ov (ver o)) as [He|Hne].
  { destruct (fparams_caught f st o ov Ho Hj (or_intror He)) as (o' & -> & Hl' & Hp).
    - intros Hn _. apply Hl; assumption.
    - split; [exact Hl'|]. split; [discriminate|]. split; [exists v; split; [reflexivity|exact HR]|].
      intros _. exact Hp. }
  (* an unseen update: Ready(Some(val o)) *)
  destruct (lpoll_spec veq heq vdefault o j ov Ho Hj) as [(Hv & E)|[(Hv & Hlt & E)|(Hv & Heq & E)]];
    [contradiction| |contradiction].
  cbn [fparams]. rewrite E.
  destruct (lpoll_step _ _ _ _ _ _ _ E) as (w & Es).
  pose proof (oinv_step _ _ _ _ _ _ _ _ Ho Es) as Ho1.
  set (o1 := Obs.with_subs o (Obs.set_nth j (Some (ver o)) (Obs.subs o))) in *.
  assert (Hj1 : nth_error (Obs.subs o1) j = Some (Some (ver o1))).
  { unfold o1. cbn [Obs.subs Obs.with_subs ver]. eapply nth_set_nth_hit. exact Hj. }
  destruct (Hparam st l v (val o) HR) as (st1' & v1 & E1 & E2 & HR1).
  pose proof (Hparam_set st (val o)) as Hps.
  pose proof (Hshape st (val o)) as Hsh.
  destruct (on_param st (val o)) as [st1 od] eqn:Ep. cbn [fst snd] in *. subst st1'.
  assert (Hl1 : limok st1 o1).
  { split; [exact Ho1|]. exists (ver o1). split; [exact Hj1|]. intros _ _ _. exact Hps. }
  destruct od as [ds|].
  - split; [exact Hl1|]. split; [exact Hsh|]. split; [exists v1; split; assumption|]. discriminate.
  - destruct f as [|f']; [cbn [fparams]; lia|].
    destruct (fparams_caught f' st1 o1 (ver o1) Ho1 Hj1 (or_intror eq_refl)) as (o' & -> & Hl' & Hp).
    + intros _ _. exact Hps.
    + split; [exact Hl'|]. split; [discriminate|]. split; [exists v1; split; assumption|].
      intros _. exact Hp.
Qed.

(* what an answered poll establishes; v = the consumer's view before the answer *)
Definition post (v : list A)
  (x : ustate (B:=A) (St:=St) * gst A * obs nat * poll (option (diff A))) : Prop :=
  let '(u', g', o', r) := x in
  exists v1 v2,
    match r with Ready (Some d) => apply_all_ok [d] v = Some v1 | _ => v1 = v end /\
    apply_all_ok (u_ready u') v1 = Some v2 /\
    limok (u_st u') o' /\ vecok (u_st u') v2 g' /\
    (r = Pending ->
       u_ready u' = [] /\ R (u_st u') (values (g_o g')) v /\
       (exists sb, nth_error (OVec.subs (g_o g')) k = Some (Some sb) /\ sb_waiting sb = true) /\
       (ver o' <> 0 -> In j (wakers o') /\ (ns -> param (u_st u') = val o'))).

Lemma vinner_eq g g' r :
  gstep g (OPoll k) = Ok (g', VPoll r) ->
  vinner k g = match r return outcome (gst A * poll (option (diff A))) with
               | Pending => Ok (g', Pending)
               | Ready None => Ok (g', Ready None)
               | Ready (Some (IDiff d)) => Ok (g', Ready (Some d))
               | Ready (Some (IBatch _)) => Panic
               end.
Proof. intro E. unfold vinner. rewrite E. destruct r as [[[d|ds]|]|]; reflexivity. Qed.

(* one iteration of `loop { .. }`: out of fuel only with fuel < 2, or an answer, or one more
   iteration after the vector subscriber handed out one of its finitely many items *)
Lemma floop_iter f st g (o : obs nat) v :
  limok st o -> vecok st v g ->
  (S f < 2 /\ floop' (S f) st g o = RFuel) \/
  (exists x, floop' (S f) st g o = ROk x /\ post v x) \/
  (exists st2 g1 o1, floop' (S f) st g o = floop' f st2 g1 o1 /\
      limok st2 o1 /\ vecok st2 v g1 /\ S (muk k g1) = muk k g).
Proof.
  intros Hl Hv. pose proof Hv as (Hg & Hsk & gh & Egh & HR).
  pose proof (fparams_spec (S f) st o _ v Hl HR) as Hp.
  cbn [floop].
  destruct (fparams on_param (lpoll veq heq vdefault j) (S f) st o) as [| |[[st1 o1] od]].
  - left. split; [exact Hp|reflexivity].
  - contradiction.
  - destruct Hp as (Hl1 & Hsh & (v' & Eap & HR1) & Hpend).
    destruct od as [[|d ds]|].
    + congruence.
    + right; left. eexists. split; [reflexivity|]. unfold post.
      cbn [odl] in Eap. destruct (emit _ _ _ _ Eap) as (v1 & E1 & E2).
      exists v1, v'. cbn [u_st u_ready]. split; [exact E1|]. split; [exact E2|]. split; [exact Hl1|].
      split; [|discriminate]. split; [exact Hg|]. split; [exact Hsk|]. exists gh. split; assumption.
    + cbn [odl apply_all_ok] in Eap. injection Eap as <-.
      destruct Hsk as (sb & Esb & Hb).
      destruct (gpoll_plain k g sb gh Hg Esb Hb Egh) as (g' & r & E & Hg' & (sb' & Esb' & Hb' & Hw) & Hr).
      rewrite (vinner_eq _ _ _ E).
      assert (Hsk' : subk k (OVec.subs (g_o g'))) by (exists sb'; split; assumption).
      destruct r as [[it|]|].
      * destruct Hr as (d & gh' & -> & Egh' & Hap & Hmu).
        apply aao_cons_inv in Hap as (l1 & Hok & Hap & Hnil). cbn [apply_all_ok] in Hnil. injection Hnil as ->.
        destruct (Hstep st1 (gh_replica gh) v d HR1 Hok) as (st2 & outs & l' & v2 & E1 & E2 & E3 & HR2).
        rewrite Hap in E2. injection E2 as <-.
        pose proof (Hstep_param _ _ _ _ E1) as Hpar.
        rewrite E1. destruct outs as [|o0 outs].
        -- right; right. exists st2, g', o1. split; [reflexivity|].
           split; [eapply limok_param; eassumption|]. split; [|exact Hmu].
           cbn [apply_all_ok] in E3. injection E3 as <-.
           split; [exact Hg'|]. split; [exact Hsk'|]. exists gh'. split; assumption.
        -- right; left. eexists. split; [reflexivity|]. unfold post.
           destruct (emit _ _ _ _ E3) as (v1 & E4 & E5).
           exists v1, v2. cbn [u_st u_ready]. split; [exact E4|]. split; [exact E5|].
           split; [eapply limok_param; eassumption|]. split; [|discriminate].
           split; [exact Hg'|]. split; [exact Hsk'|]. exists gh'. split; assumption.
      * destruct Hr as (Egh' & Hval).
        right; left. eexists. split; [reflexivity|]. unfold post.
        exists v, v. cbn [u_st u_ready]. split; [reflexivity|]. split; [reflexivity|].
        split; [exact Hl1|]. split; [|discriminate].
        split; [exact Hg'|]. split; [exact Hsk'|]. exists gh. split; assumption.
      * destruct Hr as (Egh' & Hval).
        right; left. eexists. split; [reflexivity|]. unfold post.
        exists v, v. cbn [u_st u_ready]. split; [reflexivity|]. split; [reflexivity|].
        split; [exact Hl1|]. split.
        -- split; [exact Hg'|]. split; [exact Hsk'|]. exists gh. split; assumption.
        -- intros _. split; [reflexivity|]. split; [rewrite <- Hval; exact HR1|].
           split; [exists sb'; split; [exact Esb'|apply Hw; reflexivity]|].
           exact (Hpend eq_refl).
Qed.

Lemma floop_ok : forall fuel st g (o : obs nat) v,
  limok st o -> vecok st v g ->
  match floop' fuel st g o with
  | RPanic => False
  | RFuel => True
  | ROk x => post v x
  end.
Proof.
  induction fuel as [|f IH]; intros st g o v Hl Hv; [exact I|].
  destruct (floop_iter f st g o v Hl Hv) as [(_ & ->)|[(x & -> & Hx)|(st2 & g1 & o1 & -> & Hl2 & Hv2 & _)]].
  - exact I.
  - exact Hx.
  - apply IH; assumption.
Qed.

(* T6: the loop runs out of fuel only if the fuel is less than the number of items the vector
   subscriber can still hand out, plus two *)
Lemma floop_term : forall fuel st g (o : obs nat) v,
  limok st o -> vecok st v g -> muk k g + 2 <= fuel -> floop' fuel st g o <> RFuel.
Proof.
  induction fuel as [|f IH]; intros st g o v Hl Hv Hf; [lia|].
  destruct (floop_iter f st g o v Hl Hv) as [(Hlt & _)|[(x & -> & Hx)|(st2 & g1 & o1 & -> & Hl2 & Hv2 & Hmu)]].
  - lia.
  - discriminate.
  - apply (IH _ _ _ v); try assumption. lia.
Qed.

Lemma fpoll_ok fuel (u : ustate (B:=A) (St:=St)) g (o : obs nat) view v' :
  apply_all_ok (u_ready u) view = Some v' -> limok (u_st u) o -> vecok (u_st u) v' g ->
  match fpoll' fuel u g o with
  | RPanic => False
  | RFuel => True
  | ROk x => post view x
  end.
Proof.
  intros Eap Hl Hv. unfold fpoll. destruct (u_ready u) as [|d r].
  - cbn [apply_all_ok] in Eap. injection Eap as <-. apply floop_ok; assumption.
  - unfold post. destruct (emit _ _ _ _ Eap) as (v1 & E1 & E2).
    exists v1, v'. cbn [u_st u_ready]. split; [exact E1|]. split; [exact E2|].
    split; [exact Hl|]. split; [exact Hv|]. discriminate.
Qed.

Lemma fpoll_term fuel (u : ustate (B:=A) (St:=St)) g (o : obs nat) view v' :
  apply_all_ok (u_ready u) view = Some v' -> limok (u_st u) o -> vecok (u_st u) v' g ->
  muk k g + 2 <= fuel -> fpoll' fuel u g o <> RFuel.
Proof.
  intros Eap Hl Hv Hf. unfold fpoll. destruct (u_ready u) as [|d r]; [|discriminate].
  cbn [apply_all_ok] in Eap. injection Eap as <-. eapply floop_term; eassumption.
Qed.

End LoopFacts.

(* ---------------- the invariant of whole histories ---------------- *)
Definition finv (ns : Prop) (s : fs A St) : Prop :=
  ginv_strong (f_g s) /\ ObsSpec.oinv (f_lim s) /\ f_ok s = true /\
  match f_ad s with
  | None => True
  | Some a =>
      exists v', apply_all_ok (u_ready (a_u a)) (a_view a) = Some v' /\
        limok ns (a_j a) (u_st (a_u a)) (f_lim s) /\
        vecok (a_k a) (u_st (a_u a)) v' (f_g s)
  end.

Lemma finv_init (ns : Prop) capacity okd limit0 : finv ns (fs_init capacity okd limit0).
Proof.
  unfold finv, fs_init. cbn [f_g f_lim f_ok f_ad].
  split; [apply ginv_strong_init|]. split; [apply oinv_new|]. split; [reflexivity|exact I].
Qed.

Lemma fstep_ok (ns : Prop) s e :
  finv ns s -> (ns -> forall v, e <> FLim (WUpdateIf v false)) ->
  match fstep s e with
  | RPanic => False
  | RFuel => True
  | ROk (s', _) => finv ns s'
  end.
Proof.
  intros Hinv Hns. pose proof Hinv as (Hg & Ho & Hok & Had).
  destruct e as [x|x| |fuel]; unfold FullStack.fstep.
  - (* FVec *)
    destruct (owns_vec s x) eqn:Eo; [exact Hinv|].
    destruct (gstep (f_g s) x) as [[g' out]|] eqn:E; [|exact Hinv].
    unfold finv. cbn [f_g f_lim f_ok f_ad].
    split; [eapply ginv_strong_step; eassumption|]. split; [exact Ho|]. split; [exact Hok|].
    unfold owns_vec in Eo.
    destruct (f_ad s) as [a|]; [|exact I].
    destruct Had as (v' & Eap & Hl & (_ & Hsk & gh & Egh & HR)).
    exists v'. split; [exact Eap|]. split; [exact Hl|].
    assert (Hx1 : x <> OPoll (a_k a)) by (intros ->; rewrite Nat.eqb_refl in Eo; discriminate).
    assert (Hx2 : x <> ODropSub (a_k a)) by (intros ->; rewrite Nat.eqb_refl in Eo; discriminate).
    assert (Hlen : a_k a < length (g_gh (f_g s))) by (eapply nth_error_some_lt; eassumption).
    destruct (gstep_other (a_k a) _ _ _ _ E Hx1 Hx2 Hsk Hlen) as (Hsk' & Egh').
    split; [eapply ginv_strong_step; eassumption|]. split; [exact Hsk'|].
    exists gh. split; [rewrite Egh'; exact Egh|exact HR].
  - (* FLim *)
    destruct (owns_lim s x) eqn:Eo; [exact Hinv|].
    destruct (Obs.step veq heq vdefault (f_lim s) x) as [[[o' out] w]|] eqn:E; [|exact Hinv].
    pose proof (oinv_step _ _ _ _ _ _ _ _ Ho E) as Ho'.
    unfold finv. cbn [f_g f_lim f_ok f_ad].
    split; [exact Hg|]. split; [exact Ho'|]. split; [exact Hok|].
    unfold owns_lim in Eo.
    destruct (f_ad s) as [a|]; [|exact I].
    destruct Had as (v' & Eap & (_ & ov & Hj & Hl) & Hv).
    exists v'. split; [exact Eap|]. split; [|exact Hv].
    assert (Hx : op_sub x <> Some (a_j a)).
    { destruct (op_sub x) as [k0|]; [|discriminate].
      intro H; injection H as ->. rewrite Nat.eqb_refl in Eo. discriminate. }
    destruct (ostep_other veq heq vdefault _ _ _ _ _ _ _ Ho Hx E Hj) as (ov' & Hj' & Hback).
    split; [exact Ho'|]. exists ov'. split; [exact Hj'|].
    intros Hn Hv' He.
    assert (Hx' : forall v0, x <> WUpdateIf v0 false).
    { intros v0 ->. apply (Hns Hn v0). reflexivity. }
    destruct (Hback Hx' Hv' He) as (Hv0 & He0 & ->). apply Hl; assumption.
  - (* FAttach *)
    destruct (f_ad s) as [a|] eqn:Ea; [exact Hinv|].
    destruct (gstep_sub_plain (f_g s)) as [E1|E1]; rewrite E1; [exact Hinv|].
    destruct (ostep_subscribe veq heq vdefault (f_lim s)) as [E2|E2]; rewrite E2; [exact Hinv|].
    pose proof (Hinit (val (f_lim s)) (values (g_o (f_g s)))) as (HRi & Hpi).
    destruct (init (val (f_lim s)) (values (g_o (f_g s)))) as [st0 view0]. cbn [fst snd] in HRi, Hpi.
    pose proof (ginv_strong_step _ _ _ _ Hg E1) as Hg'.
    pose proof (oinv_step _ _ _ _ _ _ _ _ Ho E2) as Ho'.
    unfold finv. cbn [f_g f_lim f_ok f_ad a_k a_j a_u a_view u_st u_ready].
    split; [exact Hg'|]. split; [exact Ho'|]. split; [exact Hok|].
    exists view0. split; [reflexivity|]. split.
    + split; [exact Ho'|]. exists (ver (f_lim s)). cbn [Obs.subs Obs.with_subs ver val]. split.
      * rewrite nth_error_app2 by lia. rewrite Nat.sub_diag. reflexivity.
      * intros _ _ _. exact Hpi.
    + split; [exact Hg'|]. cbn [g_o g_gh OVec.subs OVec.with_subs]. split.
      * eexists. split; [rewrite nth_error_app2 by lia; rewrite Nat.sub_diag; reflexivity|reflexivity].
      * eexists. rewrite <- (ginv_strong_len _ Hg). split.
        -- rewrite nth_error_app2 by lia. rewrite Nat.sub_diag. reflexivity.
        -- exact HRi.
  - (* FPoll *)
    destruct (f_ad s) as [a|] eqn:Ea; [|unfold finv; rewrite Ea; auto].
    destruct Had as (v' & Eap & Hl & Hv).
    pose proof (fpoll_ok ns (a_k a) (a_j a) fuel (a_u a) (f_g s) (f_lim s) (a_view a) v' Eap Hl Hv) as Hp.
    destruct (fpoll on_diff on_param (vinner (a_k a)) (lpoll veq heq vdefault (a_j a)) fuel
                (a_u a) (f_g s) (f_lim s)) as [| |[[[u' g'] o'] r]]; [exact I|contradiction|].
    destruct Hp as (v1 & v2 & Hr & E2 & Hl' & Hv' & _).
    assert (Hfin : forall view', apply_all_ok (u_ready u') view' = Some v2 ->
      finv ns {| f_g := g'; f_lim := o';
                 f_ad := Some {| a_k := a_k a; a_j := a_j a; a_u := u'; a_view := view' |};
                 f_ok := f_ok s && true |}).
    { intros view' Ev. unfold finv. cbn [f_g f_lim f_ok f_ad a_k a_j a_u a_view].
      split; [apply Hv'|]. split; [apply Hl'|]. split; [rewrite Hok; reflexivity|].
      exists v2. split; [exact Ev|]. split; assumption. }
    destruct r as [[d|]|].
    + rewrite Hr. apply Hfin. exact E2.
    + subst v1. apply Hfin. exact E2.
    + subst v1. apply Hfin. exact E2.
Qed.

Lemma no_silent_cons (e : fev A) evs :
  no_silent (e :: evs) -> (forall v, e <> FLim (WUpdateIf v false)) /\ no_silent evs.
Proof.
  intro H. split.
  - intros v ->. apply (H v). left. reflexivity.
  - intros v Hin. apply (H v). right. exact Hin.
Qed.

Lemma frun_ok (ns : Prop) : forall evs s,
  finv ns s -> (ns -> no_silent evs) ->
  match frun s evs with
  | RPanic => False
  | RFuel => True
  | ROk s' => finv ns s'
  end.
Proof.
  induction evs as [|e evs IH]; intros s Hinv Hns; cbn [FullStack.frun]; [exact Hinv|].
  assert (H1 : ns -> forall v, e <> FLim (WUpdateIf v false))
    by (intro Hn; apply (no_silent_cons _ _ (Hns Hn))).
  assert (H2 : ns -> no_silent evs) by (intro Hn; apply (no_silent_cons _ _ (Hns Hn))).
  pose proof (fstep_ok ns s e Hinv H1) as Hs.
  destruct (fstep s e) as [| |[s' out]]; [exact I|contradiction|].
  apply IH; assumption.
Qed.

Lemma frun_inv (ns : Prop) capacity okd limit0 evs s :
  (ns -> no_silent evs) -> frun (fs_init capacity okd limit0) evs = ROk s -> finv ns s.
Proof.
  intros Hns E.
  pose proof (frun_ok ns evs _ (finv_init ns capacity okd limit0) Hns) as H.
  rewrite E in H. exact H.
Qed.

(* a poll that answers Pending *)
Lemma fstep_pending (ns : Prop) s fuel s' :
  finv ns s -> fstep s (FPoll fuel) = ROk (s', FAnswer Pending) ->
  exists a, f_ad s' = Some a /\ u_ready (a_u a) = [] /\
    R (u_st (a_u a)) (values (g_o (f_g s'))) (a_view a) /\
    (exists sb, nth_error (OVec.subs (g_o (f_g s'))) (a_k a) = Some (Some sb) /\ sb_waiting sb = true) /\
    (ver (f_lim s') <> 0 ->
       In (a_j a) (wakers (f_lim s')) /\ (ns -> param (u_st (a_u a)) = val (f_lim s'))).
Proof.
  intros (Hg & Ho & Hok & Had) H. unfold FullStack.fstep in H.
  destruct (f_ad s) as [a|]; [|discriminate].
  destruct Had as (v' & Eap & Hl & Hv).
  pose proof (fpoll_ok ns (a_k a) (a_j a) fuel (a_u a) (f_g s) (f_lim s) (a_view a) v' Eap Hl Hv) as Hp.
  destruct (fpoll on_diff on_param (vinner (a_k a)) (lpoll veq heq vdefault (a_j a)) fuel
              (a_u a) (f_g s) (f_lim s)) as [| |[[[u' g'] o'] r]]; try discriminate.
  destruct r as [[d|]|].
  - destruct (apply_all_ok [d] (a_view a)); discriminate.
  - discriminate.
  - injection H as <-. destruct Hp as (v1 & v2 & -> & _ & _ & _ & Hpend).
    destruct (Hpend eq_refl) as (P1 & P2 & P3 & P4).
    eexists. cbn [f_ad f_g f_lim a_u a_k a_j a_view]. split; [reflexivity|].
    cbn [a_u a_k a_j a_view]. auto.
Qed.

(* STATEMENTS (see the task description).  Each is stated for every capacity, kind of
   observable, initial limit and history. *)

(* T1: nothing ever panics: no adapter panic, no unreachable!/expect in the vector's stream, no
   poll of a dropped subscriber *)
Theorem full_never_panics :
  forall capacity okd limit0 evs, frun (fs_init capacity okd limit0) evs <> RPanic.
Proof.
  intros capacity okd limit0 evs E.
  pose proof (frun_ok False evs _ (finv_init False capacity okd limit0) (fun f => False_ind _ f)) as H.
  rewrite E in H. exact H.
Qed.

(* T2: every item handed out is applicable to the consumer's view, and the adapter state always
   stands for the replica of its vector subscriber, the consumer's view being behind by exactly
   the parked diffs *)
Theorem full_invariant :
  forall capacity okd limit0 evs s,
    frun (fs_init capacity okd limit0) evs = ROk s ->
    f_ok s = true /\
    match f_ad s with
    | None => True
    | Some a =>
        exists gh v', nth_error (g_gh (f_g s)) (a_k a) = Some gh /\
                      apply_all_ok (u_ready (a_u a)) (a_view a) = Some v' /\
                      R (u_st (a_u a)) (gh_replica gh) v'
    end.
Proof.
  intros capacity okd limit0 evs s E.
  destruct (frun_inv False capacity okd limit0 evs s (fun f => False_ind _ f) E) as (_ & _ & Hok & Had).
  split; [exact Hok|]. destruct (f_ad s) as [a|]; [|exact I].
  destruct Had as (v' & Eap & _ & (_ & _ & gh & Egh & HR)).
  exists gh, v'. auto.
Qed.

(* T3: whenever the adapter's stream answers Pending, the consumer's view is the adapter's view of
   the vector's CURRENT contents under the observable's CURRENT value (while the observable has an
   owner), whatever happened on either side, whatever the capacity (lag, Reset), however rarely
   the stream was polled *)
Theorem full_view_at_pending :
  forall capacity okd limit0 evs s fuel s',
    frun (fs_init capacity okd limit0) evs = ROk s ->
    fstep s (FPoll fuel) = ROk (s', FAnswer Pending) ->
    no_silent evs ->
    exists a, f_ad s' = Some a /\ u_ready (a_u a) = [] /\
      R (u_st (a_u a)) (values (g_o (f_g s'))) (a_view a) /\
      (ver (f_lim s') <> 0 -> param (u_st (a_u a)) = val (f_lim s')).
Proof.
  intros capacity okd limit0 evs s fuel s' E H Hns.
  pose proof (frun_inv (no_silent evs) capacity okd limit0 evs s (fun x => x) E) as Hinv.
  destruct (fstep_pending _ _ _ _ Hinv H) as (a & Ea & P1 & P2 & _ & P4).
  exists a. split; [exact Ea|]. split; [exact P1|]. split; [exact P2|].
  intro Hv. apply (P4 Hv). exact Hns.
Qed.

(* T4: ... and the task's waker is registered with both real leaves: the vector's receiver is
   waiting, and the observable's waker list holds the limit subscriber's entry (while the
   observable has an owner; afterwards its stream has ended and cannot become ready again) *)
Theorem full_pending_registers :
  forall capacity okd limit0 evs s fuel s',
    frun (fs_init capacity okd limit0) evs = ROk s ->
    fstep s (FPoll fuel) = ROk (s', FAnswer Pending) ->
    exists a, f_ad s' = Some a /\
      (exists sb, nth_error (OVec.subs (g_o (f_g s'))) (a_k a) = Some (Some sb) /\ sb_waiting sb = true) /\
      (ver (f_lim s') <> 0 -> In (a_j a) (wakers (f_lim s'))).
Proof.
  intros capacity okd limit0 evs s fuel s' E H.
  pose proof (frun_inv False capacity okd limit0 evs s (fun f => False_ind _ f) E) as Hinv.
  destruct (fstep_pending _ _ _ _ Hinv H) as (a & Ea & _ & _ & P3 & P4).
  exists a. split; [exact Ea|]. split; [exact P3|]. intro Hv. apply (P4 Hv).
Qed.

(* T5: hence every notifying update of the limit and the closing of the observable wake the task
   (the vector side is C14_subscriber_stream_pending_is_woken applied to the first conjunct of T4) *)
Theorem full_limit_change_wakes :
  forall capacity okd limit0 evs s fuel s' a x o' out w,
    frun (fs_init capacity okd limit0) evs = ROk s ->
    fstep s (FPoll fuel) = ROk (s', FAnswer Pending) ->
    f_ad s' = Some a ->
    Obs.step veq heq vdefault (f_lim s') x = Ok (o', out, w) ->
    ver o' <> ver (f_lim s') ->
    In (a_j a) w.
Proof.
  intros capacity okd limit0 evs s fuel s' a x o' out w E H Ea Es Hver.
  pose proof (frun_inv False capacity okd limit0 evs s (fun f => False_ind _ f) E) as Hinv.
  destruct (fstep_pending _ _ _ _ Hinv H) as (a0 & Ea0 & _ & _ & _ & P4).
  rewrite Ea in Ea0. injection Ea0 as <-.
  pose proof (fstep_ok False s (FPoll fuel) Hinv (fun f => False_ind _ f)) as Hs'.
  rewrite H in Hs'. destruct Hs' as (_ & Ho' & _).
  destruct (version_change_wakes_all_reach _ _ _ _ _ _ _ _ Ho' Es) as (Hw & _).
  destruct (Hw Hver) as (-> & _).
  destruct (Nat.eq_dec (ver (f_lim s')) 0) as [Hz|Hnz].
  - exfalso. pose proof Ho' as ((Hz1 & _) & _ & _).
    destruct (after_end _ _ _ _ _ _ _ _ Ho' (Hz1 Hz) Es) as (Hown & _).
    pose proof (oinv_step _ _ _ _ _ _ _ _ Ho' Es) as ((_ & Hz2) & _ & _).
    apply Hver. rewrite Hz. apply Hz2. exact Hown.
  - apply (P4 Hnz).
Qed.

(* T6: a poll always answers, given enough fuel: the number of items the adapter's vector
   subscriber can still be handed (FullStackAux.muk), plus two for the limit stream *)
Theorem full_poll_terminates :
  forall capacity okd limit0 evs s,
    frun (fs_init capacity okd limit0) evs = ROk s ->
    exists fuel, forall fuel', fuel <= fuel' -> fstep s (FPoll fuel') <> RFuel.
Proof.
  intros capacity okd limit0 evs s E.
  pose proof (frun_inv False capacity okd limit0 evs s (fun f => False_ind _ f) E) as (Hg & Ho & Hok & Had).
  destruct (f_ad s) as [a|] eqn:Ea.
  - destruct Had as (v' & Eap & Hl & Hv).
    exists (muk (a_k a) (f_g s) + 2). intros fuel' Hf. unfold FullStack.fstep. rewrite Ea.
    pose proof (fpoll_term False (a_k a) (a_j a) fuel' (a_u a) (f_g s) (f_lim s) (a_view a) v'
                  Eap Hl Hv Hf) as Ht.
    destruct (fpoll on_diff on_param (vinner (a_k a)) (lpoll veq heq vdefault (a_j a)) fuel'
                (a_u a) (f_g s) (f_lim s)) as [| |[[[u' g'] o'] r]]; [contradiction|discriminate|].
    destruct r as [[d|]|]; [destruct (apply_all_ok [d] (a_view a))|..]; discriminate.
  - exists 0. intros fuel' _. unfold FullStack.fstep. rewrite Ea. discriminate.
Qed.

End Facts.

(* ---------------- instances ---------------- *)

(* Head: dynamic_head_with_initial_value(limit.get(), limit.subscribe()) *)
Definition head_full_init {A} (n : nat) (l : list A) : head_st A * list A :=
  (snd (head_init n l), fst (head_init n l)).

Section HeadInst.
Context {A : Type}.

Lemma head_full_init_ok n (l : list A) :
  head_R (fst (head_full_init n l)) l (snd (head_full_init n l)) /\
  h_limit (fst (head_full_init n l)) = n.
Proof.
  unfold head_full_init. cbn [fst snd]. destruct (head_init_ok n l) as [E HR]. rewrite E.
  split; [exact HR|reflexivity].
Qed.

Lemma head_step_ok : step_ok (@head_on_diff A) head_R.
Proof.
  intros st l v d HR Hok.
  destruct (head_step_bound st l v d HR Hok) as (st' & outs & l' & E1 & E2 & E3 & HR' & _).
  exists st', outs, l', (firstn (h_limit st) l').
  split; [exact E1|]. split; [exact E2|]. split; [eapply apply_all_ok_bound_ok; exact E3|exact HR'].
Qed.

Lemma head_on_diff_limit (st : head_st A) d st' outs :
  head_on_diff st d = Ok (st', outs) -> h_limit st' = h_limit st.
Proof.
  unfold head_on_diff. destruct (apply d (h_buf st)); [|discriminate].
  destruct (2 <? _); [discriminate|]. intro H; injection H as <- _. reflexivity.
Qed.

Lemma head_param_ok' : param_ok (@head_update_limit A) head_R.
Proof.
  intros st l v n HR. destruct (head_param_ok st l v n HR) as (st' & v' & E1 & E2 & HR' & _).
  exists st', v'. auto.
Qed.

Lemma head_update_limit_set (st : head_st A) n : h_limit (fst (head_update_limit st n)) = n.
Proof.
  unfold head_update_limit. destruct (h_buf st); [reflexivity|].
  destruct (h_limit st ?= n); reflexivity.
Qed.

Lemma head_update_limit_nonempty (st : head_st A) n : snd (head_update_limit st n) <> Some [].
Proof.
  pose proof (head_update_limit_shape st n) as H.
  destruct (snd (head_update_limit st n)) as [[|d ds]|]; discriminate.
Qed.

End HeadInst.

Theorem full_head_view :
  forall (A : Type) veq heq vdefault capacity okd limit0 (evs : list (fev A)) s fuel s',
    frun veq heq vdefault head_on_diff head_update_limit head_full_init (fs_init capacity okd limit0) evs = ROk s ->
    fstep veq heq vdefault head_on_diff head_update_limit head_full_init s (FPoll fuel) = ROk (s', FAnswer Pending) ->
    no_silent evs ->
    ver (f_lim s') <> 0 ->
    exists a, f_ad s' = Some a /\
      a_view a = firstn (val (f_lim s')) (values (g_o (f_g s'))).
Proof.
  intros A veq heq vdefault capacity okd limit0 evs s fuel s' E H Hns Hv.
  destruct (full_view_at_pending veq heq vdefault head_on_diff head_update_limit head_full_init
              head_R (@h_limit A) head_full_init_ok head_step_ok head_on_diff_limit head_param_ok'
              head_update_limit_set head_update_limit_nonempty
              capacity okd limit0 evs s fuel s' E H Hns) as (a & Ea & _ & [Hb HR] & Hp).
  exists a. split; [exact Ea|]. rewrite HR, (Hp Hv). reflexivity.
Qed.

(* Skip: dynamic_skip_with_initial_count(count.get(), count.subscribe()) *)
Definition skip_full_init {A} (n : nat) (l : list A) : skip_st A * list A :=
  (snd (skip_init n l), fst (skip_init n l)).

Section SkipInst.
Context {A : Type}.

(* the generic "current parameter" of Skip: its count (None only before the first count of a
   `dynamic_skip` without initial count, which the relation below excludes) *)
Definition skip_param (st : skip_st A) : nat := match s_count st with Some c => c | None => 0 end.
Definition skip_R' (st : skip_st A) (l v : list A) : Prop := skip_R st l v /\ s_count st <> None.

Lemma skip_full_init_ok n (l : list A) :
  skip_R' (fst (skip_full_init n l)) l (snd (skip_full_init n l)) /\
  skip_param (fst (skip_full_init n l)) = n.
Proof.
  unfold skip_full_init, skip_R'. cbn [fst snd]. destruct (skip_init_ok n l) as [E HR]. rewrite E.
  split; [split; [exact HR|unfold skip_init; cbn [snd s_count]; discriminate]|reflexivity].
Qed.

Lemma skip_step_ok : step_ok (@skip_on_diff A) skip_R'.
Proof.
  intros st l v d [HR Hc] Hok.
  destruct (skip_step st l v d HR Hok) as (st' & outs & l' & E1 & E2 & E3 & HR' & Hc').
  exists st', outs, l', (skip_view_of (s_count st) l').
  split; [exact E1|]. split; [exact E2|]. split; [exact E3|]. split; [exact HR'|].
  rewrite Hc'. exact Hc.
Qed.

Lemma skip_on_diff_count (st : skip_st A) d st' outs :
  skip_on_diff st d = Ok (st', outs) -> skip_param st' = skip_param st.
Proof.
  unfold skip_on_diff, skip_param. destruct (apply d (s_buf st)) as [buf'|]; [|discriminate].
  destruct (s_count st) as [c|] eqn:Ec.
  - destruct (skip_handle_diff d c (length (s_buf st)) buf'); [|discriminate].
    intro H; injection H as <- _. reflexivity.
  - intro H; injection H as <- _. reflexivity.
Qed.

Lemma skip_param_ok' : param_ok (@skip_update_count A) skip_R'.
Proof.
  intros st l v n [HR Hc]. destruct (skip_param_ok st l v n HR) as (st' & v' & E1 & E2 & HR' & Hc').
  exists st', v'. split; [exact E1|]. split; [exact E2|]. split; [exact HR'|].
  rewrite Hc'. discriminate.
Qed.

Lemma skip_update_count_set (st : skip_st A) n : skip_param (fst (skip_update_count st n)) = n.
Proof.
  unfold skip_update_count, skip_param. destruct (s_buf st) as [|a l0]; [reflexivity|].
  destruct (s_count st) as [old|]; [|reflexivity].
  destruct (min old (length (a :: l0)) ?= min n (length (a :: l0))); try reflexivity.
  destruct (_ && _); reflexivity.
Qed.

End SkipInst.

Theorem full_skip_view :
  forall (A : Type) veq heq vdefault capacity okd limit0 (evs : list (fev A)) s fuel s',
    frun veq heq vdefault skip_on_diff skip_update_count skip_full_init (fs_init capacity okd limit0) evs = ROk s ->
    fstep veq heq vdefault skip_on_diff skip_update_count skip_full_init s (FPoll fuel) = ROk (s', FAnswer Pending) ->
    no_silent evs ->
    ver (f_lim s') <> 0 ->
    exists a, f_ad s' = Some a /\
      a_view a = skipn (val (f_lim s')) (values (g_o (f_g s'))).
Proof.
  intros A veq heq vdefault capacity okd limit0 evs s fuel s' E H Hns Hv.
  destruct (full_view_at_pending veq heq vdefault skip_on_diff skip_update_count skip_full_init
              skip_R' skip_param skip_full_init_ok skip_step_ok skip_on_diff_count skip_param_ok'
              skip_update_count_set (@skip_update_count_nonempty A)
              capacity okd limit0 evs s fuel s' E H Hns) as (a & Ea & _ & [[Hb HR] Hc] & Hp).
  exists a. split; [exact Ea|]. specialize (Hp Hv). unfold skip_param in Hp.
  destruct (s_count (u_st (a_u a))) as [c|]; [|congruence].
  rewrite HR, <- Hp. reflexivity.
Qed.

(* ---------------- non-vacuity: a concrete run of the Head instance ---------------- *)
(* append [1;2;3;4], attach with the initial limit 2, poll to Pending, push_back 5, set the limit
   to 3, poll (Append [3]) and poll again (Pending): the view is [1;2;3] *)
Definition ex_evs : list (fev nat) :=
  [FVec (OMut (MAppend [1;2;3;4])); FAttach; FPoll 20;
   FVec (OMut (MPushBack 5)); FLim (WSet 3); FPoll 20].

Definition ex_run :=
  frun Nat.eqb Nat.eqb 0 head_on_diff head_update_limit head_full_init (fs_init 16 Unique 2) ex_evs.

Example full_example :
  exists s s',
    ex_run = ROk s /\
    fstep Nat.eqb Nat.eqb 0 head_on_diff head_update_limit head_full_init s (FPoll 20)
      = ROk (s', FAnswer Pending) /\
    no_silent ex_evs /\ ver (f_lim s') <> 0 /\
    option_map (fun a => a_view a) (f_ad s') = Some [1;2;3] /\
    val (f_lim s') = 3 /\ values (g_o (f_g s')) = [1;2;3;4;5].
Proof.
  destruct ex_run as [| |s] eqn:E; try (vm_compute in E; discriminate).
  exists s.
  assert (Es : ROk s = ex_run) by (symmetry; exact E).
  vm_compute in Es. injection Es as ->.
  eexists. split; [reflexivity|]. split; [vm_compute; reflexivity|].
  split.
  { intros v Hin. unfold ex_evs in Hin. cbn [In] in Hin.
    repeat (destruct Hin as [Hin|Hin]; [discriminate|]). exact Hin. }
  vm_compute. repeat split; discriminate.
Qed.

Print Assumptions full_never_panics.
Print Assumptions full_invariant.
Print Assumptions full_view_at_pending.
Print Assumptions full_pending_registers.
Print Assumptions full_limit_change_wakes.
Print Assumptions full_poll_terminates.
Print Assumptions full_head_view.
Print Assumptions full_skip_view.
Print Assumptions full_example.
