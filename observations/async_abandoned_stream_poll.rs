#![cfg(feature = "async-lock")]
use eyeball::{AsyncLock, SharedObservable};
use futures_util::{FutureExt, StreamExt};
use std::future::Future;
use std::pin::pin;
use std::task::{Context, Poll};

fn noop_cx() -> Context<'static> {
    Context::from_waker(futures_util::task::noop_waker_ref())
}

#[test]
fn abandoned_poll_then_next_now_with_queued_writer() {
    let ob: SharedObservable<u32, AsyncLock> = SharedObservable::new_async(0);
    let mut sub = ob.subscribe().now_or_never().unwrap();
    let mut cx = noop_cx();
    // A: holds a write guard
    let guard = ob.write().now_or_never().unwrap();
    // S: polls the stream once -> Pending (its read-lock future is queued)
    assert!(sub.poll_next_unpin(&mut cx).is_pending());
    // B: a writer queues up behind it
    let ob2 = ob.clone();
    let mut set_fut = Box::pin(async move { ob2.set(5).await });
    assert!(set_fut.as_mut().poll(&mut cx).is_pending());
    // A releases
    drop(guard);
    // S abandons the stream poll (e.g. a select! branch lost) and asks for the current value instead
    {
        let mut nn = pin!(sub.next_now());
        let r1 = nn.as_mut().poll(&mut cx);
        // let the writer try
        let w1 = set_fut.as_mut().poll(&mut cx);
        let r2 = nn.as_mut().poll(&mut cx);
        let w2 = set_fut.as_mut().poll(&mut cx);
        println!("next_now: {:?} / {:?}; set: {:?} / {:?}", r1, r2, w1.is_ready(), w2.is_ready());
        assert!(r1.is_ready() || r2.is_ready() || w2.is_ready(), "nobody can make progress: deadlock");
    }
}
