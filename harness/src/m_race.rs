//! mode race (C02 C03): free-running two-thread races, many rounds per case.
//! case: `kind=<polldrop|pollset|drop2|dropupgrade> rounds=<n>`
//!  polldrop    : one thread polls an up-to-date subscriber once, the other drops the last clone;
//!                if the poll answered Pending its waker must have been woken (C02), and afterwards
//!                the subscriber must report the end (C03)
//!  pollset     : same with a set instead of the drop
//!  drop2       : the last two clones are dropped concurrently; afterwards the (pending) subscriber
//!                must have been woken and must report the end
//!  dropupgrade : the last clone is dropped while a weak reference is upgraded; if the upgrade
//!                succeeded the stream must not have ended while that owner is alive
use crate::common::b2s;
use crate::m_adapt::CountWaker;
use crate::m_obs::{show, val, Val};
use eyeball::SharedObservable;
use futures_core::Stream;
use std::pin::Pin;
use std::sync::atomic::{AtomicUsize, Ordering as AO};
use std::sync::Arc;
use std::task::{Context, Poll, Waker};

/// spin barrier for two threads (a std Barrier wakes its waiters too far apart to hit narrow windows)
struct Spin(AtomicUsize);
impl Spin {
    fn wait(&self, delay: u32) {
        self.0.fetch_add(1, AO::SeqCst);
        while self.0.load(AO::SeqCst) < 2 {
            std::hint::spin_loop();
        }
        for _ in 0..delay {
            std::hint::spin_loop();
        }
    }
}

/// a minimal executor for one future on the current thread (park / unpark)
fn block_on<F: std::future::Future>(f: F) -> F::Output {
    struct Unpark(std::thread::Thread);
    impl std::task::Wake for Unpark {
        fn wake(self: Arc<Self>) {
            self.0.unpark();
        }
        fn wake_by_ref(self: &Arc<Self>) {
            self.0.unpark();
        }
    }
    let waker = Waker::from(Arc::new(Unpark(std::thread::current())));
    let mut cx = Context::from_waker(&waker);
    let mut f = std::pin::pin!(f);
    loop {
        match f.as_mut().poll(&mut cx) {
            Poll::Ready(v) => return v,
            Poll::Pending => std::thread::park_timeout(std::time::Duration::from_millis(200)),
        }
    }
}

/// the async-lock flavour across threads (C16 "the same rules as the default flavour", with the tokio
/// RwLock contended by a real second thread):
///  apollset    : a task polls the stream once (Pending registers) while another thread awaits set();
///                a Pending answer must be woken, and the subscriber then delivers the value and is Pending again
///  asetifeq    : two threads await set_if_not_eq with equal values: exactly one stores
///  anextnowset : next_now().await racing set().await: afterwards the subscriber ends on the final value
fn run_async_kind(kind: &str, rounds: usize, next: &mut dyn FnMut() -> u32) -> (usize, usize, usize) {
    use eyeball::AsyncLock;
    let (mut lost, mut stale, mut order) = (0usize, 0usize, 0usize);
    for _ in 0..rounds {
        let ob: SharedObservable<Val, AsyncLock> = SharedObservable::new_async(val(0));
        let mut sub = block_on(ob.subscribe());
        let cw = Arc::new(CountWaker(AtomicUsize::new(0)));
        let waker = Waker::from(cw.clone());
        let barrier = Arc::new(Spin(AtomicUsize::new(0)));
        let (d1, d2) = (next(), next());
        let b2 = barrier.clone();
        let ob2 = ob.clone();
        match kind {
            "apollset" => {
                let h = std::thread::spawn(move || {
                    b2.wait(d2);
                    block_on(ob2.set(val(11)));
                });
                barrier.wait(d1);
                let mut cx = Context::from_waker(&waker);
                let r = Pin::new(&mut sub).poll_next(&mut cx);
                h.join().unwrap();
                match r {
                    Poll::Pending => {
                        // the set happened after (or while) the poll registered: the waker must fire
                        let t0 = std::time::Instant::now();
                        while cw.0.load(AO::SeqCst) == 0 && t0.elapsed() < std::time::Duration::from_millis(500) {
                            std::thread::yield_now();
                        }
                        if cw.0.load(AO::SeqCst) == 0 {
                            lost += 1;
                        }
                        if block_on(sub.next()).map(show) != Some(11) {
                            stale += 1;
                        }
                    }
                    Poll::Ready(Some(v)) => {
                        if show(v) != 11 {
                            stale += 1;
                        }
                    }
                    Poll::Ready(None) => stale += 1,
                }
                let mut cx = Context::from_waker(&waker);
                if !Pin::new(&mut sub).poll_next(&mut cx).is_pending() {
                    order += 1;
                }
            }
            "asetifeq" => {
                let h = std::thread::spawn(move || {
                    b2.wait(d2);
                    block_on(ob2.set_if_not_eq(val(51))).is_some()
                });
                barrier.wait(d1);
                let a = block_on(ob.set_if_not_eq(val(52))).is_some();
                let b = h.join().unwrap();
                if a == b {
                    order += 1;
                }
                if block_on(sub.next()).is_none() {
                    stale += 1;
                }
                let mut cx = Context::from_waker(&waker);
                if !Pin::new(&mut sub).poll_next(&mut cx).is_pending() {
                    order += 1;
                }
            }
            "anextnowset" => {
                let h = std::thread::spawn(move || {
                    b2.wait(d2);
                    block_on(ob2.set(val(11)));
                });
                barrier.wait(d1);
                let got = show(block_on(sub.next_now()));
                h.join().unwrap();
                // what next_now handed out and what it marked observed belong together
                let mut cx = Context::from_waker(&waker);
                let r = Pin::new(&mut sub).poll_next(&mut cx);
                let ok = match (got, r) {
                    (11, Poll::Pending) => true,
                    (0, Poll::Ready(Some(v))) => show(v) == 11,
                    _ => false,
                };
                if !ok {
                    stale += 1;
                }
            }
            _ => panic!("bad async race kind {kind}"),
        }
    }
    (lost, stale, order)
}

pub fn run_line(line: &str, out: &mut String) {
    let mut rng: u64 = 0x9E3779B97F4A7C15;
    let mut next = move || {
        rng ^= rng << 13;
        rng ^= rng >> 7;
        rng ^= rng << 17;
        (rng % 400) as u32
    };
    let mut kind = "polldrop";
    let mut rounds = 1000usize;
    for w in line.split_whitespace() {
        if let Some(k) = w.strip_prefix("kind=") {
            kind = k;
        } else if let Some(r) = w.strip_prefix("rounds=") {
            rounds = r.parse().unwrap();
        }
    }
    if kind.starts_with('a') {
        let (lost, stale, order) = run_async_kind(kind, rounds, &mut next);
        out.push_str(&format!(
            "rounds={} ok:racewake={} ok:raceended=1 ok:racenotearly=1 ok:racefinal={} ok:raceorder={}",
            rounds,
            b2s(lost == 0),
            b2s(stale == 0),
            b2s(order == 0)
        ));
        if lost + stale + order > 0 {
            out.push_str(&format!(" lost={lost} notended=0 early=0 stale={stale} order={order}"));
        }
        out.push('\n');
        return;
    }
    let mut lost = 0usize; // Pending without a wake
    let mut notended = 0usize; // owners gone but the stream did not end
    let mut early = 0usize; // ended under a live owner
    let mut stale = 0usize; // did not end on the final value
    let mut order = 0usize; // a subscriber saw values out of order / twice, or two conditional writers both stored
    for _ in 0..rounds {
        let ob = SharedObservable::new(val(0));
        let mut sub = ob.subscribe();
        let cw = Arc::new(CountWaker(AtomicUsize::new(0)));
        let waker = Waker::from(cw.clone());
        let barrier = Arc::new(Spin(AtomicUsize::new(0)));
        let (d1, d2) = (next(), next());
        match kind {
            "polldrop" | "pollset" => {
                let b2 = barrier.clone();
                let is_drop = kind == "polldrop";
                let keep = if is_drop { None } else { Some(ob.clone()) };
                let h = std::thread::spawn(move || {
                    b2.wait(d2);
                    if is_drop {
                        drop(ob);
                    } else {
                        ob.set(val(11));
                        drop(ob);
                    }
                });
                barrier.wait(d1);
                let mut cx = Context::from_waker(&waker);
                let r = Pin::new(&mut sub).poll_next(&mut cx);
                h.join().unwrap();
                if r.is_pending() && cw.0.load(AO::SeqCst) == 0 {
                    lost += 1;
                }
                if is_drop {
                    // everything is gone now: the stream must report the end (after at most one item)
                    let mut cx = Context::from_waker(&waker);
                    let mut r2 = Pin::new(&mut sub).poll_next(&mut cx);
                    if let Poll::Ready(Some(_)) = r2 {
                        r2 = Pin::new(&mut sub).poll_next(&mut cx);
                    }
                    if !matches!(r2, Poll::Ready(None)) {
                        notended += 1;
                    }
                }
                drop(keep);
            }
            "nextnowset" => {
                // C04: a subscriber's next_now racing one set: value and version must be taken together -
                // afterwards the subscriber must end on the final value
                let b2 = barrier.clone();
                let ob2 = ob.clone();
                let h = std::thread::spawn(move || {
                    b2.wait(d2);
                    ob2.set(val(11));
                });
                barrier.wait(d1);
                let seen = crate::m_obs::show(sub.next_now());
                h.join().unwrap();
                let mut cx = Context::from_waker(&waker);
                match Pin::new(&mut sub).poll_next(&mut cx) {
                    Poll::Ready(Some(v)) => {
                        if crate::m_obs::show(v) != 11 {
                            stale += 1;
                        }
                    }
                    Poll::Pending => {
                        if seen != 11 {
                            stale += 1;
                        }
                    }
                    Poll::Ready(None) => stale += 1,
                }
            }
            "pollstream" => {
                // C04: a writer storing 1..=N back to back while the subscriber polls: every value the
                // subscriber is handed must be newer than the one before (value and version are taken
                // together), and after the writer has finished it ends on the final value, then Pending
                const N: u32 = 300;
                let b2 = barrier.clone();
                let ob2 = ob.clone();
                let h = std::thread::spawn(move || {
                    b2.wait(d2);
                    for k in 1..=N {
                        ob2.set(val(k * 10));
                    }
                });
                barrier.wait(d1);
                let mut last = 0u32;
                let mut bad = false;
                let mut cx = Context::from_waker(&waker);
                while !h.is_finished() {
                    if let Poll::Ready(Some(v)) = Pin::new(&mut sub).poll_next(&mut cx) {
                        let v = crate::m_obs::show(v);
                        if v <= last {
                            bad = true;
                        }
                        last = v;
                    }
                }
                h.join().unwrap();
                match Pin::new(&mut sub).poll_next(&mut cx) {
                    Poll::Ready(Some(v)) => {
                        let v = crate::m_obs::show(v);
                        if v <= last {
                            bad = true;
                        }
                        last = v;
                        if !Pin::new(&mut sub).poll_next(&mut cx).is_pending() {
                            bad = true;
                        }
                    }
                    Poll::Pending => {}
                    Poll::Ready(None) => bad = true,
                }
                if last != N * 10 {
                    stale += 1;
                }
                if bad {
                    order += 1;
                }
            }
            "setifeq" => {
                // C04: two conditional writers with EQUAL values: compare and store are one atomic step, so
                // exactly one of them stores (returns Some) and the version moves once
                let b2 = barrier.clone();
                let ob2 = ob.clone();
                let h = std::thread::spawn(move || {
                    b2.wait(d2);
                    ob2.set_if_not_eq(val(51)).is_some()
                });
                barrier.wait(d1);
                let a = ob.set_if_not_eq(val(52)).is_some();
                let b = h.join().unwrap();
                if a == b {
                    order += 1;
                }
                let mut cx = Context::from_waker(&waker);
                let first = Pin::new(&mut sub).poll_next(&mut cx);
                let second = Pin::new(&mut sub).poll_next(&mut cx);
                if !matches!(first, Poll::Ready(Some(_))) || !second.is_pending() {
                    stale += 1;
                }
            }
            "setifhash" => {
                // C04: the same for set_if_hash_not_eq (initial value 0 has hash class 0; 61 and 71 share class 1)
                let b2 = barrier.clone();
                let ob2 = ob.clone();
                let h = std::thread::spawn(move || {
                    b2.wait(d2);
                    ob2.set_if_hash_not_eq(val(61)).is_some()
                });
                barrier.wait(d1);
                let a = ob.set_if_hash_not_eq(val(71)).is_some();
                let b = h.join().unwrap();
                if a == b {
                    order += 1;
                }
                let mut cx = Context::from_waker(&waker);
                let first = Pin::new(&mut sub).poll_next(&mut cx);
                let second = Pin::new(&mut sub).poll_next(&mut cx);
                if !matches!(first, Poll::Ready(Some(_))) || !second.is_pending() {
                    stale += 1;
                }
            }
            "condset" => {
                // C04: a conditional writer racing a plain set of a value it must consider equal: in either
                // order the conditional writer never returns Some(previous) with previous equal to its own
                // argument; (None, 0) and (Some(0), new) are the only legal pairs of results
                let by_hash = d1 % 2 == 0;
                let b2 = barrier.clone();
                let ob2 = ob.clone();
                let h = std::thread::spawn(move || {
                    b2.wait(d2);
                    show(ob2.set(val(51)))
                });
                barrier.wait(d1);
                let a = if by_hash { ob.set_if_hash_not_eq(val(61)) } else { ob.set_if_not_eq(val(52)) };
                let b = h.join().unwrap();
                // set(51): e = 5, h = 1.  set_if_not_eq(52) is equal to it by e; set_if_hash_not_eq(61) by h
                let legal = match a {
                    None => b == 0,
                    Some(p) => show(p) == 0 && (b == 52 || b == 61),
                };
                if !legal {
                    order += 1;
                }
                let fin = show(ob.get());
                if fin != 51 {
                    stale += 1;
                }
            }
            "vecstream" | "vecstreamb" => {
                // C06 with the vector on another thread: a writer mutates an ObservableVector of small
                // capacity back to back while this thread polls the plain / batched subscriber stream,
                // so a lag can be detected in the middle of a drain (the `Lagged` arms inside
                // handle_lag and inside the batched drain loop).  Every delivered diff must be
                // applicable, and once the writer is done the replica equals the contents at Pending.
                use eyeball_im::{ObservableVector, VectorDiff};
                use imbl::Vector;
                let mut ov: ObservableVector<u32> = ObservableVector::with_capacity(1 + (d1 as usize % 4));
                ov.append((0..3u32).collect());
                let vsub = ov.subscribe();
                let mut replica: Vector<u32> = vsub.values();
                enum S {
                    P(Pin<Box<dyn Stream<Item = VectorDiff<u32>>>>),
                    B(Pin<Box<dyn Stream<Item = Vec<VectorDiff<u32>>>>>),
                }
                let mut st = if kind == "vecstream" { S::P(Box::pin(vsub.into_stream())) } else { S::B(Box::pin(vsub.into_batched_stream())) };
                let b2 = barrier.clone();
                let h = std::thread::spawn(move || {
                    b2.wait(d2);
                    for k in 0..200u32 {
                        match k % 7 {
                            0 | 1 | 2 => ov.push_back(100 + k),
                            3 => {
                                ov.pop_front();
                            }
                            4 => ov.push_front(100 + k),
                            5 => {
                                if ov.len() > 1 {
                                    ov.remove(1);
                                }
                            }
                            _ => {
                                let mut t = ov.transaction();
                                t.push_back(100 + k);
                                t.push_back(300 + k);
                                t.commit();
                            }
                        }
                    }
                    ov
                });
                barrier.wait(d1);
                let mut bad = false;
                let mut cx = Context::from_waker(&waker);
                let mut step = |replica: &mut Vector<u32>, bad: &mut bool, cx: &mut Context<'_>| -> bool {
                    let r: Poll<Option<Vec<VectorDiff<u32>>>> = match &mut st {
                        S::P(s) => s.as_mut().poll_next(cx).map(|o| o.map(|d| vec![d])),
                        S::B(s) => s.as_mut().poll_next(cx),
                    };
                    match r {
                        Poll::Ready(Some(ds)) => {
                            for d in ds {
                                if !crate::m_adapt::ok_in(&d, replica.len()) {
                                    *bad = true;
                                }
                                let mut v2 = replica.clone();
                                match crate::common::catch(move || {
                                    d.apply(&mut v2);
                                    v2
                                }) {
                                    Some(v2) => *replica = v2,
                                    None => *bad = true,
                                }
                            }
                            true
                        }
                        Poll::Ready(None) => {
                            *bad = true;
                            false
                        }
                        Poll::Pending => false,
                    }
                };
                while !h.is_finished() {
                    step(&mut replica, &mut bad, &mut cx);
                }
                let ov = h.join().unwrap();
                while step(&mut replica, &mut bad, &mut cx) {}
                if !replica.iter().eq(ov.iter()) {
                    stale += 1;
                }
                if bad {
                    order += 1;
                }
                drop(ov);
            }
            "drop2" => {
                let ob2 = ob.clone();
                let mut cx = Context::from_waker(&waker);
                assert!(Pin::new(&mut sub).poll_next(&mut cx).is_pending());
                let b2 = barrier.clone();
                let h = std::thread::spawn(move || {
                    b2.wait(d2);
                    drop(ob2);
                });
                barrier.wait(d1);
                drop(ob);
                h.join().unwrap();
                if cw.0.load(AO::SeqCst) == 0 {
                    lost += 1;
                }
                let mut cx = Context::from_waker(&waker);
                if !matches!(Pin::new(&mut sub).poll_next(&mut cx), Poll::Ready(None)) {
                    notended += 1;
                }
            }
            "dropupgrade" => {
                let weak = ob.downgrade();
                let b2 = barrier.clone();
                let h = std::thread::spawn(move || {
                    b2.wait(d2);
                    weak.upgrade()
                });
                barrier.wait(d1);
                drop(ob);
                let up = h.join().unwrap();
                let mut cx = Context::from_waker(&waker);
                let r = Pin::new(&mut sub).poll_next(&mut cx);
                match (&up, &r) {
                    (Some(_), Poll::Ready(None)) => early += 1,
                    (None, Poll::Ready(None)) => {}
                    (None, _) => notended += 1,
                    _ => {}
                }
                drop(up);
            }
            _ => panic!("bad kind {kind}"),
        }
    }
    out.push_str(&format!(
        "rounds={} ok:racewake={} ok:raceended={} ok:racenotearly={} ok:racefinal={} ok:raceorder={}\n",
        rounds,
        b2s(lost == 0),
        b2s(notended == 0),
        b2s(early == 0),
        b2s(stale == 0),
        b2s(order == 0)
    ));
    if lost + notended + early + stale + order > 0 {
        out.pop();
        out.push_str(&format!(" lost={lost} notended={notended} early={early} stale={stale} order={order}\n"));
    }
}
