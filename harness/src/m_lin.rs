//! mode lin (C04): free-running threads on clones of one SharedObservable; every operation's
//! invocation and response are stamped with a global atomic counter and the recorded history is
//! printed.  It is judged by the Wing-Gong checker of /verif/ocaml/m_lin.ml against the extracted
//! sequential model.
//! case: `subs=<n> || <op> ; <op> ... | <op> ; ... `   (one program per thread)
//! ops: set(v) update(v) set_if_not_eq(v) get next_now(k) poll(k) rg wg[set(v);update(v);...]
use crate::m_adapt::CountWaker;
use crate::m_obs::{show, val, Val};
use eyeball::{ObservableWriteGuard, SharedObservable, Subscriber};
use futures_core::Stream;
use std::pin::Pin;
use std::sync::atomic::{AtomicU64, AtomicUsize, Ordering as AO};
use std::sync::{Arc, Mutex};
use std::task::{Context, Poll, Waker};

static CLOCK: AtomicU64 = AtomicU64::new(0);
fn stamp() -> u64 {
    CLOCK.fetch_add(1, AO::SeqCst)
}

fn arg(op: &str) -> u32 {
    let i = op.find('(').unwrap();
    op[i + 1..op.len() - 1].parse().unwrap()
}

pub fn run_line(line: &str, out: &mut String) {
    let (head, progs) = line.split_once(" || ").unwrap();
    let nsubs: usize = head.trim().strip_prefix("subs=").unwrap().parse().unwrap();
    let programs: Vec<Vec<String>> = progs
        .split(" | ")
        .map(|p| p.split(" ; ").map(|s| s.trim().to_string()).filter(|s| !s.is_empty()).collect())
        .collect();
    let n = programs.len();
    let ob = SharedObservable::new(val(0));
    // subscriber k is used by exactly one thread (the generator guarantees it)
    let subs: Vec<Arc<Mutex<Subscriber<Val>>>> = (0..nsubs).map(|_| Arc::new(Mutex::new(ob.subscribe()))).collect();
    let barrier = Arc::new(AtomicUsize::new(0));
    let records: Arc<Mutex<Vec<String>>> = Arc::new(Mutex::new(vec![]));
    let created: Arc<Mutex<Vec<(u32, eyeball::Subscriber<Val>)>>> = Arc::new(Mutex::new(vec![]));
    let guard_bad = Arc::new(AtomicUsize::new(0));
    let mut handles = vec![];
    for (t, prog) in programs.into_iter().enumerate() {
        let ob = ob.clone();
        let subs = subs.clone();
        let barrier = barrier.clone();
        let records = records.clone();
        let created = created.clone();
        let guard_bad = guard_bad.clone();
        handles.push(std::thread::spawn(move || {
            let cw = Arc::new(CountWaker(AtomicUsize::new(0)));
            let waker = Waker::from(cw);
            // spin barrier: start the threads as close together as possible
            barrier.fetch_add(1, AO::SeqCst);
            while barrier.load(AO::SeqCst) < n {
                std::hint::spin_loop();
            }
            let mut local = vec![];
            // subscribers created by this thread while the others are running: handle id = t*10 + j
            let mut mysubs: Vec<(u32, eyeball::Subscriber<Val>)> = vec![];
            for (i, op) in prog.iter().enumerate() {
                // calls on a subscriber this thread has not created (yet) are left out of the history
                if (op.starts_with("lpoll(") || op.starts_with("lnext_now("))
                    && !mysubs.iter().any(|(h, _)| *h == arg(op))
                {
                    continue;
                }
                let mut op_text = op.to_string();
                let inv = stamp();
                let res: String = if op == "subscribe" {
                    let h = t as u32 * 10 + mysubs.len() as u32;
                    let s = ob.subscribe();
                    mysubs.push((h, s));
                    op_text = format!("subscribe({h})");
                    "()".into()
                } else if op.starts_with("lnext_now(") {
                    let h = arg(op);
                    let s = &mut mysubs.iter_mut().find(|(x, _)| *x == h).unwrap().1;
                    format!("={}", show(s.next_now()))
                } else if op.starts_with("lpoll(") {
                    let h = arg(op);
                    let s = &mut mysubs.iter_mut().find(|(x, _)| *x == h).unwrap().1;
                    let mut cx = Context::from_waker(&waker);
                    match Pin::new(s).poll_next(&mut cx) {
                        Poll::Ready(Some(v)) => format!("R:{}", show(v)),
                        Poll::Ready(None) => "N".into(),
                        Poll::Pending => "P".into(),
                    }
                } else if op.starts_with("set(") {
                    format!("={}", show(ob.set(val(arg(op)))))
                } else if op.starts_with("update(") {
                    let v = arg(op);
                    ob.update(|x| *x = val(v));
                    "()".into()
                } else if op.starts_with("set_if_not_eq(") {
                    match ob.set_if_not_eq(val(arg(op))) {
                        Some(p) => format!("Some({})", show(p)),
                        None => "None".into(),
                    }
                } else if op.starts_with("set_if_hash_not_eq(") {
                    match ob.set_if_hash_not_eq(val(arg(op))) {
                        Some(p) => format!("Some({})", show(p)),
                        None => "None".into(),
                    }
                } else if op == "take" {
                    format!("={}", show(ob.take()))
                } else if op.starts_with("update_if(") {
                    // update_if(v,b): the closure stores v and returns b
                    let inner = &op["update_if(".len()..op.len() - 1];
                    let (v, b) = inner.split_once(',').unwrap();
                    let (v, b): (u32, u32) = (v.parse().unwrap(), b.parse().unwrap());
                    ob.update_if(|x| {
                        *x = val(v);
                        b == 1
                    });
                    "()".into()
                } else if op == "get" {
                    format!("={}", show(ob.get()))
                } else if op.starts_with("next_now(") {
                    let k = arg(op) as usize;
                    format!("={}", show(subs[k].lock().unwrap().next_now()))
                } else if op.starts_with("poll(") {
                    let k = arg(op) as usize;
                    let mut g = subs[k].lock().unwrap();
                    let mut cx = Context::from_waker(&waker);
                    match Pin::new(&mut *g).poll_next(&mut cx) {
                        Poll::Ready(Some(v)) => format!("R:{}", show(v)),
                        Poll::Ready(None) => "N".into(),
                        Poll::Pending => "P".into(),
                    }
                } else if op == "rg" {
                    // hold a read guard for a moment; a write must not be possible meanwhile
                    let g = ob.read();
                    let acquired = stamp();
                    let v = show(*g);
                    if ob.try_write().is_ok() {
                        guard_bad.fetch_add(1, AO::SeqCst);
                    }
                    std::thread::yield_now();
                    let v2 = show(*g);
                    if v2 != v {
                        guard_bad.fetch_add(1, AO::SeqCst);
                    }
                    let releasing = stamp();
                    drop(g);
                    format!("={v}^{acquired}-{releasing}")
                } else if let Some(body) = op.strip_prefix("wg[") {
                    let body = &body[..body.len() - 1];
                    let mut g = ob.write();
                    let acquired = stamp();
                    if ob.try_read().is_ok() || ob.try_write().is_ok() {
                        guard_bad.fetch_add(1, AO::SeqCst);
                    }
                    let mut rs = vec![];
                    for o in body.split(';') {
                        if o.starts_with("set(") {
                            rs.push(format!("={}", show(ObservableWriteGuard::set(&mut g, val(arg(o))))));
                        } else if o.starts_with("update(") {
                            let v = arg(o);
                            ObservableWriteGuard::update(&mut g, |x| *x = val(v));
                            rs.push("()".into());
                        } else {
                            panic!("bad guarded op {o}");
                        }
                        std::thread::yield_now();
                    }
                    let releasing = stamp();
                    drop(g);
                    format!("{}^{acquired}-{releasing}", rs.join(";"))
                } else {
                    panic!("bad op {op}")
                };
                let resp = stamp();
                local.push(format!("{t}.{i}:{op_text}>{res}@{inv}-{resp}"));
            }
            records.lock().unwrap().extend(local);
            created.lock().unwrap().extend(mysubs);
        }));
    }
    for h in handles {
        h.join().unwrap();
    }
    let fin = show(ob.get());
    // after the writers have finished: every subscriber is polled once more (it must deliver the
    // final value unless it has already handed it out) - these polls are part of the history
    let cw = Arc::new(CountWaker(AtomicUsize::new(0)));
    let waker = Waker::from(cw);
    let mut finals = vec![];
    for (k, s) in subs.iter().enumerate() {
        let inv = stamp();
        let mut g = s.lock().unwrap();
        let mut cx = Context::from_waker(&waker);
        let r = match Pin::new(&mut *g).poll_next(&mut cx) {
            Poll::Ready(Some(v)) => format!("R:{}", show(v)),
            Poll::Ready(None) => "N".into(),
            Poll::Pending => "P".into(),
        };
        let resp = stamp();
        finals.push(format!("F.{k}:poll({k})>{r}@{inv}-{resp}"));
    }
    // ... and so is every subscriber created during the run
    let mut made = std::mem::take(&mut *created.lock().unwrap());
    made.sort_by_key(|(h, _)| *h);
    for (h, s) in made.iter_mut() {
        let inv = stamp();
        let mut cx = Context::from_waker(&waker);
        let r = match Pin::new(s).poll_next(&mut cx) {
            Poll::Ready(Some(v)) => format!("R:{}", show(v)),
            Poll::Ready(None) => "N".into(),
            Poll::Pending => "P".into(),
        };
        let resp = stamp();
        finals.push(format!("F.s{h}:lpoll({h})>{r}@{inv}-{resp}"));
    }
    records.lock().unwrap().extend(finals);
    let subfin: Vec<String> = subs.iter().map(|s| show(s.lock().unwrap().next_now()).to_string()).collect();
    let mut recs = records.lock().unwrap().clone();
    recs.sort_by_key(|r| r.rsplit('@').next().unwrap().split('-').next().unwrap().parse::<u64>().unwrap());
    out.push_str(&format!(
        "final={} subfinal={} guardbad={} h={}\n",
        fin,
        if subfin.is_empty() { "-".to_string() } else { subfin.join(",") },
        guard_bad.load(AO::SeqCst),
        recs.join(" ")
    ));
}
