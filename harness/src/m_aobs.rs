//! mode aobs (C16): the async-lock flavour with write/read guards held across other calls.
//! Every call is a boxed future with its own counting waker; the future created by the op at
//! position i has id i.  After every op the executor polls, smallest id first, every unfinished
//! future whose waker has fired since its last poll, until none is left.
//! Mirrors /verif/ocaml/m_aobs.ml.  Oracles (specification of the default flavour, linearised at the
//! completion of each future): ok:aspec ; nothing that could run is left pending at the end: ok:alive.
use crate::m_adapt::CountWaker;
use crate::m_obs::{show, split_op, val, Spec, Val};
use crate::m_obs_async::now;
use eyeball::{AsyncLock, ObservableReadGuard, ObservableWriteGuard, SharedObservable, Subscriber};
use futures_core::Stream;
use std::future::{poll_fn, Future};
use std::pin::Pin;
use std::sync::atomic::{AtomicUsize, Ordering as AO};
use std::sync::Arc;
use std::task::{Context, Poll, Waker};

type Sub = Subscriber<Val, AsyncLock>;
enum Res {
    Text(String),
    NewSub(Sub),
    W(ObservableWriteGuard<'static, Val, AsyncLock>),
    R(ObservableReadGuard<'static, Val, AsyncLock>),
}
type BoxFut = Pin<Box<dyn Future<Output = (Option<Sub>, Res)>>>;

struct Slot {
    fut: Option<BoxFut>,
    cw: Arc<CountWaker>,
    waker: Waker,
    seen: usize,
    name: String,
    arg: u32,
    arg2: u32,
    sub: Option<usize>,
    wguard: Option<ObservableWriteGuard<'static, Val, AsyncLock>>,
    rguard: Option<ObservableReadGuard<'static, Val, AsyncLock>>,
}

fn opt(o: Option<Val>) -> String {
    match o {
        Some(p) => format!("Some({})", show(p)),
        None => "None".into(),
    }
}

struct World {
    slots: Vec<Slot>,
    subs: Vec<Option<Sub>>,
    spec: Spec,
}

impl World {
    /// poll slot `id` once; returns the observation text
    fn poll(&mut self, id: usize) -> String {
        let slot = &mut self.slots[id];
        slot.seen = slot.cw.0.load(AO::SeqCst);
        let waker = slot.waker.clone();
        let mut cx = Context::from_waker(&waker);
        let r = slot.fut.as_mut().unwrap().as_mut().poll(&mut cx);
        match r {
            Poll::Pending => "PEND".into(),
            Poll::Ready((sub, res)) => {
                slot.fut = None;
                if let (Some(k), Some(s)) = (slot.sub, sub) {
                    self.subs[k] = Some(s);
                }
                let name = slot.name.clone();
                let arg = slot.arg;
                let arg2 = slot.arg2;
                let k = slot.sub.unwrap_or(0) as u32;
                let (text, expect): (String, Option<String>) = match res {
                    Res::W(g) => {
                        slot.wguard = Some(g);
                        ("W".into(), None)
                    }
                    Res::NewSub(sub) => {
                        self.subs.push(Some(sub));
                        let t = format!("#{}", self.subs.len() - 1);
                        (t, self.spec.step("subscribe", &[]).map(|x| x.0))
                    }
                    Res::R(g) => {
                        let t = format!("R={}", show(*g));
                        slot.rguard = Some(g);
                        (t, Some(format!("R={}", self.spec.cur)))
                    }
                    Res::Text(t) => {
                        let e = match name.as_str() {
                            "set" => {
                                self.spec.step("set", &[arg]).map(|x| x.0)
                            }
                            "get" => self.spec.step("get", &[]).map(|x| x.0),
                            "set_if_not_eq" | "set_if_hash_not_eq" | "update" => {
                                self.spec.step(name.as_str(), &[arg]).map(|x| x.0)
                            }
                            "take" => self.spec.step("take", &[]).map(|x| x.0),
                            "update_if" => self.spec.step("update_if", &[arg, arg2]).map(|x| x.0),
                            "next_now" => self.spec.step("next_now", &[k]).map(|x| x.0),
                            _ => self.spec.step("poll", &[k]).map(|x| match x.0.strip_prefix("R:") {
                                Some(v) => format!("Some({v})"),
                                None => x.0,
                            }),
                        };
                        (t, e)
                    }
                };
                match expect {
                    Some(e) if e != text => format!("{text} ok:aspec=0"),
                    _ => text,
                }
            }
        }
    }

    fn executor(&mut self, out: &mut String) {
        loop {
            let next = (0..self.slots.len())
                .find(|&i| self.slots[i].fut.is_some() && self.slots[i].cw.0.load(AO::SeqCst) != self.slots[i].seen);
            match next {
                Some(id) => {
                    let t = self.poll(id);
                    out.push_str(&format!(" p#{id}={t}"));
                }
                None => break,
            }
        }
    }
}

pub fn run_line(line: &str, out: &mut String) {
    let (head, evs) = match line.split_once(" :: ") {
        Some((h, e)) => (h.trim(), e),
        None => (line.trim(), ""),
    };
    let ops: Vec<&str> = evs.split(" ; ").map(|s| s.trim()).filter(|s| !s.is_empty()).collect();
    let nsubs: usize = head.parse().expect("nsubs");
    let ob: &'static SharedObservable<Val, AsyncLock> = Box::leak(Box::new(SharedObservable::new_async(val(0))));
    let mut w = World {
        slots: vec![],
        subs: (0..nsubs).map(|_| Some(now(ob.subscribe()).expect("subscribe on an unlocked observable"))).collect(),
        spec: Spec { cur: 0, shared: true, owners: 1, weaks: 0, unseen: vec![Some(false); nsubs] },
    };
    let mut res: Vec<String> = vec![];
    for (i, op) in ops.iter().enumerate() {
        let (name, a) = split_op(op);
        let cw = Arc::new(CountWaker(AtomicUsize::new(0)));
        let waker = Waker::from(cw.clone());
        let mut slot = Slot {
            fut: None,
            cw,
            waker,
            seen: 0,
            name: name.to_string(),
            arg: a.first().copied().unwrap_or(0),
            arg2: a.get(1).copied().unwrap_or(0),
            sub: None,
            wguard: None,
            rguard: None,
        };
        let mut text: Option<String> = None;
        match name {
            "gdrop" => {
                let g = a[0] as usize;
                let had = w.slots.get(g).map_or(false, |s| s.wguard.is_some() || s.rguard.is_some());
                if had {
                    w.slots[g].wguard = None;
                    w.slots[g].rguard = None;
                    text = Some("()".into());
                } else {
                    text = Some("SKIP".into());
                }
            }
            "gset" => {
                let g = a[0] as usize;
                match w.slots.get_mut(g).and_then(|s| s.wguard.as_mut()) {
                    Some(guard) => {
                        let prev = ObservableWriteGuard::set(guard, val(a[1]));
                        let t = format!("={}", show(prev));
                        let e = w.spec.step("set", &[a[1]]).map(|x| x.0);
                        text = Some(if e.as_deref() == Some(t.as_str()) { t } else { format!("{t} ok:aspec=0") });
                    }
                    None => text = Some("SKIP".into()),
                }
            }
            "set" => {
                let v = val(a[0]);
                slot.fut = Some(Box::pin(async move { (None, Res::Text(format!("={}", show(ob.set(v).await)))) }));
            }
            "get" => slot.fut = Some(Box::pin(async move { (None, Res::Text(format!("={}", show(ob.get().await)))) })),
            "set_if_not_eq" => {
                let v = val(a[0]);
                slot.fut = Some(Box::pin(async move { (None, Res::Text(opt(ob.set_if_not_eq(v).await))) }));
            }
            "set_if_hash_not_eq" => {
                let v = val(a[0]);
                slot.fut = Some(Box::pin(async move { (None, Res::Text(opt(ob.set_if_hash_not_eq(v).await))) }));
            }
            "take" => slot.fut = Some(Box::pin(async move { (None, Res::Text(format!("={}", show(ob.take().await)))) })),
            "update" => {
                let v = val(a[0]);
                slot.fut = Some(Box::pin(async move {
                    ob.update(|x| *x = v).await;
                    (None, Res::Text("()".into()))
                }));
            }
            "update_if" => {
                let v = val(a[0]);
                let b = a[1] == 1;
                slot.fut = Some(Box::pin(async move {
                    ob.update_if(|x| {
                        *x = v;
                        b
                    })
                    .await;
                    (None, Res::Text("()".into()))
                }));
            }
            "subscribe" => slot.fut = Some(Box::pin(async move { (None, Res::NewSub(ob.subscribe().await)) })),
            "write" => slot.fut = Some(Box::pin(async move { (None, Res::W(ob.write().await)) })),
            "read" => slot.fut = Some(Box::pin(async move { (None, Res::R(ob.read().await)) })),
            "next_now" | "next" | "next_ref" | "stream" => {
                let k = a[0] as usize;
                match w.subs.get_mut(k).and_then(|s| s.take()) {
                    None => text = Some("SKIP".into()),
                    Some(mut sub) => {
                        slot.sub = Some(k);
                        slot.fut = Some(match name {
                            "next_now" => Box::pin(async move {
                                let v = sub.next_now().await;
                                (Some(sub), Res::Text(format!("={}", show(v))))
                            }),
                            "next" => Box::pin(async move {
                                let v = sub.next().await;
                                (Some(sub), Res::Text(opt(v)))
                            }),
                            "next_ref" => Box::pin(async move {
                                let v = sub.next_ref().await.map(|g| *g);
                                (Some(sub), Res::Text(opt(v)))
                            }),
                            _ => Box::pin(async move {
                                let v = poll_fn(|cx| Pin::new(&mut sub).poll_next(cx)).await;
                                (Some(sub), Res::Text(opt(v)))
                            }),
                        });
                    }
                }
            }
            _ => panic!("bad op {name}"),
        }
        w.slots.push(slot);
        let mut line = match text {
            Some(t) => format!("#{i}={t}"),
            None => format!("#{i}={}", w.poll(i)),
        };
        w.executor(&mut line);
        res.push(line);
    }
    let pending: Vec<usize> = (0..w.slots.len()).filter(|&i| w.slots[i].fut.is_some()).collect();
    let guards_held = w.slots.iter().any(|s| s.wguard.is_some() || s.rguard.is_some());
    let mut alive_bad = false;
    if !guards_held {
        for &i in &pending {
            match w.slots[i].sub {
                None => alive_bad = true,
                Some(k) => {
                    if w.spec.unseen[k] == Some(true) {
                        alive_bad = true
                    }
                }
            }
        }
    }
    out.push_str(&res.join(" ; "));
    out.push_str(&format!(
        " || pending=[{}]{}\n",
        pending.iter().map(|x| x.to_string()).collect::<Vec<_>>().join(","),
        if alive_bad { " ok:alive=0" } else { "" }
    ));
}
