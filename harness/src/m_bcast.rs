//! mode bcast: the broadcast-channel model of OVec.v (`try_recv` over a position log, capacity
//! rounded to a power of two) against tokio::sync::broadcast itself, without eyeball in between.
//! case: cap=N :: send(x) | sub | resub(k) | recv(k) | droprx(k) | droptx ; ...
use crate::m_ovec::{args, split_op};
use tokio::sync::broadcast::{self, error::TryRecvError};

pub fn run_line(line: &str, out: &mut String) {
    let (head, evs) = line.split_once(" :: ").unwrap_or((line, ""));
    let cap: usize = head.trim().strip_prefix("cap=").expect("cap=").parse().expect("cap");
    let (tx, rx0) = broadcast::channel::<u32>(cap);
    drop(rx0);
    let mut tx = Some(tx);
    let mut rxs: Vec<Option<broadcast::Receiver<u32>>> = vec![];
    let mut outs: Vec<String> = vec![];
    for op in evs.split(" ; ").map(str::trim).filter(|s| !s.is_empty()) {
        let (name, arg) = split_op(op);
        let o = match name {
            "send" => match &tx {
                Some(t) => match t.send(args(arg)[0] as u32) {
                    Ok(n) => format!("ok({n})"),
                    Err(_) => "err".into(),
                },
                None => "-".into(),
            },
            "sub" => match &tx {
                Some(t) => {
                    rxs.push(Some(t.subscribe()));
                    format!("#{}", rxs.len() - 1)
                }
                None => "-".into(),
            },
            "resub" => {
                let k = args(arg)[0];
                match rxs.get(k).and_then(|r| r.as_ref()).map(|r| r.resubscribe()) {
                    Some(r) => {
                        rxs.push(Some(r));
                        format!("#{}", rxs.len() - 1)
                    }
                    None => "-".into(),
                }
            }
            "recv" => {
                let k = args(arg)[0];
                match rxs.get_mut(k).and_then(|r| r.as_mut()) {
                    Some(r) => match r.try_recv() {
                        Ok(x) => format!("Ok({x})"),
                        Err(TryRecvError::Empty) => "Empty".into(),
                        Err(TryRecvError::Closed) => "Closed".into(),
                        Err(TryRecvError::Lagged(n)) => format!("Lagged({n})"),
                    },
                    None => "-".into(),
                }
            }
            "droprx" => {
                let k = args(arg)[0];
                if let Some(r) = rxs.get_mut(k) {
                    *r = None;
                }
                ".".into()
            }
            "droptx" => {
                tx = None;
                ".".into()
            }
            "count" => match &tx {
                Some(t) => format!("n={}", t.receiver_count()),
                None => "-".into(),
            },
            _ => panic!("bad op {op}"),
        };
        outs.push(o);
    }
    out.push_str(&outs.join(" ; "));
    out.push('\n');
}
