//! mode obs: Observable / SharedObservable / write guards / subscribers of the `eyeball` crate
//! (default lock flavour) at operation granularity.  Mirrors /verif/ocaml/m_obs.ml.
use crate::m_adapt::CountWaker;
use eyeball::{Observable, ObservableWriteGuard, SharedObservable, Subscriber, WeakObservable};
use futures_core::Stream;
use std::hash::{Hash, Hasher};
use std::pin::Pin;
use std::sync::atomic::{AtomicUsize, Ordering as AO};
use std::sync::Arc;
use std::task::{Context, Poll, Waker};

/// value = e*10 + h; equality looks at e only, hashing at h only
#[derive(Clone, Copy, Debug, Default)]
pub struct Val {
    pub e: u32,
    pub h: u32,
}
impl PartialEq for Val {
    fn eq(&self, o: &Self) -> bool {
        self.e == o.e
    }
}
impl Hash for Val {
    fn hash<H: Hasher>(&self, s: &mut H) {
        self.h.hash(s)
    }
}
pub fn val(n: u32) -> Val {
    Val { e: n / 10, h: n % 10 }
}
pub fn show(v: Val) -> u32 {
    v.e * 10 + v.h
}

pub fn check_hashes() {
    use std::collections::hash_map::DefaultHasher;
    let mut seen = std::collections::HashSet::new();
    for h in 0..10u32 {
        let mut s = DefaultHasher::new();
        Val { e: 0, h }.hash(&mut s);
        assert!(seen.insert(s.finish()), "DefaultHasher collision among the hash classes used");
    }
}

pub fn split_op(s: &str) -> (&str, Vec<u32>) {
    match s.find('(') {
        Some(i) => {
            let inner = &s[i + 1..s.len() - 1];
            (&s[..i], if inner.is_empty() { vec![] } else { inner.split(',').map(|x| x.parse().unwrap()).collect() })
        }
        None => (s, vec![]),
    }
}

/// the specification (ObsSpec.v re-stated in Rust, as the implementation-side oracle)
pub struct Spec {
    pub cur: u32,
    pub shared: bool,
    pub owners: usize,
    pub weaks: usize,
    pub unseen: Vec<Option<bool>>,
}

impl Spec {
    pub fn live(&self) -> usize {
        self.unseen.iter().filter(|u| u.is_some()).count()
    }
    fn notify(&mut self, v: u32) {
        self.cur = v;
        for u in self.unseen.iter_mut() {
            if u.is_some() {
                *u = Some(true);
            }
        }
    }
    /// expected observation text, and whether the call wakes every registered waker
    pub fn step(&mut self, name: &str, a: &[u32]) -> Option<(String, bool)> {
        let sub = |s: &Spec, k: usize| -> Option<bool> { s.unseen.get(k).copied().flatten() };
        let need_owner = self.owners > 0;
        match name {
            "set" | "take" | "update" => {
                if !need_owner {
                    return None;
                }
                let prev = self.cur;
                let v = if name == "take" { 0 } else { a[0] };
                self.notify(v);
                Some((if name == "update" { "()".into() } else { format!("={prev}") }, true))
            }
            "set_if_not_eq" | "set_if_hash_not_eq" => {
                if !need_owner {
                    return None;
                }
                let same = if name == "set_if_not_eq" { self.cur / 10 == a[0] / 10 } else { self.cur % 10 == a[0] % 10 };
                if same {
                    Some(("None".into(), false))
                } else {
                    let prev = self.cur;
                    self.notify(a[0]);
                    Some((format!("Some({prev})"), true))
                }
            }
            "update_if" => {
                if !need_owner {
                    return None;
                }
                if a[1] == 1 {
                    self.notify(a[0]);
                    Some(("()".into(), true))
                } else {
                    self.cur = a[0];
                    Some(("()".into(), false))
                }
            }
            "get" => need_owner.then(|| (format!("={}", self.cur), false)),
            "subscribe" | "subscribe_reset" => {
                if !need_owner {
                    return None;
                }
                self.unseen.push(Some(name == "subscribe_reset"));
                Some((format!("#{}", self.unseen.len() - 1), false))
            }
            "poll" => {
                let u = sub(self, a[0] as usize)?;
                if self.owners == 0 {
                    Some(("N".into(), false))
                } else if u {
                    self.unseen[a[0] as usize] = Some(false);
                    Some((format!("R:{}", self.cur), false))
                } else {
                    Some(("P".into(), false))
                }
            }
            "next_now" => {
                sub(self, a[0] as usize)?;
                self.unseen[a[0] as usize] = Some(false);
                Some((format!("={}", self.cur), false))
            }
            "sget" | "sread" => {
                sub(self, a[0] as usize)?;
                Some((format!("={}", self.cur), false))
            }
            "reset" => {
                sub(self, a[0] as usize)?;
                self.unseen[a[0] as usize] = Some(true);
                Some(("()".into(), false))
            }
            "sclone" | "sclone_reset" => {
                let u = sub(self, a[0] as usize)?;
                self.unseen.push(Some(if name == "sclone" { u } else { true }));
                Some((format!("#{}", self.unseen.len() - 1), false))
            }
            "sdrop" => {
                sub(self, a[0] as usize)?;
                self.unseen[a[0] as usize] = None;
                Some(("()".into(), false))
            }
            "clone" => {
                if !self.shared || !need_owner {
                    return None;
                }
                self.owners += 1;
                Some(("()".into(), false))
            }
            "drop_owner" => {
                if !need_owner {
                    return None;
                }
                self.owners -= 1;
                Some(("()".into(), self.owners == 0))
            }
            "downgrade" => {
                if !self.shared || !need_owner {
                    return None;
                }
                self.weaks += 1;
                Some(("()".into(), false))
            }
            "upgrade" => {
                if self.weaks == 0 {
                    return None;
                }
                if self.owners == 0 {
                    Some(("false".into(), false))
                } else {
                    self.owners += 1;
                    Some(("true".into(), false))
                }
            }
            "drop_weak" => {
                if self.weaks == 0 {
                    return None;
                }
                self.weaks -= 1;
                Some(("()".into(), false))
            }
            "clone_weak" => {
                if self.weaks == 0 {
                    return None;
                }
                self.weaks += 1;
                Some(("()".into(), false))
            }
            "into_shared" => {
                if self.shared || !need_owner {
                    return None;
                }
                self.shared = true;
                Some(("()".into(), false))
            }
            "counts" => need_owner.then(|| {
                (format!("c{}/{}/{}/{}", self.owners, self.live(), self.owners + self.live(), self.weaks), false)
            }),
            _ => panic!("bad op {name}"),
        }
    }
}

struct SubH {
    sub: Option<Subscriber<Val>>,
    cw: Arc<CountWaker>,
    waker: Waker,
    /// wakers this subscriber was polled with earlier (a task may be polled with a fresh waker each
    /// time); their wakes count too, but the one supplied to the LATEST Pending poll must be woken.
    /// Every waker object has an identity (numbered in order of creation, as the driver does) and the
    /// number of wakes already reported.
    old: Vec<(Arc<CountWaker>, usize, usize)>,
    wid: usize,
    seen: usize,
    seen_cur: usize,
    /// the LATEST poll answered Pending (with the current waker) and no wake was seen since
    cur_pending: bool,
    /// identity of the waker supplied to the latest poll that answered Pending (since the last wake)
    last_pending_wid: Option<usize>,
    registered: bool, // last poll answered Pending and no wake seen since
}

impl SubH {
    fn total_wakes(&self) -> usize {
        self.cw.0.load(AO::SeqCst) + self.old.iter().map(|c| c.0 .0.load(AO::SeqCst)).sum::<usize>()
    }
    /// from now on this subscriber is polled with a new waker
    fn fresh_waker(&mut self) {
        let cw = Arc::new(CountWaker(AtomicUsize::new(0)));
        self.waker = Waker::from(cw.clone());
        let old = std::mem::replace(&mut self.cw, cw);
        self.old.push((old, self.wid, self.seen_cur));
        self.wid = next_wid();
        self.seen_cur = 0;
    }
    /// the waker objects of this subscriber woken since the last report, with multiplicity
    fn newly_woken(&mut self, k: usize, out: &mut Vec<(usize, usize)>) {
        for (c, wid, seen) in self.old.iter_mut() {
            let n = c.0.load(AO::SeqCst);
            for _ in *seen..n {
                out.push((k, *wid));
            }
            *seen = n;
        }
        let n = self.cw.0.load(AO::SeqCst);
        for _ in self.seen_cur..n {
            out.push((k, self.wid));
        }
    }
}

thread_local! {
    static NEXT_WID: std::cell::Cell<usize> = std::cell::Cell::new(0);
}
fn next_wid() -> usize {
    NEXT_WID.with(|c| {
        let v = c.get();
        c.set(v + 1);
        v
    })
}

fn new_subh(s: Subscriber<Val>) -> SubH {
    let cw = Arc::new(CountWaker(AtomicUsize::new(0)));
    let waker = Waker::from(cw.clone());
    SubH { sub: Some(s), cw, waker, old: vec![], wid: next_wid(), seen: 0, seen_cur: 0, cur_pending: false, last_pending_wid: None, registered: false }
}

pub fn run_line(line: &str, out: &mut String) {
    NEXT_WID.with(|c| c.set(0));
    let (head, evs) = match line.split_once(" :: ") {
        Some((h, e)) => (h.trim(), e),
        None => (line.trim(), ""),
    };
    if head.ends_with("_async") {
        return crate::m_obs_async::run_line(line, out);
    }
    let ops: Vec<&str> = evs.split(" ; ").map(|s| s.trim()).filter(|s| !s.is_empty()).collect();
    let use_guard = head == "guard";
    let mut unique: Option<Observable<Val>> = None;
    let mut owners: Vec<SharedObservable<Val>> = vec![];
    let mut weaks: Vec<WeakObservable<Val>> = vec![];
    let mut subs: Vec<SubH> = vec![];
    let via_default = ops.len() % 2 == 1; // Default::default() == new(val(0))
    if head == "unique" {
        unique = Some(if via_default { Observable::default() } else { Observable::new(val(0)) });
    } else {
        owners.push(if via_default { SharedObservable::default() } else { SharedObservable::new(val(0)) });
    }
    let mut spec = Spec { cur: 0, shared: head != "unique", owners: 1, weaks: 0, unseen: vec![] };
    let mut res: Vec<String> = vec![];
    let mut turn = 0usize;
    for op in ops {
        let (name, a) = split_op(op);
        turn += 1;
        let expect = spec.step(name, &a);
        let registered_before: Vec<bool> = subs.iter().map(|s| s.registered).collect();
        // ---- perform the call on the implementation ----
        let possible = match name {
            "set" | "take" | "update" | "set_if_not_eq" | "set_if_hash_not_eq" | "update_if" | "get" | "subscribe"
            | "subscribe_reset" | "counts" => unique.is_some() || !owners.is_empty(),
            "clone" | "downgrade" => !owners.is_empty(),
            "drop_owner" => unique.is_some() || !owners.is_empty(),
            "into_shared" => unique.is_some(),
            "upgrade" | "drop_weak" | "clone_weak" => !weaks.is_empty(),
            _ => a.first().map_or(false, |k| subs.get(*k as usize).map_or(false, |s| s.sub.is_some())),
        };
        if !possible {
            res.push(format!("SKIP{}", if expect.is_some() { " ok:spec=0" } else { "" }));
            continue;
        }
        let text: String = if let Some(u) = unique.as_mut() {
            match name {
                "set" => format!("={}", show(Observable::set(u, val(a[0])))),
                "take" => format!("={}", show(Observable::take(u))),
                "update" => {
                    Observable::update(u, |v| *v = val(a[0]));
                    "()".into()
                }
                "set_if_not_eq" => match Observable::set_if_not_eq(u, val(a[0])) {
                    Some(p) => format!("Some({})", show(p)),
                    None => "None".into(),
                },
                "set_if_hash_not_eq" => match Observable::set_if_hash_not_eq(u, val(a[0])) {
                    Some(p) => format!("Some({})", show(p)),
                    None => "None".into(),
                },
                "update_if" => {
                    Observable::update_if(u, |v| {
                        *v = val(a[0]);
                        a[1] == 1
                    });
                    "()".into()
                }
                "get" => {
                    if turn % 2 == 0 {
                        format!("={}", show(*Observable::get(u)))
                    } else {
                        format!("={}", show(**u))
                    }
                }
                "subscribe" => {
                    subs.push(new_subh(Observable::subscribe(u)));
                    format!("#{}", subs.len() - 1)
                }
                "subscribe_reset" => {
                    subs.push(new_subh(Observable::subscribe_reset(u)));
                    format!("#{}", subs.len() - 1)
                }
                "counts" => {
                    let n = Observable::subscriber_count(u);
                    format!("c1/{}/{}/0", n, 1 + n)
                }
                "drop_owner" => {
                    if turn % 2 == 0 {
                        unique = None;
                    } else {
                        // dropped while a panic unwinds (the owner's task panicked): still a drop
                        let u = unique.take();
                        let _ = std::panic::catch_unwind(std::panic::AssertUnwindSafe(move || {
                            let _keep = u;
                            panic!("owner panics")
                        }));
                    }
                    "()".into()
                }
                "into_shared" => {
                    owners.push(Observable::into_shared(unique.take().unwrap()));
                    "()".into()
                }
                _ => sub_op(name, &a, &mut subs, turn),
            }
        } else if !owners.is_empty()
            && matches!(
                name,
                "set" | "take" | "update" | "set_if_not_eq" | "set_if_hash_not_eq" | "update_if" | "get" | "subscribe"
                    | "subscribe_reset" | "counts" | "clone" | "downgrade" | "drop_owner"
            )
        {
            let idx = turn % owners.len();
            let o = &owners[idx];
            match name {
                "set" => {
                    if use_guard {
                        let mut g = o.write();
                        format!("={}", show(ObservableWriteGuard::set(&mut g, val(a[0]))))
                    } else if turn % 3 == 2 {
                        let mut g = o.try_write().ok().expect("try_write on a free lock");
                        format!("={}", show(ObservableWriteGuard::set(&mut g, val(a[0]))))
                    } else {
                        format!("={}", show(o.set(val(a[0]))))
                    }
                }
                "take" => {
                    if use_guard {
                        let mut g = o.write();
                        format!("={}", show(ObservableWriteGuard::take(&mut g)))
                    } else {
                        format!("={}", show(o.take()))
                    }
                }
                "update" => {
                    if use_guard {
                        let mut g = o.write();
                        ObservableWriteGuard::update(&mut g, |v| *v = val(a[0]));
                    } else {
                        o.update(|v| *v = val(a[0]));
                    }
                    "()".into()
                }
                "set_if_not_eq" => {
                    let r = if use_guard {
                        let mut g = o.write();
                        ObservableWriteGuard::set_if_not_eq(&mut g, val(a[0]))
                    } else {
                        o.set_if_not_eq(val(a[0]))
                    };
                    match r {
                        Some(p) => format!("Some({})", show(p)),
                        None => "None".into(),
                    }
                }
                "set_if_hash_not_eq" => {
                    let r = if use_guard {
                        let mut g = o.write();
                        ObservableWriteGuard::set_if_hash_not_eq(&mut g, val(a[0]))
                    } else {
                        o.set_if_hash_not_eq(val(a[0]))
                    };
                    match r {
                        Some(p) => format!("Some({})", show(p)),
                        None => "None".into(),
                    }
                }
                "update_if" => {
                    if use_guard {
                        let mut g = o.write();
                        ObservableWriteGuard::update_if(&mut g, |v| {
                            *v = val(a[0]);
                            a[1] == 1
                        });
                    } else {
                        o.update_if(|v| {
                            *v = val(a[0]);
                            a[1] == 1
                        });
                    }
                    "()".into()
                }
                "get" => {
                    if use_guard && turn % 2 == 0 {
                        format!("={}", show(*o.read()))
                    } else if use_guard {
                        // reading through a write guard (Deref for ObservableWriteGuard)
                        let g = o.write();
                        format!("={}", show(*g))
                    } else if turn % 3 == 2 {
                        // single-threaded: the lock is free, so try_read succeeds
                        format!("={}", show(*o.try_read().ok().expect("try_read on a free lock")))
                    } else {
                        format!("={}", show(o.get()))
                    }
                }
                "subscribe" => {
                    subs.push(new_subh(o.subscribe()));
                    format!("#{}", subs.len() - 1)
                }
                "subscribe_reset" => {
                    subs.push(new_subh(o.subscribe_reset()));
                    format!("#{}", subs.len() - 1)
                }
                "counts" => format!(
                    "c{}/{}/{}/{}",
                    o.observable_count(),
                    o.subscriber_count(),
                    o.strong_count(),
                    o.weak_count()
                ),
                "clone" => {
                    let c = o.clone();
                    owners.push(c);
                    "()".into()
                }
                "downgrade" => {
                    weaks.push(o.downgrade());
                    "()".into()
                }
                "drop_owner" => {
                    let gone = owners.remove(idx);
                    if turn % 2 == 0 {
                        drop(gone);
                    } else {
                        let _ = std::panic::catch_unwind(std::panic::AssertUnwindSafe(move || {
                            let _keep = gone;
                            panic!("owner panics")
                        }));
                    }
                    "()".into()
                }
                _ => unreachable!(),
            }
        } else {
            match name {
                "upgrade" => match weaks[turn % weaks.len()].upgrade() {
                    Some(o) => {
                        owners.push(o);
                        "true".into()
                    }
                    None => "false".into(),
                },
                "drop_weak" => {
                    let i = turn % weaks.len();
                    weaks.remove(i);
                    "()".into()
                }
                "clone_weak" => {
                    let c = weaks[turn % weaks.len()].clone();
                    weaks.push(c);
                    "()".into()
                }
                _ => sub_op(name, &a, &mut subs, turn),
            }
        };
        // ---- wakes ----
        let mut wk = vec![];
        let mut stale_waker = false;
        let mut woken_objs: Vec<(usize, usize)> = vec![];
        let mut latest: Vec<String> = vec![];
        for (k, s) in subs.iter_mut().enumerate() {
            let n = s.total_wakes();
            if n > s.seen {
                let from = woken_objs.len();
                s.newly_woken(k, &mut woken_objs);
                // "wakes the waker supplied to that Pending poll": did the object supplied to the
                // latest Pending poll fire?  (Which OTHER objects fire as well - earlier wakers of the
                // same subscriber, once or twice - is left open: implementations that de-duplicate
                // or replace a subscriber's entry are as good.)
                match s.last_pending_wid.take() {
                    Some(w) if woken_objs[from..].contains(&(k, w)) => latest.push(format!("{k}:{w}")),
                    _ => latest.push(format!("{k}:-")),
                }
                wk.push(format!("{}x{}", k, n - s.seen));
                s.seen = n;
                // C02: "wakes the waker supplied to that Pending poll" - the latest one
                let cur = s.cw.0.load(AO::SeqCst);
                if s.cur_pending && cur == s.seen_cur {
                    stale_waker = true;
                }
                s.seen_cur = cur;
                s.cur_pending = false;
                s.registered = false;
            }
        }
        let mut line = text.clone();
        if stale_waker {
            line.push_str(" ok:wake=0");
        }
        if !wk.is_empty() {
            // per woken subscriber, the waker object of its latest Pending poll (as the model's
            // ObsWaker.wstep predicts: the last entry of that subscriber in the woken list)
            line.push_str(&format!(" w{}", latest.join(",")));
        }
        // C19 read literally, independent of the specification: the counts equal the harness's own
        // inventory of live handles (it holds every clone, subscriber and weak reference itself)
        if name == "counts" {
            if let Some(nums) = text.strip_prefix('c') {
                let n: Vec<usize> = nums.split('/').map(|x| x.parse().unwrap_or(usize::MAX)).collect();
                let live_subs = subs.iter().filter(|s| s.sub.is_some()).count();
                let n_owners = if unique.is_some() { 1 } else { owners.len() };
                if n.len() != 4 || n[0] != n_owners || n[1] != live_subs || n[2] != n_owners + live_subs || n[3] != weaks.len() {
                    line.push_str(" ok:inventory=0");
                }
            }
        }
        // ---- oracles ----
        match &expect {
            None => line.push_str(" ok:spec=0"),
            Some((t, wakes_all)) => {
                if *t != text {
                    line.push_str(" ok:spec=0");
                    // which sentence of which property: the count functions (C19), or the end of
                    // the stream / upgrade (C03)
                    if name == "counts" {
                        line.push_str(" ok:counts=0");
                    }
                    if name == "upgrade" || ((name == "poll") && (t == "N" || text == "N")) {
                        line.push_str(" ok:endspec=0");
                    }
                    // C02, second sentence: a subscriber is never left suspended while an update it
                    // has not observed, or the end of its stream, is available
                    if name == "poll" && text == "P" {
                        line.push_str(" ok:nosuspend=0");
                    }
                }
                if *wakes_all {
                    // every subscriber that was registered (Pending, not woken since) must have been woken now
                    for (k, was) in registered_before.iter().enumerate() {
                        if *was && subs[k].registered {
                            line.push_str(" ok:wake=0");
                            break;
                        }
                    }
                }
            }
        }
        res.push(line);
    }
    out.push_str(&res.join(" ; "));
    out.push('\n');
}

fn sub_op(name: &str, a: &[u32], subs: &mut Vec<SubH>, turn: usize) -> String {
    let k = a[0] as usize;
    match name {
        "poll" => {
            // every fourth call position: the task polls with a fresh waker
            if turn % 4 == 3 {
                subs[k].fresh_waker();
            }
            // the three equivalent ways of polling a subscriber once: the Stream impl, the `Next`
            // future returned by next(), the future of next_ref() (value copied, guard dropped)
            let waker = subs[k].waker.clone();
            let mut cx = Context::from_waker(&waker);
            let s = subs[k].sub.as_mut().unwrap();
            let r: Poll<Option<Val>> = match turn % 3 {
                0 => Pin::new(s).poll_next(&mut cx),
                1 => {
                    let mut f = s.next();
                    std::future::Future::poll(Pin::new(&mut f), &mut cx)
                }
                _ => {
                    let mut f = Box::pin(s.next_ref());
                    std::future::Future::poll(f.as_mut(), &mut cx).map(|o| o.map(|g| *g))
                }
            };
            subs[k].cur_pending = r.is_pending();
            if r.is_pending() {
                subs[k].last_pending_wid = Some(subs[k].wid);
            }
            match r {
                Poll::Ready(Some(v)) => format!("R:{}", show(v)),
                Poll::Ready(None) => "N".into(),
                Poll::Pending => {
                    subs[k].registered = true;
                    "P".into()
                }
            }
        }
        "next_now" => {
            let s = subs[k].sub.as_mut().unwrap();
            if turn % 2 == 0 {
                format!("={}", show(s.next_now()))
            } else {
                format!("={}", show(*s.next_ref_now()))
            }
        }
        "sget" => format!("={}", show(subs[k].sub.as_ref().unwrap().get())),
        "sread" => format!("={}", show(*subs[k].sub.as_ref().unwrap().read())),
        "reset" => {
            subs[k].sub.as_mut().unwrap().reset();
            "()".into()
        }
        "sclone" => {
            let c = subs[k].sub.as_ref().unwrap().clone();
            subs.push(new_subh(c));
            format!("#{}", subs.len() - 1)
        }
        "sclone_reset" => {
            let c = subs[k].sub.as_ref().unwrap().clone_reset();
            subs.push(new_subh(c));
            format!("#{}", subs.len() - 1)
        }
        "sdrop" => {
            subs[k].sub = None;
            "()".into()
        }
        _ => panic!("bad op {name}"),
    }
}
