//! mode drain: polls that race the sender (C05 C06 C08).  Needs `--cfg eyeball_verif`: the
//! drain points of eyeball-im/src/verif.rs sit before every `try_recv` of the batched stream's
//! loop and of `handle_lag`; the callback installed here performs, at the j-th drain point of a
//! poll, the j-th injection of the case — vector operations "from another thread" between two
//! receive attempts of one poll.  Mirrors /verif/ocaml/m_drain.ml (model: OVecDrain.v).
//!
//! case:  cap=N :: op ; op ; ...
//!   op  = <mutator> | txn{m+m+..} | sub(p) | sub(b) | dropsub(k) | dropvec | poll(k)
//!       | cpoll(k)<inj|inj|..>        inj = op&op&..   (no polls inside)
#![cfg(eyeball_verif)]
use crate::common::*;
use crate::m_adapt::{ok_in, CountWaker};
use crate::m_ovec::{args, mutate, show_ret_opt, split_op};
use eyeball_im::{ObservableVector, VectorDiff};
use futures_core::Stream;
use imbl::Vector;
use std::cell::RefCell;
use std::pin::Pin;
use std::rc::Rc;
use std::sync::atomic::AtomicUsize;
use std::sync::Arc;
use std::task::{Context, Poll, Waker};

enum AnyStream {
    Plain(Pin<Box<dyn Stream<Item = VectorDiff<u32>>>>),
    Batched(Pin<Box<dyn Stream<Item = Vec<VectorDiff<u32>>>>>),
}

struct Sub {
    stream: Option<AnyStream>,
    batched: bool,
    waker: Waker,
    replica: Vector<u32>,
    app_ok: bool,
    /// index into World::states of the state the replica was last seen equal to
    ptr: usize,
    hist_ok: bool,
    /// messages published since the subscriber was last known to be caught up
    since_caught_up: usize,
    lagreset_ok: bool,
    live: bool,
}

struct World {
    ob: Option<ObservableVector<u32>>,
    subs: Vec<Sub>,
    /// the vector's contents after every operation that published something
    states: Vec<Vector<u32>>,
    fin: Option<Vector<u32>>,
    cap: usize,
}

impl World {
    fn contents(&self) -> Vector<u32> {
        match &self.ob {
            Some(o) => (**o).clone(),
            None => self.fin.clone().unwrap_or_default(),
        }
    }

    fn live_count(&self) -> usize {
        self.subs.iter().filter(|s| s.live).count()
    }

    /// one message was (perhaps) published by an operation that changed the contents from `before`
    fn note_published(&mut self, nmsgs: usize) {
        if nmsgs == 0 || self.live_count() == 0 {
            return;
        }
        let c = self.contents();
        self.states.push(c);
        for s in self.subs.iter_mut().filter(|s| s.live) {
            s.since_caught_up += nmsgs;
        }
    }

    /// a vector-side operation (top level or injected); returns its observation
    fn vec_op(&mut self, op: &str) -> String {
        let (name, arg) = match op.strip_prefix("txn") {
            Some(body) => ("txn", body),
            None => split_op(op),
        };
        match name {
            "sub" => {
                let Some(o) = self.ob.as_ref() else { return "PANIC".into() };
                let batched = arg == "(b)";
                let sub = o.subscribe();
                let snap = sub.values();
                let stream = if batched {
                    AnyStream::Batched(Box::pin(sub.into_batched_stream()))
                } else {
                    AnyStream::Plain(Box::pin(sub.into_stream()))
                };
                let cw = Arc::new(CountWaker(AtomicUsize::new(0)));
                let k = self.subs.len();
                let ptr = self.states.len();
                self.states.push(snap.clone());
                self.subs.push(Sub {
                    stream: Some(stream),
                    batched,
                    waker: Waker::from(cw),
                    replica: snap.clone(),
                    app_ok: true,
                    ptr,
                    hist_ok: true,
                    since_caught_up: 0,
                    lagreset_ok: true,
                    live: true,
                });
                format!("#{k}={}", show_vec(snap.iter()))
            }
            "dropsub" => {
                let k = args(arg)[0];
                if let Some(s) = self.subs.get_mut(k) {
                    s.stream = None;
                    s.live = false;
                }
                ".".into()
            }
            "dropvec" => {
                if self.ob.is_none() {
                    return "PANIC".into();
                }
                self.fin = Some(self.contents());
                self.ob = None;
                ".".into()
            }
            "txn" => {
                // txn{m+m+..}: begin, the operations (a panicking one is skipped), commit
                let Some(o) = self.ob.as_mut() else { return "PANIC".into() };
                let body = &arg[1..arg.len() - 1];
                let mut outs = vec![];
                let before = (**o).clone();
                {
                    let mut t = o.transaction();
                    for m in body.split('+').filter(|m| !m.is_empty()) {
                        let (n, a) = split_op(m);
                        let r: Option<String> = mutate!(t, n, a);
                        outs.push(if r.is_some() { "." } else { "PANIC" });
                    }
                    t.commit();
                }
                let changed = !(**o).iter().eq(before.iter());
                // a transaction that recorded something publishes one message; whether it did is
                // visible to the harness only through the contents: count it if they changed
                // (an unchanged commit may or may not have published: the subscriber then cannot be
                // assumed caught up, which only loosens `lagreset`)
                if changed {
                    self.note_published(1);
                } else {
                    for s in self.subs.iter_mut().filter(|s| s.live) {
                        s.since_caught_up += 1;
                    }
                }
                format!("t({})", outs.join(""))
            }
            _ => {
                let Some(o) = self.ob.as_mut() else { return "PANIC".into() };
                let before = (**o).clone();
                let r: Option<String> = mutate!(o, name, arg);
                match r {
                    None => "PANIC".into(),
                    Some(_) => {
                        let changed = !(**o).iter().eq(before.iter());
                        // the documented no-ops; set(i, same value) or append([]) publish although
                        // the contents do not change
                        let no_op = !changed && matches!(name, "pop_front" | "pop_back" | "clear" | "truncate");
                        if !no_op {
                            self.note_published(1);
                        }
                        ".".into()
                    }
                }
            }
        }
    }
}

fn deliver(w: &mut World, k: usize, ds: &[VectorDiff<u32>]) {
    let cap = w.cap;
    let states = w.states.clone();
    let s = &mut w.subs[k];
    for d in ds {
        if matches!(d, VectorDiff::Reset { .. }) && s.since_caught_up <= cap {
            s.lagreset_ok = false;
        }
        if !ok_in(d, s.replica.len()) {
            s.app_ok = false;
        }
        let mut v2 = s.replica.clone();
        if catch(|| d.clone().apply(&mut v2)).is_some() {
            s.replica = v2;
        } else {
            s.app_ok = false;
        }
    }
    // the replica after a whole item of a batched stream is a state the vector went through, and
    // the subscriber never goes back in time
    if s.batched {
        match (s.ptr..states.len()).find(|&i| states[i].iter().eq(s.replica.iter())) {
            Some(i) => s.ptr = i,
            None => s.hist_ok = false,
        }
    }
}

fn b(x: bool) -> char {
    if x {
        '1'
    } else {
        '0'
    }
}

/// poll subscriber k, performing `inj[j]` at the j-th drain point
fn do_poll(w: &Rc<RefCell<World>>, k: usize, inj: Option<Vec<Vec<String>>>) -> String {
    let (mut stream, waker) = {
        let mut wb = w.borrow_mut();
        let Some(s) = wb.subs.get_mut(k) else { return "PANIC".into() };
        let Some(st) = s.stream.take() else { return "PANIC".into() };
        (st, s.waker.clone())
    };
    let used = Rc::new(RefCell::new(0usize));
    if let Some(inj) = inj.clone() {
        let w2 = w.clone();
        let used2 = used.clone();
        eyeball_im::verif::set_drain_hook(Some(Box::new(move |_point| {
            let j = *used2.borrow();
            if j < inj.len() {
                *used2.borrow_mut() = j + 1;
                for op in &inj[j] {
                    let _ = catch(|| w2.borrow_mut().vec_op(op));
                }
            }
        })));
    }
    let mut cx = Context::from_waker(&waker);
    let r: Option<Poll<Option<Vec<VectorDiff<u32>>>>> = catch(|| match &mut stream {
        AnyStream::Plain(st) => st.as_mut().poll_next(&mut cx).map(|o| o.map(|d| vec![d])),
        AnyStream::Batched(st) => st.as_mut().poll_next(&mut cx),
    });
    eyeball_im::verif::set_drain_hook(None);
    let mut wb = w.borrow_mut();
    wb.subs[k].stream = Some(stream);
    let utext = if inj.is_some() { format!(" u={}", *used.borrow()) } else { String::new() };
    let contents = wb.contents();
    match r {
        None => "PANIC".into(),
        Some(Poll::Ready(Some(ds))) => {
            deliver(&mut wb, k, &ds);
            let s = &mut wb.subs[k];
            let is_reset = ds.iter().any(|d| matches!(d, VectorDiff::Reset { .. }));
            let mut t = format!("R:{}{utext}", ds.iter().map(show_diff).collect::<Vec<_>>().join("|"));
            if s.batched || is_reset {
                // "each item of the batched stream brings its subscriber fully up to date";
                // "a Reset always carries the vector's contents as of the moment it is delivered"
                let up = s.replica.iter().eq(contents.iter());
                t.push_str(&format!(" ok:uptodate={}", b(up)));
                if up {
                    s.since_caught_up = 0;
                }
            }
            t.push_str(&format!(
                " ok:app={} ok:hist={} ok:lagreset={} ok:nonempty={}",
                b(s.app_ok),
                b(s.hist_ok),
                b(s.lagreset_ok),
                b(!ds.is_empty())
            ));
            t
        }
        Some(Poll::Ready(None)) => {
            let alive = wb.ob.is_some();
            let s = &mut wb.subs[k];
            let fin_ok = s.replica.iter().eq(contents.iter());
            format!("N{utext} ok:endalive={} ok:final={} ok:app={}", b(!alive), b(fin_ok), b(s.app_ok))
        }
        Some(Poll::Pending) => {
            let s = &mut wb.subs[k];
            let ok = s.replica.iter().eq(contents.iter());
            s.since_caught_up = 0;
            format!("P{utext} ok:replica={} ok:app={} ok:hist={}", b(ok), b(s.app_ok), b(s.hist_ok))
        }
    }
}

pub fn run_line(line: &str, out: &mut String) {
    let (head, evs) = line.split_once(" :: ").unwrap_or((line, ""));
    let cap: usize = head.trim().strip_prefix("cap=").expect("cap=").parse().expect("cap");
    let w = Rc::new(RefCell::new(World {
        ob: Some(ObservableVector::with_capacity(cap)),
        subs: vec![],
        states: vec![],
        fin: None,
        cap,
    }));
    let mut outs: Vec<String> = vec![];
    for op in evs.split(" ; ").map(str::trim).filter(|s| !s.is_empty()) {
        let (name, arg) = if op.starts_with("txn") { ("txn", "") } else { split_op(op) };
        match name {
            "poll" => outs.push(do_poll(&w, args(arg)[0], None)),
            "cpoll" => {
                // cpoll(k)<inj|inj|..>
                let close = arg.find(')').expect("cpoll arg");
                let k = args(&arg[..=close])[0];
                let rest = &arg[close + 1..];
                let body = &rest[1..rest.len() - 1];
                let inj: Vec<Vec<String>> = if body.is_empty() {
                    vec![]
                } else {
                    body.split('|')
                        .map(|i| i.split('&').map(str::trim).filter(|s| !s.is_empty()).map(String::from).collect())
                        .collect()
                };
                outs.push(do_poll(&w, k, Some(inj)));
            }
            _ => {
                let r = catch(|| w.borrow_mut().vec_op(op));
                outs.push(r.unwrap_or_else(|| "PANIC".into()));
            }
        }
    }
    let _ = show_ret_opt;
    out.push_str(&outs.join(" ; "));
    out.push('\n');
}
