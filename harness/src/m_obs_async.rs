//! mode obs, heads unique_async / shared_async / guard_async (C16): the async-lock flavour of the
//! observable, every future polled by a hand-rolled executor.  With no guard held across a call
//! every future must complete at its first poll (`WOULDBLOCK` otherwise).
use crate::m_adapt::CountWaker;
use crate::m_obs::{show, split_op, val, Spec, Val};
use eyeball::{AsyncLock, Observable, ObservableWriteGuard, SharedObservable, Subscriber, WeakObservable};
use futures_core::Stream;
use std::future::Future;
use std::pin::Pin;
use std::sync::atomic::{AtomicUsize, Ordering as AO};
use std::sync::Arc;
use std::task::{Context, Poll, Waker};

/// poll a future once with a throw-away waker; None = it would block
pub fn now<F: Future>(f: F) -> Option<F::Output> {
    let cw = Arc::new(CountWaker(AtomicUsize::new(0)));
    let waker = Waker::from(cw);
    let mut cx = Context::from_waker(&waker);
    let mut f = Box::pin(f);
    match f.as_mut().poll(&mut cx) {
        Poll::Ready(x) => Some(x),
        Poll::Pending => None,
    }
}

struct SubH {
    sub: Option<Subscriber<Val, AsyncLock>>,
    cw: Arc<CountWaker>,
    waker: Waker,
    /// earlier wakers of this subscriber (see m_obs.rs): the latest one must be woken
    old: Vec<Arc<CountWaker>>,
    seen: usize,
    seen_cur: usize,
    cur_pending: bool,
    registered: bool,
}

impl SubH {
    fn total_wakes(&self) -> usize {
        self.cw.0.load(AO::SeqCst) + self.old.iter().map(|c| c.0.load(AO::SeqCst)).sum::<usize>()
    }
    fn fresh_waker(&mut self) {
        let cw = Arc::new(CountWaker(AtomicUsize::new(0)));
        self.waker = Waker::from(cw.clone());
        self.old.push(std::mem::replace(&mut self.cw, cw));
        self.seen_cur = 0;
    }
}

fn new_subh(s: Subscriber<Val, AsyncLock>) -> SubH {
    let cw = Arc::new(CountWaker(AtomicUsize::new(0)));
    let waker = Waker::from(cw.clone());
    SubH { sub: Some(s), cw, waker, old: vec![], seen: 0, seen_cur: 0, cur_pending: false, registered: false }
}

fn opt(o: Option<Val>) -> String {
    match o {
        Some(p) => format!("Some({})", show(p)),
        None => "None".into(),
    }
}

pub fn run_line(line: &str, out: &mut String) {
    let (head, evs) = match line.split_once(" :: ") {
        Some((h, e)) => (h.trim(), e),
        None => (line.trim(), ""),
    };
    let ops: Vec<&str> = evs.split(" ; ").map(|s| s.trim()).filter(|s| !s.is_empty()).collect();
    let use_guard = head == "guard_async";
    let mut unique: Option<Observable<Val, AsyncLock>> = None;
    let mut owners: Vec<SharedObservable<Val, AsyncLock>> = vec![];
    let mut weaks: Vec<WeakObservable<Val, AsyncLock>> = vec![];
    let mut subs: Vec<SubH> = vec![];
    if head == "unique_async" {
        unique = Some(if ops.len() % 2 == 1 { Observable::default() } else { Observable::new_async(val(0)) });
    } else {
        owners.push(if ops.len() % 2 == 1 { SharedObservable::default() } else { SharedObservable::new_async(val(0)) });
    }
    let mut spec = Spec { cur: 0, shared: head != "unique_async", owners: 1, weaks: 0, unseen: vec![] };
    let mut res: Vec<String> = vec![];
    let mut turn = 0usize;
    const WB: &str = "WOULDBLOCK";
    for op in ops {
        let (name, a) = split_op(op);
        turn += 1;
        let expect = spec.step(name, &a);
        let registered_before: Vec<bool> = subs.iter().map(|s| s.registered).collect();
        let possible = match name {
            "set" | "take" | "update" | "set_if_not_eq" | "set_if_hash_not_eq" | "update_if" | "get" | "subscribe"
            | "subscribe_reset" | "counts" => unique.is_some() || !owners.is_empty(),
            "clone" | "downgrade" => !owners.is_empty(),
            "drop_owner" => unique.is_some() || !owners.is_empty(),
            "into_shared" => unique.is_some(),
            "upgrade" | "drop_weak" | "clone_weak" => !weaks.is_empty(),
            _ => a.first().map_or(false, |k| subs.get(*k as usize).map_or(false, |s| s.sub.is_some())),
        };
        if !possible {
            res.push(format!("SKIP{}", if expect.is_some() { " ok:spec=0" } else { "" }));
            continue;
        }
        let text: String = if let Some(u) = unique.as_mut() {
            match name {
                "set" => now(Observable::set_async(u, val(a[0]))).map_or(WB.into(), |p| format!("={}", show(p))),
                "take" => now(Observable::take_async(u)).map_or(WB.into(), |p| format!("={}", show(p))),
                "update" => now(Observable::update_async(u, |v| *v = val(a[0]))).map_or(WB.into(), |_| "()".into()),
                "set_if_not_eq" => now(Observable::set_if_not_eq_async(u, val(a[0]))).map_or(WB.into(), opt),
                "set_if_hash_not_eq" => now(Observable::set_if_hash_not_eq_async(u, val(a[0]))).map_or(WB.into(), opt),
                "update_if" => now(Observable::update_if_async(u, |v| {
                    *v = val(a[0]);
                    a[1] == 1
                }))
                .map_or(WB.into(), |_| "()".into()),
                "get" => format!("={}", show(*Observable::get_async(u))),
                "subscribe" => {
                    subs.push(new_subh(Observable::subscribe_async(u)));
                    format!("#{}", subs.len() - 1)
                }
                "subscribe_reset" => {
                    subs.push(new_subh(Observable::subscribe_reset_async(u)));
                    format!("#{}", subs.len() - 1)
                }
                "counts" => {
                    let n = Observable::subscriber_count(u);
                    format!("c1/{}/{}/0", n, 1 + n)
                }
                "drop_owner" => {
                    if turn % 2 == 0 {
                        unique = None;
                    } else {
                        // dropped while a panic unwinds (the owner's task panicked): still a drop
                        let u = unique.take();
                        let _ = std::panic::catch_unwind(std::panic::AssertUnwindSafe(move || {
                            let _keep = u;
                            panic!("owner panics")
                        }));
                    }
                    "()".into()
                }
                "into_shared" => {
                    owners.push(Observable::into_shared(unique.take().unwrap()));
                    "()".into()
                }
                _ => sub_op(name, &a, &mut subs, turn),
            }
        } else if !owners.is_empty()
            && matches!(
                name,
                "set" | "take" | "update" | "set_if_not_eq" | "set_if_hash_not_eq" | "update_if" | "get" | "subscribe"
                    | "subscribe_reset" | "counts" | "clone" | "downgrade" | "drop_owner"
            )
        {
            let idx = turn % owners.len();
            let o = &owners[idx];
            match name {
                "set" => {
                    if use_guard {
                        now(o.write()).map_or(WB.into(), |mut g| format!("={}", show(ObservableWriteGuard::set(&mut g, val(a[0])))))
                    } else if turn % 3 == 2 {
                        o.try_write().map_or(WB.into(), |mut g| format!("={}", show(ObservableWriteGuard::set(&mut g, val(a[0])))))
                    } else {
                        now(o.set(val(a[0]))).map_or(WB.into(), |p| format!("={}", show(p)))
                    }
                }
                "take" => now(o.take()).map_or(WB.into(), |p| format!("={}", show(p))),
                "update" => {
                    if use_guard {
                        now(o.write()).map_or(WB.into(), |mut g| {
                            ObservableWriteGuard::update(&mut g, |v| *v = val(a[0]));
                            "()".into()
                        })
                    } else {
                        now(o.update(|v| *v = val(a[0]))).map_or(WB.into(), |_| "()".into())
                    }
                }
                "set_if_not_eq" => now(o.set_if_not_eq(val(a[0]))).map_or(WB.into(), opt),
                "set_if_hash_not_eq" => now(o.set_if_hash_not_eq(val(a[0]))).map_or(WB.into(), opt),
                "update_if" => now(o.update_if(|v| {
                    *v = val(a[0]);
                    a[1] == 1
                }))
                .map_or(WB.into(), |_| "()".into()),
                "get" => {
                    if use_guard {
                        now(o.read()).map_or(WB.into(), |g| format!("={}", show(*g)))
                    } else if turn % 3 == 2 {
                        o.try_read().map_or(WB.into(), |g| format!("={}", show(*g)))
                    } else {
                        now(o.get()).map_or(WB.into(), |p| format!("={}", show(p)))
                    }
                }
                "subscribe" => match now(o.subscribe()) {
                    Some(s) => {
                        subs.push(new_subh(s));
                        format!("#{}", subs.len() - 1)
                    }
                    None => WB.into(),
                },
                "subscribe_reset" => {
                    subs.push(new_subh(o.subscribe_reset()));
                    format!("#{}", subs.len() - 1)
                }
                "counts" => format!(
                    "c{}/{}/{}/{}",
                    o.observable_count(),
                    o.subscriber_count(),
                    o.strong_count(),
                    o.weak_count()
                ),
                "clone" => {
                    let c = o.clone();
                    owners.push(c);
                    "()".into()
                }
                "downgrade" => {
                    weaks.push(o.downgrade());
                    "()".into()
                }
                "drop_owner" => {
                    let gone = owners.remove(idx);
                    if turn % 2 == 0 {
                        drop(gone);
                    } else {
                        let _ = std::panic::catch_unwind(std::panic::AssertUnwindSafe(move || {
                            let _keep = gone;
                            panic!("owner panics")
                        }));
                    }
                    "()".into()
                }
                _ => unreachable!(),
            }
        } else {
            match name {
                "upgrade" => match weaks[turn % weaks.len()].upgrade() {
                    Some(o) => {
                        owners.push(o);
                        "true".into()
                    }
                    None => "false".into(),
                },
                "drop_weak" => {
                    let i = turn % weaks.len();
                    weaks.remove(i);
                    "()".into()
                }
                "clone_weak" => {
                    let c = weaks[turn % weaks.len()].clone();
                    weaks.push(c);
                    "()".into()
                }
                _ => sub_op(name, &a, &mut subs, turn),
            }
        };
        let mut wk = vec![];
        let mut stale_waker = false;
        for (k, s) in subs.iter_mut().enumerate() {
            let n = s.total_wakes();
            if n > s.seen {
                // which subscribers' wakers fired (how often is not part of the property)
                wk.push(format!("{}", k));
                s.seen = n;
                let cur = s.cw.0.load(AO::SeqCst);
                if s.cur_pending && cur == s.seen_cur {
                    stale_waker = true;
                }
                s.seen_cur = cur;
                s.cur_pending = false;
                s.registered = false;
            }
        }
        let mut line = text.clone();
        if stale_waker {
            line.push_str(" ok:wake=0");
        }
        if !wk.is_empty() {
            line.push_str(&format!(" w{}", wk.join(",")));
        }
        // C19 read literally (see m_obs.rs); in this flavour only the handle and weak counts: the
        // subscriber count is the recorded finding async_subscriber_double_count
        if name == "counts" {
            if let Some(nums) = text.strip_prefix('c') {
                let n: Vec<usize> = nums.split('/').map(|x| x.parse().unwrap_or(usize::MAX)).collect();
                let n_owners = if unique.is_some() { 1 } else { owners.len() };
                if n.len() != 4 || n[0] != n_owners || n[3] != weaks.len() {
                    line.push_str(" ok:inventory=0");
                }
            }
        }
        match &expect {
            None => line.push_str(" ok:spec=0"),
            Some((t, wakes_all)) => {
                if *t != text {
                    line.push_str(" ok:spec=0");
                    // which sentence of which property: the count functions (C19), or the end of
                    // the stream / upgrade (C03)
                    if name == "counts" {
                        line.push_str(" ok:counts=0");
                    }
                    if name == "upgrade" || ((name == "poll") && (t == "N" || text == "N")) {
                        line.push_str(" ok:endspec=0");
                    }
                    // C02, second sentence: a subscriber is never left suspended while an update it
                    // has not observed, or the end of its stream, is available
                    if name == "poll" && text == "P" {
                        line.push_str(" ok:nosuspend=0");
                    }
                }
                if *wakes_all {
                    for (k, was) in registered_before.iter().enumerate() {
                        if *was && subs[k].registered {
                            line.push_str(" ok:wake=0");
                            break;
                        }
                    }
                }
            }
        }
        res.push(line);
    }
    out.push_str(&res.join(" ; "));
    out.push('\n');
}

fn sub_op(name: &str, a: &[u32], subs: &mut Vec<SubH>, turn: usize) -> String {
    let k = a[0] as usize;
    const WB: &str = "WOULDBLOCK";
    match name {
        "poll" => {
            if turn % 4 == 3 {
                subs[k].fresh_waker();
            }
            // Stream impl, next().await polled once, next_ref().await polled once (value copied)
            let waker = subs[k].waker.clone();
            let mut cx = Context::from_waker(&waker);
            let s = subs[k].sub.as_mut().unwrap();
            let r: Poll<Option<Val>> = match turn % 3 {
                0 => Pin::new(s).poll_next(&mut cx),
                1 => {
                    let mut f = Box::pin(s.next());
                    f.as_mut().poll(&mut cx)
                }
                _ => {
                    let mut f = Box::pin(s.next_ref());
                    f.as_mut().poll(&mut cx).map(|o| o.map(|g| *g))
                }
            };
            subs[k].cur_pending = r.is_pending();
            match r {
                Poll::Ready(Some(v)) => format!("R:{}", show(v)),
                Poll::Ready(None) => "N".into(),
                Poll::Pending => {
                    subs[k].registered = true;
                    "P".into()
                }
            }
        }
        "next_now" => {
            let s = subs[k].sub.as_mut().unwrap();
            if turn % 2 == 0 {
                now(s.next_now()).map_or(WB.into(), |v| format!("={}", show(v)))
            } else {
                now(s.next_ref_now()).map_or(WB.into(), |g| format!("={}", show(*g)))
            }
        }
        "sget" => now(subs[k].sub.as_ref().unwrap().get()).map_or(WB.into(), |v| format!("={}", show(v))),
        "sread" => now(subs[k].sub.as_ref().unwrap().read()).map_or(WB.into(), |g| format!("={}", show(*g))),
        "reset" => {
            subs[k].sub.as_mut().unwrap().reset();
            "()".into()
        }
        "sclone" => {
            let c = subs[k].sub.as_ref().unwrap().clone();
            subs.push(new_subh(c));
            format!("#{}", subs.len() - 1)
        }
        "sclone_reset" => {
            let c = subs[k].sub.as_ref().unwrap().clone_reset();
            subs.push(new_subh(c));
            format!("#{}", subs.len() - 1)
        }
        "sdrop" => {
            subs[k].sub = None;
            "()".into()
        }
        _ => panic!("bad op {name}"),
    }
}
