//! mode hand (C12): the by-itself hand-over of Head / Tail / Skip at an ARBITRARY moment.
//! Stage 0 (head/tail/skip, any flavour) is created over a scripted source and used for a while -
//! polled once (`p`), drained (`D`), its limit changed, source updates left unconsumed or half
//! consumed (a second diff of a burst parked in its ready buffer) - and only then handed to stage 1
//! as the adapter itself (`H`: `VectorObserver::into_parts`, the values it hands over are printed).
//! After the hand-over the top of the stack is driven further.  Mirrors /verif/ocaml/m_hand.ml.
//! case: `<u|b> <vec> | <stage0> | <stage1> :: events`       stage = kind:flav:arg
//! events: d:<diff>  b:<d>|<d>  l<k>:<n>  p  D  H  es
//! Oracles: ok:stage0 (before H) / ok:stage1 (after H): at the end of every drain the rebuilt view is
//! the stack's view of the source; ok:app: every delivered diff is applicable.
use crate::common::*;
use crate::m_adapt::{apply_src, ok_in, BoxStream, CountWaker, Item, ScriptStream};
use crate::m_chain::{attach_one, stage_view, Stage};
use eyeball_im::VectorDiff;
use eyeball_im_util::vector::{VectorDiffContainer, VectorObserver, VectorObserverExt};
use futures_core::Stream;
use imbl::Vector;
use std::cell::RefCell;
use std::pin::Pin;
use std::rc::Rc;
use std::sync::atomic::AtomicUsize;
use std::sync::Arc;
use std::task::{Context, Poll, Waker};

/// the top of the stack: head/tail/skip are kept as themselves (not boxed as mere streams) so that
/// they can be handed over in turn; anything else is the end of the line
enum Top<I> {
    Late(Box<dyn Late<I>>),
    Final(BoxStream<I>),
}

trait Late<I> {
    fn poll(&mut self, cx: &mut Context<'_>) -> Poll<Option<I>>;
    /// into_parts, then the next stage on top of the pair: (values handed over, the next stage's initial values, new top)
    fn hand(self: Box<Self>, st1: &Stage, ls1: ScriptStream<usize>) -> (Vector<u32>, Option<Vector<u32>>, Top<I>);
}

impl<I, T> Late<I> for T
where
    I: Item + VectorDiffContainer<Element = u32>,
    T: Stream<Item = I> + Unpin + VectorObserver<u32> + 'static,
    T::Stream: Stream<Item = I> + 'static,
{
    fn poll(&mut self, cx: &mut Context<'_>) -> Poll<Option<I>> {
        Pin::new(self).poll_next(cx)
    }
    fn hand(self: Box<Self>, st1: &Stage, ls1: ScriptStream<usize>) -> (Vector<u32>, Option<Vector<u32>>, Top<I>) {
        let (vals, s) = (*self).into_parts();
        // from the second level on the lower stream is boxed, so the adapter types do not nest without end
        let below: BoxStream<I> = Box::pin(s);
        if matches!(st1.kind.as_str(), "head" | "tail" | "skip") {
            let (v1, a1) = build_late::<_, I>((vals.clone(), below), st1, ls1);
            (vals, v1, Top::Late(a1))
        } else {
            let (v1, s1) = attach_one::<_, I>((vals.clone(), below), st1, ls1);
            (vals, v1, Top::Final(s1))
        }
    }
}

fn build_late<O, I>(obs: O, st: &Stage, ls: ScriptStream<usize>) -> (Option<Vector<u32>>, Box<dyn Late<I>>)
where
    I: Item + VectorDiffContainer<Element = u32>,
    O: VectorObserver<u32>,
    O::Stream: Stream<Item = I> + Unpin + 'static,
{
    let arg = || st.arg.parse::<usize>().unwrap();
    match (st.kind.as_str(), st.flav.as_str()) {
        ("head", "static") => {
            let (v, s) = obs.head(arg());
            (Some(v), Box::new(s))
        }
        ("head", "dyninit") => {
            let (v, s) = obs.dynamic_head_with_initial_value(arg(), ls);
            (Some(v), Box::new(s))
        }
        ("head", "dynamic") => (None, Box::new(obs.dynamic_head(ls))),
        ("tail", "static") => {
            let (v, s) = obs.tail(arg());
            (Some(v), Box::new(s))
        }
        ("tail", "dyninit") => {
            let (v, s) = obs.dynamic_tail_with_initial_value(arg(), ls);
            (Some(v), Box::new(s))
        }
        ("tail", "dynamic") => (None, Box::new(obs.dynamic_tail(ls))),
        ("skip", "static") => {
            let (v, s) = obs.skip(arg());
            (Some(v), Box::new(s))
        }
        ("skip", "dyninit") => {
            let (v, s) = obs.dynamic_skip_with_initial_count(arg(), ls);
            (Some(v), Box::new(s))
        }
        ("skip", "dynamic") => (None, Box::new(obs.dynamic_skip(ls))),
        _ => panic!("stage 0 must be head/tail/skip: {st:?}"),
    }
}

fn run_generic<I>(vec: &str, stages: &[Stage], events: &[&str], out: &mut String)
where
    I: Item + Clone + VectorDiffContainer<Element = u32>,
    ScriptStream<I>: Stream<Item = I>,
{
    let vs = parse_vec(vec);
    let trace = Rc::new(RefCell::new(String::new()));
    let (src_stream, src_q) = ScriptStream::<I>::new('s', trace.clone());
    let mut limits = vec![];
    let mut lstreams: Vec<Option<ScriptStream<usize>>> = vec![];
    for _ in stages {
        let (ls, lq) = ScriptStream::<usize>::new('l', trace.clone());
        limits.push(lq);
        lstreams.push(Some(ls));
    }
    let ls0 = lstreams[0].take().unwrap();
    let mut params: Vec<Option<usize>> = stages
        .iter()
        .map(|s| if s.flav == "static" || s.flav == "dyninit" { Some(s.arg.parse().unwrap()) } else { None })
        .collect();
    let built = catch(|| build_late::<_, I>((vs.clone(), src_stream), &stages[0], ls0));
    let Some((iv, ad0)) = built else {
        out.push_str("init=PANIC");
        return;
    };
    let mut top: Option<Top<I>> = Some(Top::Late(ad0));
    let mut level = 0usize; // index of the stage that is the current top
    let mut view: Vector<u32> = iv.clone().unwrap_or_default();
    let mut app_ok = true;
    out.push_str(&format!("init={}", iv.as_ref().map_or("-".to_string(), |v| show_vec(v.iter()))));
    let mut src = vs.clone();
    let mut src_ok = true;
    let expected = |level: usize, params: &Vec<Option<usize>>, src: &Vector<u32>| -> Vec<u32> {
        let mut below: Vec<u32> = src.iter().copied().collect();
        for k in 0..=level {
            below = stage_view(&stages[k], params[k], &below);
        }
        below
    };
    for ev in events {
        out.push_str(" ; ");
        if *ev == "p" || *ev == "D" {
            let waker = Waker::from(Arc::new(CountWaker(AtomicUsize::new(0))));
            let mut items = vec![];
            let mut end = 'P';
            let mut n = 0;
            let mut panicked = false;
            loop {
                n += 1;
                let mut cx = Context::from_waker(&waker);
                let r = catch(|| match top.as_mut().unwrap() {
                    Top::Late(a) => a.poll(&mut cx),
                    Top::Final(t) => t.as_mut().poll_next(&mut cx),
                });
                match r {
                    None => {
                        panicked = true;
                        break;
                    }
                    Some(Poll::Ready(Some(it))) => {
                        let ds = it.diffs();
                        items.push(I::show(&ds));
                        for d in ds {
                            if !ok_in(&d, view.len()) {
                                app_ok = false;
                            }
                            let mut v2 = view.clone();
                            match catch(move || {
                                d.apply(&mut v2);
                                v2
                            }) {
                                Some(v2) => view = v2,
                                None => app_ok = false,
                            }
                        }
                        end = 'R';
                    }
                    Some(Poll::Ready(None)) => {
                        end = 'N';
                        break;
                    }
                    Some(Poll::Pending) => {
                        end = 'P';
                        break;
                    }
                }
                if *ev == "p" || n > 10000 {
                    break;
                }
            }
            if panicked {
                out.push_str("PANIC");
                if src_ok {
                    out.push_str(" ok:nopanic=0");
                }
                return;
            }
            out.push_str(&format!("{}{}", if items.is_empty() { String::new() } else { items.join("+") + "+" }, end));
            if *ev == "D" {
                let exp = expected(level, &params, &src);
                let ok = !src_ok || view.iter().copied().eq(exp.iter().copied());
                out.push_str(&format!(
                    " v={} ok:stage{}={} ok:app={}",
                    show_vec(view.iter()),
                    level,
                    b2s(ok),
                    b2s(!src_ok || app_ok)
                ));
            }
        } else if *ev == "H" {
            if level + 1 >= stages.len() || !matches!(top, Some(Top::Late(_))) {
                out.push('.');
                continue;
            }
            let Some(Top::Late(a)) = top.take() else { unreachable!() };
            let st1 = stages[level + 1].clone();
            let l1 = lstreams[level + 1].take().unwrap();
            match catch(move || a.hand(&st1, l1)) {
                None => {
                    out.push_str("H=PANIC");
                    if src_ok {
                        out.push_str(" ok:nopanic=0");
                    }
                    return;
                }
                Some((vals, v1, s1)) => {
                    out.push_str(&format!(
                        "H={}/{}",
                        show_vec(vals.iter()),
                        v1.as_ref().map_or("-".to_string(), |v| show_vec(v.iter()))
                    ));
                    view = v1.unwrap_or_default();
                    app_ok = true;
                    top = Some(s1);
                    level += 1;
                }
            }
        } else if let Some(d) = ev.strip_prefix("d:") {
            let d = parse_diff(d);
            apply_src(&mut src, &mut src_ok, &d);
            I::enqueue(&mut src_q.borrow_mut().queue, vec![d]);
            out.push('.');
        } else if let Some(b) = ev.strip_prefix("b:") {
            let ds: Vec<_> = b.split('|').map(parse_diff).collect();
            for d in &ds {
                apply_src(&mut src, &mut src_ok, d);
            }
            I::enqueue(&mut src_q.borrow_mut().queue, ds);
            out.push('.');
        } else if ev.starts_with('l') {
            let (k, n) = ev[1..].split_once(':').unwrap();
            let k: usize = k.parse().unwrap();
            let n: usize = n.parse().unwrap();
            params[k] = Some(n);
            limits[k].borrow_mut().queue.push_back(n);
            out.push('.');
        } else if *ev == "es" {
            src_q.borrow_mut().ended = true;
            out.push('.');
        } else {
            panic!("bad event {ev}");
        }
    }
}

pub fn run_line(line: &str, out: &mut String) {
    let (head, evs) = match line.split_once(" :: ") {
        Some((h, e)) => (h, e),
        None => (line, ""),
    };
    let mut parts = head.split(" | ");
    let first: Vec<&str> = parts.next().unwrap().split_whitespace().collect();
    let stages: Vec<Stage> = parts
        .map(|s| {
            let f: Vec<&str> = s.trim().split(':').collect();
            Stage { kind: f[0].into(), flav: f[1].into(), arg: f[2].into(), by_self: false }
        })
        .collect();
    assert!(stages.len() >= 2, "mode hand takes at least two stages");
    let events: Vec<&str> = evs.split(" ; ").map(|s| s.trim()).filter(|s| !s.is_empty()).collect();
    if first[0] == "b" {
        run_generic::<Vec<VectorDiff<u32>>>(first[1], &stages, &events, out);
    } else {
        run_generic::<VectorDiff<u32>>(first[1], &stages, &events, out);
    }
    out.push('\n');
}
