//! mode ovec: ObservableVector, transactions, entries, subscriber streams on the real crate.
//! Mirrors /verif/ocaml/m_ovec.ml (same case grammar, same observation grammar).
use crate::common::*;
use crate::m_adapt::{ok_in, CountWaker};
use eyeball_im::{ObservableVector, ObservableVectorTransaction, VectorDiff};
use futures_core::Stream;
use imbl::Vector;
use std::pin::Pin;
use std::sync::atomic::{AtomicUsize, Ordering as AO};
use std::sync::Arc;
use std::task::{Context, Poll, Waker};

enum AnyStream {
    Plain(Pin<Box<dyn Stream<Item = VectorDiff<u32>>>>),
    Batched(Pin<Box<dyn Stream<Item = Vec<VectorDiff<u32>>>>>),
}

struct SubInfo {
    stream: Option<AnyStream>,
    /// the VectorSubscriber as returned by subscribe(), not yet turned into a stream: the conversion
    /// happens at the first poll (whatever was sent in between must still be delivered)
    unconverted: Option<(eyeball_im::VectorSubscriber<u32>, bool)>,
    cw: Arc<CountWaker>,
    waker: Waker,
    seen_wakes: usize,
    replica: Vector<u32>,
    app_ok: bool,
    got_reset: bool,
    states: Vec<Vector<u32>>,
    ptr: usize,
    sent_since_pending: usize,
    lagreset_ok: bool,
    last_pending: bool,
    woken: bool,
    wake_ok: bool,
    expected: usize,
    delivered: usize,
    count_fuzzy: bool,
    live: bool,
    /// C14: something that makes a further poll able to return an item / the end happened while the
    /// last answer was Pending; the waker of that poll must fire before the operation is over
    due: bool,
}

struct World {
    subs: Vec<SubInfo>,
    /// plain-vector specification of the contents (outside / inside the transaction)
    shadow: Vec<u32>,
    tshadow: Vec<u32>,
    batch_count: usize,
    /// an out-of-range call (which panicked) has happened in this history
    oob_seen: bool,
    fin: Option<Vec<u32>>,
    cap: usize,
    out: Vec<String>,
    wakedue_ok: bool,
}

/// the plain-vector specification of the mutators: (new contents, return text, effective?);
/// None = panics.  Written independently of the library.
pub(crate) fn spec_mut(name: &str, arg: &str, v: &[u32], txn_clear: bool) -> Option<(Vec<u32>, String, bool)> {
    let len = v.len();
    let mut n = v.to_vec();
    match name {
        "append" => {
            n.extend(parse_ivec(arg));
            Some((n, "()".into(), true))
        }
        "clear" => {
            if v.is_empty() && !txn_clear {
                Some((n, "()".into(), false))
            } else {
                Some((vec![], "()".into(), true))
            }
        }
        "push_front" => {
            n.insert(0, args(arg)[0] as u32);
            Some((n, "()".into(), true))
        }
        "push_back" => {
            n.push(args(arg)[0] as u32);
            Some((n, "()".into(), true))
        }
        "pop_front" => {
            if v.is_empty() {
                Some((n, "None".into(), false))
            } else {
                let x = n.remove(0);
                Some((n, format!("Some({x})"), true))
            }
        }
        "pop_back" => match n.pop() {
            None => Some((n, "None".into(), false)),
            Some(x) => Some((n, format!("Some({x})"), true)),
        },
        "insert" => {
            let a = args(arg);
            if a[0] > len {
                None
            } else {
                n.insert(a[0], a[1] as u32);
                Some((n, "()".into(), true))
            }
        }
        "set" | "eset" => {
            let a = args(arg);
            if a[0] >= len {
                None
            } else {
                let old = n[a[0]];
                n[a[0]] = a[1] as u32;
                Some((n, format!("={old}"), true))
            }
        }
        "remove" | "eremove" => {
            let a = args(arg);
            if a[0] >= len {
                None
            } else {
                let old = n.remove(a[0]);
                Some((n, format!("={old}"), true))
            }
        }
        "truncate" => {
            let a = args(arg);
            if a[0] < len {
                n.truncate(a[0]);
                Some((n, "()".into(), true))
            } else {
                Some((n, "()".into(), false))
            }
        }
        _ => panic!("spec_mut {name}"),
    }
}

fn plain_check(real_ret: &str, spec: &Option<(Vec<u32>, String, bool)>, real: &Vector<u32>, expect: &[u32]) -> &'static str {
    let ret_ok = match spec {
        None => real_ret == "PANIC",
        Some((_, r, _)) => real_ret == r,
    };
    if ret_ok && real.iter().eq(expect.iter()) {
        ""
    } else {
        " ok:plain=0"
    }
}

/// spec of entries()/for_each: visits, final contents, states published after each effective step
fn spec_each(v: &[u32], decs: &[Dec]) -> (Vec<(usize, u32)>, Vec<u32>, Vec<Vec<u32>>) {
    let mut sh = v.to_vec();
    let mut visited = vec![];
    let mut pubs = vec![];
    let mut idx = 0;
    let mut di = 0;
    while idx < sh.len() {
        visited.push((idx, sh[idx]));
        let d = decs.get(di).copied().unwrap_or(Dec::Keep);
        di += 1;
        match d {
            Dec::Keep => idx += 1,
            Dec::Stop => break,
            Dec::Set(x) => {
                sh[idx] = x;
                pubs.push(sh.clone());
                idx += 1;
            }
            Dec::Remove => {
                sh.remove(idx);
                pubs.push(sh.clone());
            }
            Dec::SetRemove(x) => {
                sh[idx] = x;
                pubs.push(sh.clone());
                sh.remove(idx);
                pubs.push(sh.clone());
            }
        }
    }
    (visited, sh, pubs)
}

pub(crate) fn split_op(s: &str) -> (&str, &str) {
    match s.find(|c| c == '(' || c == '[') {
        Some(i) => (&s[..i], &s[i..]),
        None => (s, ""),
    }
}

pub(crate) fn args(s: &str) -> Vec<usize> {
    let inner = &s[1..s.len() - 1];
    if inner.is_empty() {
        return vec![];
    }
    inner.split(',').map(|x| x.parse().unwrap()).collect()
}

#[derive(Clone, Copy, PartialEq)]
enum Dec {
    Keep,
    Set(u32),
    Remove,
    SetRemove(u32),
    Stop,
}

fn parse_decisions(arg: &str) -> Vec<Dec> {
    let inner = &arg[1..arg.len() - 1];
    if inner.is_empty() {
        return vec![];
    }
    inner
        .split(',')
        .map(|t| match t.as_bytes()[0] {
            b'k' => Dec::Keep,
            b'r' => Dec::Remove,
            b'x' => Dec::Stop,
            b's' => Dec::Set(t[1..].parse().unwrap()),
            b't' => Dec::SetRemove(t[1..].parse().unwrap()),
            _ => panic!("bad decision {t}"),
        })
        .collect()
}

impl World {
    /// wake bookkeeping after an operation: which subscribers' wakers fired
    fn woken_suffix(&mut self) -> String {
        let mut ids = vec![];
        let mut due_ok = true;
        for (k, s) in self.subs.iter_mut().enumerate() {
            let n = s.cw.0.load(AO::SeqCst);
            if n > s.seen_wakes {
                s.seen_wakes = n;
                s.woken = true;
                ids.push(k.to_string());
            }
            if s.due {
                s.due = false;
                if s.live && s.last_pending && !s.woken {
                    due_ok = false;
                }
            }
        }
        if !due_ok {
            self.wakedue_ok = false;
        }
        if ids.is_empty() {
            String::new()
        } else {
            format!(" w{}", ids.join(","))
        }
    }

    /// spec: a message carrying state `st` was published (only if there is a live subscriber)
    fn published(&mut self, st: &[u32], ndiffs: usize) {
        if self.live_count() == 0 {
            return;
        }
        let st: Vector<u32> = st.iter().copied().collect();
        for s in self.subs.iter_mut() {
            if s.live {
                s.states.push(st.clone());
                s.sent_since_pending += 1;
                s.expected += ndiffs;
                if s.last_pending {
                    s.due = true;
                }
            }
        }
    }

    fn live_count(&self) -> usize {
        self.subs.iter().filter(|s| s.live).count()
    }

    fn do_poll(&mut self, k: usize) -> (String, char) {
        let cap = self.cap;
        let oob_seen = self.oob_seen;
        let shadow = self.shadow.clone();
        let fin = self.fin.clone();
        let nout = self.out.len();
        let s = &mut self.subs[k];
        if let Some((sub, batched)) = s.unconverted.take() {
            // one of the four ways of turning the subscriber into a stream, chosen by position
            let by_pair = nout % 2 == 0;
            s.stream = Some(match (batched, by_pair) {
                (false, false) => AnyStream::Plain(Box::pin(sub.into_stream())),
                (false, true) => {
                    let (v, st) = sub.into_values_and_stream();
                    if !v.iter().eq(s.replica.iter()) {
                        s.app_ok = false;
                    }
                    AnyStream::Plain(Box::pin(st))
                }
                (true, false) => AnyStream::Batched(Box::pin(sub.into_batched_stream())),
                (true, true) => {
                    let (v, st) = sub.into_values_and_batched_stream();
                    if !v.iter().eq(s.replica.iter()) {
                        s.app_ok = false;
                    }
                    AnyStream::Batched(Box::pin(st))
                }
            });
        }
        // every fourth output position: the task polls with a fresh waker (the stream must then wake
        // THAT one); wakes of the old waker seen so far are absorbed first
        if nout % 4 == 3 {
            if s.cw.0.load(AO::SeqCst) > s.seen_wakes {
                s.woken = true;
            }
            let cw = Arc::new(CountWaker(AtomicUsize::new(0)));
            s.waker = Waker::from(cw.clone());
            s.cw = cw;
            s.seen_wakes = 0;
        }
        let waker = s.waker.clone();
        let mut cx = Context::from_waker(&waker);
        let Some(stream) = s.stream.as_mut() else {
            return ("PANIC".into(), 'X');
        };
        let r: Option<Poll<Option<Vec<VectorDiff<u32>>>>> = catch(|| match stream {
            AnyStream::Plain(st) => st.as_mut().poll_next(&mut cx).map(|o| o.map(|d| vec![d])),
            AnyStream::Batched(st) => st.as_mut().poll_next(&mut cx),
        });
        // a wake during the poll itself counts as woken
        let n = s.cw.0.load(AO::SeqCst);
        if n > s.seen_wakes {
            s.seen_wakes = n;
            s.woken = true;
        }
        match r {
            None => ("PANIC".into(), 'X'),
            Some(Poll::Ready(Some(ds))) => {
                if s.last_pending && !s.woken {
                    s.wake_ok = false;
                }
                s.last_pending = false;
                let mut text = format!("R:{}", ds.iter().map(show_diff).collect::<Vec<_>>().join("|"));
                let batched = matches!(stream, AnyStream::Batched(_));
                for d in ds {
                    s.delivered += 1;
                    if let VectorDiff::Reset { values } = &d {
                        s.got_reset = true;
                        if s.sent_since_pending <= cap {
                            s.lagreset_ok = false;
                        }
                        // C06: a Reset carries the vector's contents as of the moment it is delivered
                        if !values.iter().eq(shadow.iter()) {
                            text.push_str(" ok:resetcurrent=0");
                        }
                    }
                    if !ok_in(&d, s.replica.len()) {
                        s.app_ok = false;
                    }
                    let mut v2 = s.replica.clone();
                    match catch(move || {
                        d.apply(&mut v2);
                        v2
                    }) {
                        Some(v2) => s.replica = v2,
                        None => s.app_ok = false,
                    }
                    if s.ptr < s.states.len() && s.states[s.ptr] == s.replica {
                        s.ptr += 1;
                    }
                }
                // C06: each item of the batched stream brings its subscriber fully up to date
                if batched && !s.replica.iter().eq(shadow.iter()) {
                    text.push_str(" ok:batchcurrent=0");
                }
                (text, 'R')
            }
            Some(Poll::Ready(None)) => {
                if s.last_pending && !s.woken {
                    s.wake_ok = false;
                }
                s.last_pending = false;
                let alive_ok = fin.is_some();
                let final_ok = match &fin {
                    Some(f) => s.replica.iter().eq(f.iter()),
                    None => true,
                };
                (
                    format!(
                        "N ok:endalive={} ok:final={} ok:app={} ok:wake={}",
                        b2s(alive_ok),
                        b2s(final_ok),
                        b2s(s.app_ok),
                        b2s(s.wake_ok)
                    ),
                    'N',
                )
            }
            Some(Poll::Pending) => {
                let replica_ok = s.replica.iter().eq(shadow.iter());
                let step_ok = s.got_reset || s.ptr == s.states.len();
                let count_ok = s.got_reset || s.count_fuzzy || s.expected == s.delivered;
                s.last_pending = true;
                s.woken = false;
                s.sent_since_pending = 0;
                // C17: an out-of-range call panics without notifying anyone - in a history with such a
                // call, nobody receives a diff that is not accounted for or not applicable
                let oob_bad = oob_seen && (!s.app_ok || !count_ok || !replica_ok);
                (
                    format!(
                        "P ok:replica={} ok:app={} ok:stepwise={} ok:count={} ok:lagreset={} ok:wake={}{}",
                        b2s(replica_ok),
                        b2s(s.app_ok),
                        b2s(step_ok),
                        b2s(count_ok),
                        b2s(s.lagreset_ok),
                        b2s(s.wake_ok),
                        if oob_bad { " ok:oobsilent=0" } else { "" }
                    ),
                    'P',
                )
            }
        }
    }

    /// operations that do not touch the vector: poll / drain / dropsub
    fn side_op(&mut self, name: &str, arg: &str) -> bool {
        match name {
            "poll" => {
                let k = args(arg)[0];
                let (s, _) = self.do_poll(k);
                self.out.push(s);
                true
            }
            "drain" => {
                let k = args(arg)[0];
                let mut parts = vec![];
                let mut count = 0;
                loop {
                    count += 1;
                    let (s, c) = self.do_poll(k);
                    parts.push(s);
                    if c != 'R' || count > 10000 {
                        break;
                    }
                }
                self.out.push(parts.join("+"));
                true
            }
            "dropsub" => {
                let k = args(arg)[0];
                self.subs[k].stream = None;
                self.subs[k].unconverted = None;
                self.subs[k].live = false;
                self.out.push(".".into());
                true
            }
            _ => false,
        }
    }
}

pub(crate) fn show_ret_opt(o: Option<u32>) -> String {
    match o {
        None => "None".into(),
        Some(x) => format!("Some({x})"),
    }
}

/// the ten mutators, on the vector or on a transaction (same method names)
macro_rules! mutate {
    ($t:expr, $name:expr, $arg:expr) => {{
        let name: &str = $name;
        let arg: &str = $arg;
        match name {
            "append" => {
                let v = parse_vec(arg);
                catch(|| {
                    $t.append(v);
                    "()".to_string()
                })
            }
            "clear" => catch(|| {
                $t.clear();
                "()".to_string()
            }),
            "push_front" => {
                let a = args(arg);
                catch(|| {
                    $t.push_front(a[0] as u32);
                    "()".to_string()
                })
            }
            "push_back" => {
                let a = args(arg);
                catch(|| {
                    $t.push_back(a[0] as u32);
                    "()".to_string()
                })
            }
            "pop_front" => catch(|| show_ret_opt($t.pop_front())),
            "pop_back" => catch(|| show_ret_opt($t.pop_back())),
            "insert" => {
                let a = args(arg);
                catch(|| {
                    $t.insert(a[0], a[1] as u32);
                    "()".to_string()
                })
            }
            "set" => {
                let a = args(arg);
                catch(|| format!("={}", $t.set(a[0], a[1] as u32)))
            }
            "remove" => {
                let a = args(arg);
                catch(|| format!("={}", $t.remove(a[0])))
            }
            "truncate" => {
                let a = args(arg);
                catch(|| {
                    $t.truncate(a[0]);
                    "()".to_string()
                })
            }
            _ => Some("?".to_string()),
        }
    }};
}
pub(crate) use mutate;

const MUTATORS: [&str; 10] =
    ["append", "clear", "push_front", "push_back", "pop_front", "pop_back", "insert", "set", "remove", "truncate"];

fn show_visited(v: &[(usize, u32)]) -> String {
    format!("({})", v.iter().map(|(i, x)| format!("{i}:{x}")).collect::<Vec<_>>().join(","))
}

fn run_txn<'a>(ob: &mut ObservableVector<u32>, w: &mut World, ops: &mut std::slice::Iter<'a, &'a str>) {
    let mut txn: ObservableVectorTransaction<'_, u32> = ob.transaction();
    w.tshadow = w.shadow.clone();
    w.batch_count = 0;
    w.out.push(".".into());
    while let Some(op) = ops.next() {
        let (in_txn, opn) = match op.strip_prefix("t.") {
            Some(r) => (true, r),
            None => (false, *op),
        };
        let (name, arg) = split_op(opn);
        if in_txn && (MUTATORS.contains(&name) || name == "eset" || name == "eremove") {
            let spec = spec_mut(name, arg, &w.tshadow, true);
            let r = if name == "eset" || name == "eremove" {
                let a = args(arg);
                catch(|| {
                    let mut e = txn.entry(a[0]);
                    if name == "eset" {
                        format!("={}", eyeball_im::ObservableVectorTransactionEntry::set(&mut e, a[1] as u32))
                    } else {
                        format!("={}", eyeball_im::ObservableVectorTransactionEntry::remove(e))
                    }
                })
            } else {
                mutate!(txn, name, arg)
            };
            let r = r.unwrap_or_else(|| "PANIC".into());
            if r == "PANIC" {
                w.oob_seen = true;
            }
            if r != "PANIC" {
                if let Some((v2, _, eff)) = &spec {
                    w.tshadow = v2.clone();
                    if name == "clear" {
                        w.batch_count = if w.live_count() > 0 { 1 } else { 0 };
                    } else if *eff && w.live_count() > 0 {
                        w.batch_count += 1;
                    }
                }
            }
            let chk = plain_check(&r, &spec, &*txn, &w.tshadow);
            w.out.push(format!("{r}{chk}"));
        } else if in_txn && name == "each" {
            let decs = parse_decisions(arg);
            let (vis_spec, sh, pubs) = spec_each(&w.tshadow, &decs);
            let mut visited = vec![];
            // for_each() is the entries() loop without early exit: used instead of the explicit
            // cursor on every other traversal that has no Stop decision
            let via_for_each = !decs.contains(&Dec::Stop) && w.out.len() % 2 == 1;
            let r = catch(|| {
                if via_for_each {
                    let mut i = 0;
                    txn.for_each(|mut e| {
                        visited.push((eyeball_im::ObservableVectorTransactionEntry::index(&e), *e));
                        let d = decs.get(i).copied().unwrap_or(Dec::Keep);
                        i += 1;
                        match d {
                            Dec::Keep | Dec::Stop => {}
                            Dec::Set(x) => {
                                eyeball_im::ObservableVectorTransactionEntry::set(&mut e, x);
                            }
                            Dec::Remove => {
                                eyeball_im::ObservableVectorTransactionEntry::remove(e);
                            }
                            Dec::SetRemove(x) => {
                                eyeball_im::ObservableVectorTransactionEntry::set(&mut e, x);
                                eyeball_im::ObservableVectorTransactionEntry::remove(e);
                            }
                        }
                    });
                    return;
                }
                let mut entries = txn.entries();
                let mut i = 0;
                while let Some(mut e) = entries.next() {
                    visited.push((eyeball_im::ObservableVectorTransactionEntry::index(&e), *e));
                    let d = decs.get(i).copied().unwrap_or(Dec::Keep);
                    i += 1;
                    match d {
                        Dec::Keep => {}
                        Dec::Stop => break,
                        Dec::Set(x) => {
                            eyeball_im::ObservableVectorTransactionEntry::set(&mut e, x);
                        }
                        Dec::Remove => {
                            eyeball_im::ObservableVectorTransactionEntry::remove(e);
                        }
                        Dec::SetRemove(x) => {
                            eyeball_im::ObservableVectorTransactionEntry::set(&mut e, x);
                            eyeball_im::ObservableVectorTransactionEntry::remove(e);
                        }
                    }
                }
            });
            match r {
                Some(()) => {
                    w.tshadow = sh;
                    if w.live_count() > 0 {
                        w.batch_count += pubs.len();
                    }
                    let ok = visited == vis_spec && txn.iter().eq(w.tshadow.iter());
                    w.out.push(format!("{}{}", show_visited(&visited), if ok { "" } else { " ok:plain=0" }));
                }
                None => w.out.push("PANIC ok:plain=0".into()),
            }
        } else if in_txn && name == "get" {
            let ok = txn.iter().eq(w.tshadow.iter());
            w.out.push(format!("={}{}", show_vec(txn.iter()), if ok { "" } else { " ok:plain=0" }));
        } else if in_txn && name == "rollback" {
            txn.rollback();
            w.tshadow = w.shadow.clone();
            w.batch_count = 0;
            w.out.push(".".into());
        } else if name == "tc" {
            txn.commit();
            let contents_unchanged = w.shadow == w.tshadow;
            w.shadow = w.tshadow.clone();
            if w.batch_count > 0 {
                if contents_unchanged {
                    // a committed transaction that leaves the contents as they were may or may not
                    // publish (e.g. `clear` on an empty working copy): the property does not say;
                    // from here on the exact diff count / state sequence is not checked for the
                    // current subscribers (the replica checks remain)
                    for s in w.subs.iter_mut() {
                        if s.live {
                            s.got_reset = true;
                            // it may have been sent: count it for the lag bound (a Reset needs more
                            // than `capacity` *actual* sends, so an upper bound keeps the check sound)
                            s.sent_since_pending += 1;
                        }
                    }
                } else {
                    // how many diffs a committed transaction publishes is not fixed by the property
                    // (only that they take the old contents to the new ones): exact counting is for
                    // direct calls
                    for s in w.subs.iter_mut() {
                        if s.live {
                            s.count_fuzzy = true;
                        }
                    }
                    let st = w.shadow.clone();
                    let n = w.batch_count;
                    w.published(&st, n);
                }
            }
            let ok = ob.iter().eq(w.shadow.iter());
            let sfx = w.woken_suffix();
            w.out.push(format!(".{}{}", if ok { "" } else { " ok:plain=0" }, sfx));
            return;
        } else if name == "td" {
            drop(txn);
            let ok = ob.iter().eq(w.shadow.iter());
            w.out.push(format!(".{}", if ok { "" } else { " ok:plain=0" }));
            return;
        } else if !w.side_op(name, arg) {
            panic!("op {op} not allowed inside a transaction");
        }
    }
    // history ended inside the transaction: it is dropped here
}

pub fn run_line(line: &str, out: &mut String) {
    let (head, evs) = match line.split_once(" :: ") {
        Some((h, e)) => (h, e),
        None => (line, ""),
    };
    let cap: usize = head.trim().strip_prefix("cap=").unwrap().parse().unwrap();
    let ops: Vec<&str> = evs.split(" ; ").map(|s| s.trim()).filter(|s| !s.is_empty()).collect();
    // the default capacity is 16: new() / default() / with_capacity(16) are then equivalent entry points
    let mut ob: Option<ObservableVector<u32>> = Some(match (cap, line.len() % 3) {
        (16, 0) => ObservableVector::new(),
        (16, 1) => ObservableVector::default(),
        _ => ObservableVector::with_capacity(cap),
    });
    let mut w = World {
        subs: vec![],
        shadow: vec![],
        tshadow: vec![],
        batch_count: 0,
        oob_seen: false,
        fin: None,
        cap,
        out: vec![],
        wakedue_ok: true,
    };
    let mut it = ops.iter();
    // From<Vector<T>>: a history on the default capacity that starts with an append may be built
    // from that vector instead (documented as new() + append)
    if cap == 16 && line.len() % 2 == 0 {
        if let Some(first) = ops.first().filter(|o| o.starts_with("append[")) {
            let (_, arg) = split_op(first);
            let v = parse_vec(arg);
            w.shadow = v.iter().copied().collect();
            ob = Some(ObservableVector::from(v));
            w.out.push("()".into());
            it.next();
        }
    }
    while let Some(op) = it.next() {
        let (name, arg) = split_op(op);
        if MUTATORS.contains(&name) || name == "eset" || name == "eremove" {
            let o = ob.as_mut().unwrap();
            let spec = spec_mut(name, arg, &w.shadow, false);
            let r = if name == "eset" || name == "eremove" {
                let a = args(arg);
                catch(|| {
                    let mut e = o.entry(a[0]);
                    if name == "eset" {
                        format!("={}", eyeball_im::ObservableVectorEntry::set(&mut e, a[1] as u32))
                    } else {
                        format!("={}", eyeball_im::ObservableVectorEntry::remove(e))
                    }
                })
            } else {
                mutate!(o, name, arg)
            };
            let r = r.unwrap_or_else(|| "PANIC".into());
            if r == "PANIC" {
                w.oob_seen = true;
            }
            if r != "PANIC" {
                if let Some((v2, _, eff)) = &spec {
                    w.shadow = v2.clone();
                    if *eff {
                        let st = w.shadow.clone();
                        w.published(&st, 1);
                    }
                }
            }
            let chk = plain_check(&r, &spec, &**o, &w.shadow);
            let sfx = w.woken_suffix();
            w.out.push(format!("{r}{chk}{sfx}"));
        } else if name == "each" {
            let o = ob.as_mut().unwrap();
            let decs = parse_decisions(arg);
            let (vis_spec, sh, pubs) = spec_each(&w.shadow, &decs);
            let mut visited = vec![];
            // for_each() is the entries() loop without early exit: used instead of the explicit
            // cursor on every other traversal that has no Stop decision
            let via_for_each = !decs.contains(&Dec::Stop) && w.out.len() % 2 == 1;
            let r = catch(|| {
                if via_for_each {
                    let mut i = 0;
                    o.for_each(|mut e| {
                        visited.push((eyeball_im::ObservableVectorEntry::index(&e), *e));
                        let d = decs.get(i).copied().unwrap_or(Dec::Keep);
                        i += 1;
                        match d {
                            Dec::Keep | Dec::Stop => {}
                            Dec::Set(x) => {
                                eyeball_im::ObservableVectorEntry::set(&mut e, x);
                            }
                            Dec::Remove => {
                                eyeball_im::ObservableVectorEntry::remove(e);
                            }
                            Dec::SetRemove(x) => {
                                eyeball_im::ObservableVectorEntry::set(&mut e, x);
                                eyeball_im::ObservableVectorEntry::remove(e);
                            }
                        }
                    });
                    return;
                }
                let mut entries = o.entries();
                let mut i = 0;
                while let Some(mut e) = entries.next() {
                    visited.push((eyeball_im::ObservableVectorEntry::index(&e), *e));
                    let d = decs.get(i).copied().unwrap_or(Dec::Keep);
                    i += 1;
                    match d {
                        Dec::Keep => {}
                        Dec::Stop => break,
                        Dec::Set(x) => {
                            eyeball_im::ObservableVectorEntry::set(&mut e, x);
                        }
                        Dec::Remove => {
                            eyeball_im::ObservableVectorEntry::remove(e);
                        }
                        Dec::SetRemove(x) => {
                            eyeball_im::ObservableVectorEntry::set(&mut e, x);
                            eyeball_im::ObservableVectorEntry::remove(e);
                        }
                    }
                }
            });
            match r {
                Some(()) => {
                    w.shadow = sh;
                    for st in &pubs {
                        w.published(st, 1);
                    }
                    let ok = visited == vis_spec && o.iter().eq(w.shadow.iter());
                    let sfx = w.woken_suffix();
                    w.out.push(format!("{}{}{}", show_visited(&visited), if ok { "" } else { " ok:plain=0" }, sfx));
                }
                None => w.out.push("PANIC ok:plain=0".into()),
            }
        } else if name == "sub" {
            let o = ob.as_ref().unwrap();
            let sub = o.subscribe();
            let snap = sub.values();
            let batched = arg == "(b)";
            let cw = Arc::new(CountWaker(AtomicUsize::new(0)));
            let waker = Waker::from(cw.clone());
            let k = w.subs.len();
            let ok = snap.iter().eq(w.shadow.iter());
            w.out.push(format!("#{}={}{}", k, show_vec(snap.iter()), if ok { "" } else { " ok:plain=0" }));
            w.subs.push(SubInfo {
                stream: None,
                unconverted: Some((sub, batched)),
                cw,
                waker,
                seen_wakes: 0,
                replica: snap,
                app_ok: true,
                got_reset: false,
                states: vec![],
                ptr: 0,
                sent_since_pending: 0,
                lagreset_ok: true,
                last_pending: false,
                woken: false,
                wake_ok: true,
                expected: 0,
                delivered: 0,
                count_fuzzy: false,
                live: true,
                due: false,
            });
        } else if name == "get" {
            let o = ob.as_ref().unwrap();
            let ok = o.iter().eq(w.shadow.iter());
            w.out.push(format!("={}{}", show_vec(o.iter()), if ok { "" } else { " ok:plain=0" }));
        } else if name == "tb" {
            run_txn(ob.as_mut().unwrap(), &mut w, &mut it);
        } else if name == "dropvec" {
            w.fin = Some(w.shadow.clone());
            for s in w.subs.iter_mut() {
                if s.live && s.last_pending {
                    s.due = true;
                }
            }
            // two ways for the vector to go away: dropped, or consumed by into_inner()
            let mut plain_bad = false;
            if w.out.len() % 2 == 0 {
                ob = None;
            } else {
                let inner = ob.take().unwrap().into_inner();
                plain_bad = !inner.iter().eq(w.shadow.iter());
            }
            let sfx = w.woken_suffix();
            w.out.push(format!(".{sfx}{}", if plain_bad { " ok:plain=0" } else { "" }));
        } else if !w.side_op(name, arg) {
            panic!("bad op {op}");
        }
        // wakes caused by polls themselves are recorded but not printed
        let _ = w.woken_suffix();
    }
    // C14, second sentence ("never ready again without that waker having been woken"): at the end of
    // the history a stream whose last answer was Pending and whose waker has not fired since must
    // still be Pending
    let mut stuck_ok = true;
    for s in w.subs.iter_mut() {
        if s.live && s.last_pending && !s.woken && s.cw.0.load(AO::SeqCst) == s.seen_wakes {
            if let Some(stream) = s.stream.as_mut() {
                let waker = s.waker.clone();
                let mut cx = Context::from_waker(&waker);
                let r = catch(|| match stream {
                    AnyStream::Plain(st) => st.as_mut().poll_next(&mut cx).is_pending(),
                    AnyStream::Batched(st) => st.as_mut().poll_next(&mut cx).is_pending(),
                });
                if r != Some(true) {
                    stuck_ok = false;
                }
            }
        }
    }
    out.push_str(&w.out.join(" ; "));
    if !w.wakedue_ok {
        out.push_str(" ok:wakedue=0");
    }
    if !stuck_ok {
        out.push_str(" ok:stuck=0");
    }
    out.push('\n');
}
