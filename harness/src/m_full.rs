//! mode full (C09 C12 C14): the three crates wired together the way an application uses them.
//! A real `ObservableVector<u32>`, a real `Observable<usize>` / `SharedObservable<usize>` holding the
//! limit (count), and `dynamic_head_with_initial_value(limit.get(), limit.subscribe())` /
//! `dynamic_skip_with_initial_count(..)` on a fresh subscriber of the vector.  Mirrors
//! /verif/ocaml/m_full.ml, which runs the extracted `FullStack.fstep` on the same events.
//! case: `cap=<c> <head|skip> <limit0> <u|s> :: events`
//! events: the ten mutators ; tb ; t.<mutator> ; t.rollback ; tc | td ; dropvec ;
//!         L.set(n) L.setne(n) L.sethash(n) L.update(n) L.updif(n,b) L.drop ; A (attach) ; P (one poll) ; D (drain)
//! Oracles (specification: a plain Vec shadow and the latest ANNOUNCED limit):
//!   ok:fullview  whenever the adapter's stream answers Pending (observable alive, no silent store since
//!                the last announcement) the rebuilt view = first / all-but-first `limit` items of the vector
//!   ok:fullapp   every item is applicable to the view
//!   ok:fullwake  an update of the vector, its drop, an announced limit change or the closing of the
//!                observable while the last answer was Pending fires the waker of that poll
//!   ok:fullstuck ready again only after that waker fired; at the end a Pending stream stays Pending
use crate::common::*;
use crate::m_adapt::{ok_in, BoxStream, CountWaker, Item};
use crate::m_ovec::{args, mutate, show_ret_opt, spec_mut, split_op};
use eyeball::{Observable, SharedObservable};
use eyeball_im::{ObservableVector, VectorDiff};
use eyeball_im_util::vector::{VectorObserverExt, VectorSubscriberExt};
use imbl::Vector;
use std::sync::atomic::{AtomicUsize, Ordering as AO};
use std::sync::Arc;
use std::task::{Context, Poll, Waker};

enum Lim {
    U(Observable<usize>),
    S(SharedObservable<usize>),
}

impl Lim {
    fn get(&self) -> usize {
        match self {
            Lim::U(o) => *Observable::get(o),
            Lim::S(o) => o.get(),
        }
    }
    fn subscribe(&self) -> eyeball::Subscriber<usize> {
        match self {
            Lim::U(o) => Observable::subscribe(o),
            Lim::S(o) => o.subscribe(),
        }
    }
}

/// the two flavours of the vector's subscriber stream
trait Flavour: Item + Sized {
    fn attach(kind: &str, sub: eyeball_im::VectorSubscriber<u32>, n: usize, lsub: eyeball::Subscriber<usize>) -> (Vector<u32>, BoxStream<Self>);
}
impl Flavour for VectorDiff<u32> {
    fn attach(kind: &str, sub: eyeball_im::VectorSubscriber<u32>, n: usize, lsub: eyeball::Subscriber<usize>) -> (Vector<u32>, BoxStream<Self>) {
        if kind == "head" {
            let (v, s) = sub.dynamic_head_with_initial_value(n, lsub);
            (v, Box::pin(s))
        } else {
            let (v, s) = sub.dynamic_skip_with_initial_count(n, lsub);
            (v, Box::pin(s))
        }
    }
}
impl Flavour for Vec<VectorDiff<u32>> {
    fn attach(kind: &str, sub: eyeball_im::VectorSubscriber<u32>, n: usize, lsub: eyeball::Subscriber<usize>) -> (Vector<u32>, BoxStream<Self>) {
        if kind == "head" {
            let (v, s) = sub.batched().dynamic_head_with_initial_value(n, lsub);
            (v, Box::pin(s))
        } else {
            let (v, s) = sub.batched().dynamic_skip_with_initial_count(n, lsub);
            (v, Box::pin(s))
        }
    }
}

pub fn run_line(line: &str, out: &mut String) {
    if line.split(" :: ").next().unwrap().split_whitespace().nth(4) == Some("b") {
        run_generic::<Vec<VectorDiff<u32>>>(line, out)
    } else {
        run_generic::<VectorDiff<u32>>(line, out)
    }
}

fn run_generic<I: Flavour>(line: &str, out: &mut String) {
    let (head, evs) = match line.split_once(" :: ") {
        Some((h, e)) => (h, e),
        None => (line, ""),
    };
    let hw: Vec<&str> = head.split_whitespace().collect();
    let cap: usize = hw[0].strip_prefix("cap=").unwrap().parse().unwrap();
    let kind = hw[1];
    let limit0: usize = hw[2].parse().unwrap();
    let ops: Vec<&str> = evs.split(" ; ").map(|s| s.trim()).filter(|s| !s.is_empty()).collect();
    let mut ob: Option<ObservableVector<u32>> = Some(ObservableVector::with_capacity(cap));
    let mut lim: Option<Lim> =
        Some(if hw[3] == "u" { Lim::U(Observable::new(limit0)) } else { Lim::S(SharedObservable::new(limit0)) });
    let mut shadow: Vec<u32> = vec![];
    // specification of the limit side
    let mut cur = limit0; // value stored
    let mut announced = limit0; // latest value announced
    let mut silent = false; // a store without announcement happened since
    let mut ann_since_pending = false; // an announcement the adapter may or may not have consumed yet
    let mut uncertain = false; // the observable was dropped while such an announcement was outstanding
    let mut stream: Option<BoxStream<I>> = None;
    let mut view: Vector<u32> = Vector::new();
    let mut adapter_limit = limit0; // what the adapter must be using at its next Pending
    let mut app_ok = true;
    let cw = Arc::new(CountWaker(AtomicUsize::new(0)));
    let waker = Waker::from(cw.clone());
    let mut seen_wakes = 0usize;
    let mut last_pending = false;
    let mut reported = false; // the wake after the last Pending has been printed
    let mut wake_ok = true;
    let mut stuck_ok = true;
    let expected = |kind: &str, limit: usize, src: &[u32]| -> Vec<u32> {
        if kind == "head" {
            src.iter().copied().take(limit).collect()
        } else {
            src.iter().copied().skip(limit).collect()
        }
    };
    let mut parts: Vec<String> = vec![];
    let mut i = 0;
    while i < ops.len() {
        let op = ops[i];
        i += 1;
        let (name, arg) = split_op(op);
        // did this operation make a further poll able to return something?
        let mut due = false;
        let text: String;
        if name == "A" {
            if stream.is_none() && ob.is_some() && lim.is_some() {
                let o = ob.as_ref().unwrap();
                let l = lim.as_ref().unwrap();
                let n = l.get();
                let lsub = l.subscribe();
                let sub = o.subscribe();
                let (v, s): (Vector<u32>, BoxStream<I>) = I::attach(kind, sub, n, lsub);
                adapter_limit = n;
                ann_since_pending = false;
                let ok = v.iter().copied().eq(expected(kind, n, &shadow).iter().copied());
                text = format!("A={} ok:fullview={}", show_vec(v.iter()), b2s(ok));
                view = v;
                stream = Some(s);
            } else {
                text = "A-".into();
            }
        } else if name == "P" || name == "D" {
            let Some(s) = stream.as_mut() else {
                parts.push("-".into());
                continue;
            };
            let mut items = vec![];
            let mut end = 'P';
            let mut n = 0;
            let mut panicked = false;
            loop {
                n += 1;
                let woken = cw.0.load(AO::SeqCst) > seen_wakes;
                let mut cx = Context::from_waker(&waker);
                match catch(|| s.as_mut().poll_next(&mut cx)) {
                    None => {
                        panicked = true;
                        break;
                    }
                    Some(Poll::Ready(Some(it))) => {
                        if last_pending && !woken {
                            stuck_ok = false;
                        }
                        last_pending = false;
                        let ds = it.diffs();
                        items.push(I::show(&ds));
                        if ds.is_empty() {
                            app_ok = false; // C13: empty batches are never emitted
                        }
                        for d in ds {
                            if !ok_in(&d, view.len()) {
                                app_ok = false;
                            }
                            let mut v2 = view.clone();
                            match catch(move || {
                                d.apply(&mut v2);
                                v2
                            }) {
                                Some(v2) => view = v2,
                                None => app_ok = false,
                            }
                        }
                        end = 'R';
                    }
                    Some(Poll::Ready(None)) => {
                        if last_pending && !woken {
                            stuck_ok = false;
                        }
                        last_pending = false;
                        end = 'N';
                        break;
                    }
                    Some(Poll::Pending) => {
                        end = 'P';
                        last_pending = true;
                        reported = false;
                        seen_wakes = cw.0.load(AO::SeqCst);
                        break;
                    }
                }
                if name == "P" || n > 10000 {
                    break;
                }
            }
            if panicked {
                parts.push("PANIC ok:fullnopanic=0".into());
                break;
            }
            let mut t = format!("{}{}", if items.is_empty() { String::new() } else { items.join("+") + "+" }, end);
            if end == 'P' {
                if lim.is_some() {
                    adapter_limit = announced;
                    ann_since_pending = false;
                }
                // after the observable is gone the adapter keeps the last limit it consumed: known
                // exactly only if nothing was announced between its last Pending and the drop
                let checkable = !silent && !uncertain;
                let ok = !checkable || view.iter().copied().eq(expected(kind, adapter_limit, &shadow).iter().copied());
                t.push_str(&format!(" v={} ok:fullview={} ok:fullapp={}", show_vec(view.iter()), b2s(ok), b2s(app_ok)));
            }
            text = t;
        } else if name == "tb" {
            let Some(o) = ob.as_mut() else {
                parts.push("!".into());
                continue;
            };
            let mut tshadow = shadow.clone();
            let mut txn = o.transaction();
            let mut committed = false;
            while i < ops.len() {
                let top = ops[i];
                i += 1;
                let (tn, ta) = split_op(top);
                match tn {
                    "tc" => {
                        txn.commit();
                        committed = true;
                        break;
                    }
                    "td" => break,
                    "t.rollback" => {
                        txn.rollback();
                        tshadow = shadow.clone();
                    }
                    _ => {
                        let m = tn.strip_prefix("t.").unwrap_or(tn);
                        if let Some((n, _, _)) = spec_mut(m, ta, &tshadow, true) {
                            let _ = mutate!(txn, m, ta);
                            tshadow = n;
                        }
                    }
                }
            }
            if committed {
                if tshadow != shadow {
                    due = true;
                }
                shadow = tshadow;
            }
            text = "T".into();
        } else if name == "dropvec" {
            if ob.take().is_some() {
                due = true;
            }
            text = ".".into();
        } else if let Some(l) = name.strip_prefix("L.") {
            let Some(lm) = lim.as_mut() else {
                parts.push("!".into());
                continue;
            };
            let a = if arg.is_empty() { vec![] } else { args(arg) };
            let mut notified = false;
            match l {
                "set" => {
                    match lm {
                        Lim::U(o) => {
                            Observable::set(o, a[0]);
                        }
                        Lim::S(o) => {
                            o.set(a[0]);
                        }
                    }
                    cur = a[0];
                    notified = true;
                }
                "setne" => {
                    let r = match lm {
                        Lim::U(o) => Observable::set_if_not_eq(o, a[0]),
                        Lim::S(o) => o.set_if_not_eq(a[0]),
                    };
                    if r.is_some() {
                        cur = a[0];
                        notified = true;
                    }
                }
                "sethash" => {
                    let r = match lm {
                        Lim::U(o) => Observable::set_if_hash_not_eq(o, a[0]),
                        Lim::S(o) => o.set_if_hash_not_eq(a[0]),
                    };
                    if r.is_some() {
                        cur = a[0];
                        notified = true;
                    }
                }
                "update" => {
                    match lm {
                        Lim::U(o) => Observable::update(o, |v| *v = a[0]),
                        Lim::S(o) => o.update(|v| *v = a[0]),
                    }
                    cur = a[0];
                    notified = true;
                }
                "updif" => {
                    let b = a[1] != 0;
                    match lm {
                        Lim::U(o) => Observable::update_if(o, |v| {
                            *v = a[0];
                            b
                        }),
                        Lim::S(o) => o.update_if(|v| {
                            *v = a[0];
                            b
                        }),
                    }
                    if b {
                        notified = true;
                    } else if a[0] != cur {
                        silent = true;
                    }
                    cur = a[0];
                }
                "drop" => {
                    lim = None;
                    due = true;
                    if ann_since_pending {
                        uncertain = true;
                    }
                }
                _ => panic!("bad limit op {op}"),
            }
            if notified {
                announced = cur;
                silent = false;
                ann_since_pending = true;
                due = true;
            }
            text = "l".into();
        } else if name.starts_with("t.") || name == "tc" || name == "td" {
            text = "_".into();
        } else {
            match (ob.as_mut(), spec_mut(name, arg, &shadow, false)) {
                (Some(o), Some((n, _, eff))) => {
                    let _ = mutate!(o, name, arg);
                    shadow = n;
                    if eff {
                        due = true;
                    }
                    text = ".".into();
                }
                _ => text = "!".into(), // would panic / vector gone: not performed
            }
        }
        let mut text = text;
        if due && stream.is_some() && last_pending && cw.0.load(AO::SeqCst) == seen_wakes {
            wake_ok = false;
        }
        if cw.0.load(AO::SeqCst) > seen_wakes && last_pending && !reported {
            reported = true;
            text.push_str(" w");
        }
        parts.push(text);
    }
    // at the end a Pending stream whose waker has not fired stays Pending
    if let Some(s) = stream.as_mut() {
        if last_pending && cw.0.load(AO::SeqCst) == seen_wakes {
            let mut cx = Context::from_waker(&waker);
            if catch(|| s.as_mut().poll_next(&mut cx).is_pending()) != Some(true) {
                stuck_ok = false;
            }
        }
    }
    out.push_str(&parts.join(" ; "));
    if !wake_ok {
        out.push_str(" ok:fullwake=0");
    }
    if !stuck_ok {
        out.push_str(" ok:fullstuck=0");
    }
    let _ = show_ret_opt;
    out.push('\n');
}
