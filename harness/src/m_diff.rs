//! mode diff (C18): VectorDiff::map / VectorDiff::apply on the real crate.
use crate::common::*;
use eyeball_im::VectorDiff;
use imbl::Vector;

fn mapping(name: &str) -> fn(u32) -> u32 {
    match name {
        "inj" => |x| 2 * x + 1,
        "const" => |_| 5,
        "par" => |x| x % 2,
        _ => panic!("bad mapping {name}"),
    }
}

fn apply_c(d: VectorDiff<u32>, v: &Vector<u32>) -> Option<Vector<u32>> {
    let mut v = v.clone();
    catch(move || {
        d.apply(&mut v);
        v
    })
}

fn show_o(v: &Option<Vector<u32>>) -> String {
    match v {
        Some(v) => show_vec(v.iter()),
        None => "panic".into(),
    }
}

/// documented effect, written independently of the model (element-wise)
fn spec_ok(d: &VectorDiff<u32>, l: &Vector<u32>, r: &Option<Vector<u32>>) -> bool {
    let n = l.len();
    let oob = match d {
        VectorDiff::Insert { index, .. } => *index > n,
        VectorDiff::Set { index, .. } | VectorDiff::Remove { index } => *index >= n,
        _ => false,
    };
    match r {
        None => oob,
        Some(r) => {
            if oob {
                return false;
            }
            let mut e: Vec<u32> = l.iter().copied().collect();
            match d {
                VectorDiff::Append { values } => e.extend(values.iter().copied()),
                VectorDiff::Clear => e.clear(),
                VectorDiff::PushFront { value } => e.insert(0, *value),
                VectorDiff::PushBack { value } => e.push(*value),
                VectorDiff::PopFront => {
                    if !e.is_empty() {
                        e.remove(0);
                    }
                }
                VectorDiff::PopBack => {
                    e.pop();
                }
                VectorDiff::Insert { index, value } => e.insert(*index, *value),
                VectorDiff::Set { index, value } => e[*index] = *value,
                VectorDiff::Remove { index } => {
                    e.remove(*index);
                }
                VectorDiff::Truncate { length } => e.truncate(*length),
                VectorDiff::Reset { values } => e = values.iter().copied().collect(),
            }
            e.iter().eq(r.iter())
        }
    }
}

pub fn run_line(line: &str, out: &mut String) {
    let w: Vec<&str> = line.split_whitespace().collect();
    assert!(w.len() == 3, "bad diff case {line}");
    let f = mapping(w[0]);
    let l = parse_vec(w[1]);
    let d = parse_diff(w[2]);
    let r = apply_c(d.clone(), &l);
    let lm: Vector<u32> = l.iter().map(|x| f(*x)).collect();
    let rm = apply_c(d.clone().map(f), &lm);
    let expect = r.as_ref().map(|v| v.iter().map(|x| f(*x)).collect::<Vector<u32>>());
    let idm = d.clone().map(|x| x) == d;
    out.push_str(&format!(
        "apply={} mapped={} ok:commute={} ok:idmap={} ok:spec={}\n",
        show_o(&r),
        show_o(&rm),
        b2s(rm == expect),
        b2s(idm),
        b2s(spec_ok(&d, &l, &r))
    ));
}
