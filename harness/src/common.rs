//! Parsing / printing shared by all modes. Formats mirror /verif/ocaml/util.ml.
#![allow(dead_code)]
use eyeball_im::VectorDiff;
use imbl::Vector;
use std::fmt::Write as _;

pub fn parse_ivec(s: &str) -> Vec<u32> {
    let b = s.as_bytes();
    assert!(b.len() >= 2 && b[0] == b'[' && b[b.len() - 1] == b']', "bad vec {s}");
    let inner = &s[1..s.len() - 1];
    if inner.is_empty() {
        return vec![];
    }
    inner.split(',').map(|x| x.parse().expect("int")).collect()
}

pub fn parse_vec(s: &str) -> Vector<u32> {
    parse_ivec(s).into_iter().collect()
}

pub fn show_vec<'a, T: std::fmt::Display + 'a>(v: impl IntoIterator<Item = &'a T>) -> String {
    let mut s = String::from("[");
    let mut first = true;
    for x in v {
        if !first {
            s.push(',');
        }
        first = false;
        write!(s, "{x}").unwrap();
    }
    s.push(']');
    s
}

fn args(s: &str) -> Vec<usize> {
    let b = s.as_bytes();
    assert!(b.len() >= 2 && b[0] == b'(' && b[b.len() - 1] == b')', "bad args {s}");
    s[1..s.len() - 1].split(',').map(|x| x.parse().expect("int")).collect()
}

pub fn parse_diff(s: &str) -> VectorDiff<u32> {
    if s == "Clear" {
        VectorDiff::Clear
    } else if s == "PopFront" {
        VectorDiff::PopFront
    } else if s == "PopBack" {
        VectorDiff::PopBack
    } else if let Some(r) = s.strip_prefix("Append") {
        VectorDiff::Append { values: parse_vec(r) }
    } else if let Some(r) = s.strip_prefix("Reset") {
        VectorDiff::Reset { values: parse_vec(r) }
    } else if let Some(r) = s.strip_prefix("PushFront") {
        VectorDiff::PushFront { value: args(r)[0] as u32 }
    } else if let Some(r) = s.strip_prefix("PushBack") {
        VectorDiff::PushBack { value: args(r)[0] as u32 }
    } else if let Some(r) = s.strip_prefix("Insert") {
        let a = args(r);
        VectorDiff::Insert { index: a[0], value: a[1] as u32 }
    } else if let Some(r) = s.strip_prefix("Set") {
        let a = args(r);
        VectorDiff::Set { index: a[0], value: a[1] as u32 }
    } else if let Some(r) = s.strip_prefix("Remove") {
        VectorDiff::Remove { index: args(r)[0] }
    } else if let Some(r) = s.strip_prefix("Truncate") {
        VectorDiff::Truncate { length: args(r)[0] }
    } else {
        panic!("bad diff {s}")
    }
}

pub fn show_diff<T: std::fmt::Display + Clone>(d: &VectorDiff<T>) -> String {
    match d {
        VectorDiff::Append { values } => format!("Append{}", show_vec(values.iter())),
        VectorDiff::Clear => "Clear".into(),
        VectorDiff::PushFront { value } => format!("PushFront({value})"),
        VectorDiff::PushBack { value } => format!("PushBack({value})"),
        VectorDiff::PopFront => "PopFront".into(),
        VectorDiff::PopBack => "PopBack".into(),
        VectorDiff::Insert { index, value } => format!("Insert({index},{value})"),
        VectorDiff::Set { index, value } => format!("Set({index},{value})"),
        VectorDiff::Remove { index } => format!("Remove({index})"),
        VectorDiff::Truncate { length } => format!("Truncate({length})"),
        VectorDiff::Reset { values } => format!("Reset{}", show_vec(values.iter())),
    }
}

pub fn show_diffs<T: std::fmt::Display + Clone>(ds: &[VectorDiff<T>]) -> String {
    let mut s = String::from("<");
    for (i, d) in ds.iter().enumerate() {
        if i > 0 {
            s.push(';');
        }
        s.push_str(&show_diff(d));
    }
    s.push('>');
    s
}

pub fn b2s(b: bool) -> &'static str {
    if b {
        "1"
    } else {
        "0"
    }
}

/// Run `f`, turning a panic into `None`. The default panic hook is silenced by main().
pub fn catch<R>(f: impl FnOnce() -> R) -> Option<R> {
    std::panic::catch_unwind(std::panic::AssertUnwindSafe(f)).ok()
}
