//! mode adapt: Head/Tail/Skip/Filter/FilterMap/Sort* of eyeball-im-util over scripted inputs.
//! Mirrors /verif/ocaml/m_adapt.ml (same case grammar, same observation grammar).
use crate::common::*;
use eyeball_im::VectorDiff;
use eyeball_im_util::vector::{Filter, FilterMap, Head, Skip, Sort, SortBy, SortByKey, Tail};
use futures_core::Stream;
use imbl::Vector;
use std::cell::RefCell;
use std::collections::VecDeque;
use std::pin::Pin;
use std::rc::Rc;
use std::sync::atomic::{AtomicUsize, Ordering as AO};
use std::sync::Arc;
use std::task::{Context, Poll, Wake, Waker};

pub struct CountWaker(pub AtomicUsize);
impl Wake for CountWaker {
    fn wake(self: Arc<Self>) {
        self.0.fetch_add(1, AO::SeqCst);
    }
    fn wake_by_ref(self: &Arc<Self>) {
        self.0.fetch_add(1, AO::SeqCst);
    }
}

#[derive(Clone, Copy, PartialEq, Debug)]
pub enum Resp {
    Item,
    Pending,
    End,
}

pub struct ScriptInner<T> {
    pub queue: VecDeque<T>,
    pub ended: bool,
    pub waker: Option<Waker>,
    pub last: Option<Resp>,
}

/// A stream answering from a script; records every poll into the shared trace.
pub struct ScriptStream<T> {
    pub inner: Rc<RefCell<ScriptInner<T>>>,
    pub trace: Rc<RefCell<String>>,
    pub tag: char,
}

impl<T> ScriptStream<T> {
    pub fn new(tag: char, trace: Rc<RefCell<String>>) -> (Self, Rc<RefCell<ScriptInner<T>>>) {
        let inner = Rc::new(RefCell::new(ScriptInner {
            queue: VecDeque::new(),
            ended: false,
            waker: None,
            last: None,
        }));
        (Self { inner: inner.clone(), trace, tag }, inner)
    }
}

impl<T: Unpin> Stream for ScriptStream<T> {
    type Item = T;
    fn poll_next(self: Pin<&mut Self>, cx: &mut Context<'_>) -> Poll<Option<T>> {
        let mut i = self.inner.borrow_mut();
        let mut tr = self.trace.borrow_mut();
        tr.push(self.tag);
        if let Some(x) = i.queue.pop_front() {
            i.last = Some(Resp::Item);
            tr.push('i');
            Poll::Ready(Some(x))
        } else if i.ended {
            i.last = Some(Resp::End);
            tr.push('e');
            Poll::Ready(None)
        } else {
            i.waker = Some(cx.waker().clone());
            i.last = Some(Resp::Pending);
            tr.push('p');
            Poll::Pending
        }
    }
}

pub trait Item: Sized + Unpin + 'static {
    fn diffs(self) -> Vec<VectorDiff<u32>>;
    fn enqueue(q: &mut VecDeque<Self>, ds: Vec<VectorDiff<u32>>);
    fn show(ds: &[VectorDiff<u32>]) -> String;
}
impl Item for VectorDiff<u32> {
    fn diffs(self) -> Vec<VectorDiff<u32>> {
        vec![self]
    }
    fn enqueue(q: &mut VecDeque<Self>, ds: Vec<VectorDiff<u32>>) {
        q.extend(ds);
    }
    fn show(ds: &[VectorDiff<u32>]) -> String {
        show_diff(&ds[0])
    }
}
impl Item for Vec<VectorDiff<u32>> {
    fn diffs(self) -> Vec<VectorDiff<u32>> {
        self
    }
    fn enqueue(q: &mut VecDeque<Self>, ds: Vec<VectorDiff<u32>>) {
        q.push_back(ds);
    }
    fn show(ds: &[VectorDiff<u32>]) -> String {
        ds.iter().map(show_diff).collect::<Vec<_>>().join("|")
    }
}

pub fn passes(mask: u32, x: u32) -> bool {
    (mask >> (x % 8)) & 1 == 1
}

fn is_sorted_by(v: &Vector<u32>, cmp: &dyn Fn(&u32, &u32) -> std::cmp::Ordering) -> bool {
    let w: Vec<u32> = v.iter().copied().collect();
    w.windows(2).all(|p| cmp(&p[0], &p[1]) != std::cmp::Ordering::Greater)
}

fn same_multiset(a: &Vector<u32>, b: &Vector<u32>) -> bool {
    let mut x: Vec<u32> = a.iter().copied().collect();
    let mut y: Vec<u32> = b.iter().copied().collect();
    x.sort();
    y.sort();
    x == y
}

/// strict applicability of a diff to a view (mirror of Diff.ok_in)
pub fn ok_in(d: &VectorDiff<u32>, len: usize) -> bool {
    match d {
        VectorDiff::PopFront | VectorDiff::PopBack => len > 0,
        VectorDiff::Insert { index, .. } => *index <= len,
        VectorDiff::Set { index, .. } | VectorDiff::Remove { index } => *index < len,
        VectorDiff::Truncate { length } => *length < len,
        _ => true,
    }
}

pub type BoxStream<I> = Pin<Box<dyn Stream<Item = I>>>;

fn run_generic<I: Item>(head: &[&str], events: &[&str], out: &mut String)
where
    I: eyeball_im_util::vector::VectorDiffContainer<Element = u32>,
    ScriptStream<I>: Stream<Item = I>,
{
    let (kind, flav, arg, vec) = (head[0], head[1], head[3], head[4]);
    let vs = parse_vec(vec);
    let trace = Rc::new(RefCell::new(String::new()));
    let (inner_stream, inner) = ScriptStream::<I>::new('s', trace.clone());
    let (param_stream, param_q) = ScriptStream::<usize>::new('l', trace.clone());
    let mut param: Option<usize> = match flav {
        "dynamic" | "-" => None,
        _ => Some(arg.parse().unwrap()),
    };
    let has_param = matches!(kind, "head" | "tail" | "skip") && flav != "static";
    let cmp: Box<dyn Fn(&u32, &u32) -> std::cmp::Ordering> = match kind {
        "sort_by" => Box::new(|a, b| (b / 10).cmp(&(a / 10))),
        "sort_by_key" => Box::new(|a, b| (a / 10).cmp(&(b / 10))),
        _ => Box::new(|a, b| a.cmp(b)),
    };
    let mask: u32 = if kind.starts_with("filter") { arg.parse().unwrap() } else { 0 };

    // ---- construct the adapter (may not panic) ----
    let built: Option<(Option<Vector<u32>>, BoxStream<I>)> = catch(|| -> (Option<Vector<u32>>, BoxStream<I>) {
        match (kind, flav) {
            ("head", "static") => {
                let (v, s) = Head::new(vs.clone(), inner_stream, arg.parse().unwrap());
                (Some(v), Box::pin(s))
            }
            ("head", "dyninit") => {
                let (v, s) =
                    Head::dynamic_with_initial_limit(vs.clone(), inner_stream, arg.parse().unwrap(), param_stream);
                (Some(v), Box::pin(s))
            }
            ("head", "dynamic") => (None, Box::pin(Head::dynamic(vs.clone(), inner_stream, param_stream))),
            ("tail", "static") => {
                let (v, s) = Tail::new(vs.clone(), inner_stream, arg.parse().unwrap());
                (Some(v), Box::pin(s))
            }
            ("tail", "dyninit") => {
                let (v, s) =
                    Tail::dynamic_with_initial_limit(vs.clone(), inner_stream, arg.parse().unwrap(), param_stream);
                (Some(v), Box::pin(s))
            }
            ("tail", "dynamic") => (None, Box::pin(Tail::dynamic(vs.clone(), inner_stream, param_stream))),
            ("skip", "static") => {
                let (v, s) = Skip::new(vs.clone(), inner_stream, arg.parse().unwrap());
                (Some(v), Box::pin(s))
            }
            ("skip", "dyninit") => {
                let (v, s) =
                    Skip::dynamic_with_initial_count(vs.clone(), inner_stream, arg.parse().unwrap(), param_stream);
                (Some(v), Box::pin(s))
            }
            ("skip", "dynamic") => (None, Box::pin(Skip::dynamic(vs.clone(), inner_stream, param_stream))),
            ("filter", _) => {
                let (v, s) = Filter::new(vs.clone(), inner_stream, move |x: &u32| passes(mask, *x));
                (Some(v), Box::pin(s))
            }
            ("filter_map", _) => {
                let (v, s) = FilterMap::new(vs.clone(), inner_stream, move |x: u32| {
                    if passes(mask, x) {
                        Some(x + 100)
                    } else {
                        None
                    }
                });
                (Some(v), unsafe_cast::<I, _>(Box::pin(s)))
            }
            ("sort", _) => {
                let (v, s) = Sort::new(vs.clone(), inner_stream);
                (Some(v), Box::pin(s))
            }
            ("sort_by", _) => {
                let (v, s) = SortBy::new(vs.clone(), inner_stream, |a: &u32, b: &u32| (b / 10).cmp(&(a / 10)));
                (Some(v), Box::pin(s))
            }
            ("sort_by_key", _) => {
                let (v, s) = SortByKey::new(vs.clone(), inner_stream, |a: &u32| a / 10);
                (Some(v), Box::pin(s))
            }
            _ => panic!("bad kind/flavour"),
        }
    });
    let Some((init_view, mut stream)) = built else {
        out.push_str("init=PANIC");
        return;
    };
    out.push_str(&format!(
        "init={}",
        match &init_view {
            Some(v) => show_vec(v.iter()),
            None => "-".into(),
        }
    ));
    let mut view: Vector<u32> = init_view.unwrap_or_default();
    let mut src = vs.clone();
    let mut src_ok = true;
    let mut app_ok = true;
    let mut bound_ok = true;
    let limit_bound: Option<usize> =
        if matches!(kind, "head" | "tail") && flav == "static" { Some(arg.parse().unwrap()) } else { None };
    if let Some(l) = limit_bound {
        if view.len() > l {
            bound_ok = false;
        }
    }
    let mut panicked = false;
    let mut empty_batch = false;

    for ev in events {
        if panicked {
            break;
        }
        out.push_str(" ; ");
        if *ev == "p" || *ev == "D" {
            // a fresh waker for every poll event: an input that is not polled again in this call
            // keeps a stale registration, which `ok:reg` then sees
            let waker = Waker::from(Arc::new(CountWaker(AtomicUsize::new(0))));
            let mut first = true;
            let mut count = 0;
            loop {
                count += 1;
                trace.borrow_mut().clear();
                let mut cx = Context::from_waker(&waker);
                let r = catch(|| stream.as_mut().poll_next(&mut cx));
                if !first {
                    out.push('+');
                }
                first = false;
                let Some(r) = r else {
                    out.push_str("PANIC");
                    if src_ok {
                        out.push_str(" ok:nopanic=0");
                    }
                    panicked = true;
                    break;
                };
                let tr = trace.borrow().clone();
                let kindc;
                match r {
                    Poll::Ready(Some(item)) => {
                        let ds = item.diffs();
                        if ds.is_empty() {
                            empty_batch = true;
                        }
                        out.push_str(&format!("R:{}@{}", I::show(&ds), tr));
                        for d in ds {
                            if !ok_in(&d, view.len()) {
                                app_ok = false;
                            }
                            let mut v2 = view.clone();
                            match catch(move || {
                                d.apply(&mut v2);
                                v2
                            }) {
                                Some(v2) => view = v2,
                                None => app_ok = false,
                            }
                            if let Some(l) = limit_bound {
                                if view.len() > l {
                                    bound_ok = false;
                                }
                            }
                        }
                        kindc = 'R';
                    }
                    Poll::Ready(None) => {
                        out.push_str(&format!("N@{}", tr));
                        kindc = 'N';
                    }
                    Poll::Pending => {
                        out.push_str(&format!("P@{}", tr));
                        kindc = 'P';
                    }
                }
                if kindc != 'R' {
                    // checkpoint
                    let view_ok = !src_ok
                        || match kind {
                            "head" => {
                                let l = param.unwrap_or(0);
                                view.iter().eq(src.iter().take(l))
                            }
                            "tail" => {
                                let l = param.unwrap_or(0);
                                let n = src.len();
                                view.iter().eq(src.iter().skip(n.saturating_sub(l)))
                            }
                            "skip" => match param {
                                None => view.is_empty(),
                                Some(c) => view.iter().eq(src.iter().skip(c)),
                            },
                            "filter" => view.iter().eq(src.iter().filter(|x| passes(mask, **x))),
                            "filter_map" => view
                                .iter()
                                .copied()
                                .eq(src.iter().filter(|x| passes(mask, **x)).map(|x| *x + 100)),
                            _ => is_sorted_by(&view, &*cmp) && same_multiset(&view, &src),
                        };
                    let reg_ok = if kindc == 'P' {
                        let i = inner.borrow();
                        let i_ok = i.last == Some(Resp::Pending)
                            && i.waker.as_ref().map_or(false, |w| w.will_wake(&waker));
                        let p = param_q.borrow();
                        let p_ok = !has_param
                            || match p.last {
                                Some(Resp::Pending) => p.waker.as_ref().map_or(false, |w| w.will_wake(&waker)),
                                Some(Resp::End) => true,
                                _ => false,
                            };
                        i_ok && p_ok
                    } else {
                        true
                    };
                    let end_ok = (kindc == 'N') == inner.borrow().ended;
                    out.push_str(&format!(
                        " view={} ok:view={} ok:app={} ok:bound={} ok:reg={} ok:end={}",
                        show_vec(view.iter()),
                        b2s(view_ok),
                        b2s(!src_ok || app_ok),
                        b2s(!src_ok || bound_ok),
                        b2s(reg_ok),
                        b2s(end_ok)
                    ));
                    break;
                }
                if *ev == "p" || count > 10000 {
                    break;
                }
            }
        } else if let Some(d) = ev.strip_prefix("d:") {
            let d = parse_diff(d);
            apply_src(&mut src, &mut src_ok, &d);
            I::enqueue(&mut inner.borrow_mut().queue, vec![d]);
            out.push('.');
        } else if let Some(b) = ev.strip_prefix("b:") {
            let ds: Vec<_> = b.split('|').map(parse_diff).collect();
            for d in &ds {
                apply_src(&mut src, &mut src_ok, d);
            }
            I::enqueue(&mut inner.borrow_mut().queue, ds);
            out.push('.');
        } else if let Some(l) = ev.strip_prefix("l:") {
            let n: usize = l.parse().unwrap();
            param = Some(n);
            param_q.borrow_mut().queue.push_back(n);
            out.push('.');
        } else if *ev == "es" {
            inner.borrow_mut().ended = true;
            out.push('.');
        } else if *ev == "el" {
            param_q.borrow_mut().ended = true;
            out.push('.');
        } else {
            panic!("bad event {ev}");
        }
    }
    if empty_batch {
        out.push_str(" ok:nonemptybatch=0");
    }
}

pub fn apply_src(src: &mut Vector<u32>, src_ok: &mut bool, d: &VectorDiff<u32>) {
    if !ok_in(d, src.len()) {
        // the source stream broke the input guard: the properties promise nothing from here on
        *src_ok = false;
    }
    let mut s2 = src.clone();
    let d2 = d.clone();
    match catch(move || {
        d2.apply(&mut s2);
        s2
    }) {
        Some(s2) => *src = s2,
        None => *src_ok = false,
    }
}

/// FilterMap's item type is `VectorDiffContainerFamilyMember<Family<S>, U>`, which for U = u32 is
/// the same type as I; the compiler cannot see that through the associated types, so the boxed
/// stream is converted through `Any`.
pub fn unsafe_cast<I: 'static, S: Stream + 'static>(s: Pin<Box<S>>) -> BoxStream<I>
where
    S::Item: 'static,
{
    struct Conv<S>(Pin<Box<S>>);
    impl<S: Stream> Conv<S> {
        fn poll_conv<I: 'static>(&mut self, cx: &mut Context<'_>) -> Poll<Option<I>>
        where
            S::Item: 'static,
        {
            match self.0.as_mut().poll_next(cx) {
                Poll::Pending => Poll::Pending,
                Poll::Ready(None) => Poll::Ready(None),
                Poll::Ready(Some(x)) => {
                    let b: Box<dyn std::any::Any> = Box::new(x);
                    Poll::Ready(Some(*b.downcast::<I>().expect("item type")))
                }
            }
        }
    }
    struct Wrap<I, S>(Conv<S>, std::marker::PhantomData<fn() -> I>);
    impl<I: 'static, S: Stream> Stream for Wrap<I, S>
    where
        S::Item: 'static,
    {
        type Item = I;
        fn poll_next(mut self: Pin<&mut Self>, cx: &mut Context<'_>) -> Poll<Option<I>> {
            self.0.poll_conv::<I>(cx)
        }
    }
    impl<I, S> Unpin for Wrap<I, S> {}
    Box::pin(Wrap(Conv(s), std::marker::PhantomData))
}

/// diffs emitted per event, as text
fn emitted_per_event(obs: &str) -> Vec<Vec<String>> {
    obs.split(" ; ")
        .map(|ev| {
            let mut v = vec![];
            for tok in ev.split_whitespace() {
                for r in tok.split('+') {
                    if let Some(body) = r.strip_prefix("R:") {
                        let body = body.split('@').next().unwrap();
                        v.extend(body.split('|').map(|s| s.to_string()));
                    }
                }
            }
            v
        })
        .collect()
}

pub fn run_line(line: &str, out: &mut String) {
    let (head, evs) = match line.split_once(" :: ") {
        Some((h, e)) => (h, e),
        None => (line, ""),
    };
    let head: Vec<&str> = head.split_whitespace().collect();
    assert!(head.len() == 5, "bad head {line}");
    let events: Vec<&str> = evs.split(" ; ").map(|s| s.trim()).filter(|s| !s.is_empty()).collect();
    if head[2] == "ub" {
        // C13: the same history on the unbatched and on the batched flavour
        let mut ou = String::new();
        let mut ob = String::new();
        let mut h = head.clone();
        h[2] = "u";
        run_generic::<VectorDiff<u32>>(&h, &events, &mut ou);
        h[2] = "b";
        run_generic::<Vec<VectorDiff<u32>>>(&h, &events, &mut ob);
        let same = emitted_per_event(&ou) == emitted_per_event(&ob);
        out.push_str(&format!("{} || {} ok:samediffs={}\n", ou, ob, b2s(same)));
        return;
    }
    if head[2] == "b" {
        run_generic::<Vec<VectorDiff<u32>>>(&head, &events, out);
    } else {
        run_generic::<VectorDiff<u32>>(&head, &events, out);
    }
    out.push('\n');
}
