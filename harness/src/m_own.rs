//! mode own (C20): histories of observable / vector / subscriber / adapter operations run with an
//! instrumented element type.  Every construction and clone registers an instance in a ledger,
//! every drop removes it: a second drop of an instance, an instance read after its drop, or an
//! instance alive after everything was dropped is a violation.
//! case: `cap=<n> :: op ; op ; ...` with the ovec grammar (subset) plus
//!   sub(p|b[,adapter[>adapter]])  adapters: head:N tail:N skip:N filter sort
//!   oset(v) otake oupdate(v) osub opoll(k) onext(k) oshare oclone odrop   (an Observable<Elem>)
use crate::common::*;
use crate::m_adapt::CountWaker;
use eyeball::{Observable, SharedObservable, Subscriber};
use eyeball_im::{ObservableVector, VectorDiff};
use eyeball_im_util::vector::VectorObserverExt;
use futures_core::Stream;
use imbl::Vector;
use std::cell::{Cell, RefCell};
use std::collections::HashSet;
use std::pin::Pin;
use std::sync::atomic::AtomicUsize;
use std::sync::Arc;
use std::task::{Context, Poll, Waker};

thread_local! {
    static LIVE: RefCell<HashSet<u64>> = RefCell::new(HashSet::new());
    static NEXT: Cell<u64> = Cell::new(1);
    static DOUBLE: Cell<u32> = Cell::new(0);
    static DEAD_READ: Cell<u32> = Cell::new(0);
    static CREATED: Cell<u64> = Cell::new(0);
}

#[derive(Debug)]
pub struct Elem {
    val: u32,
    inst: u64,
}
fn register() -> u64 {
    let id = NEXT.with(|n| {
        let v = n.get();
        n.set(v + 1);
        v
    });
    LIVE.with(|l| l.borrow_mut().insert(id));
    CREATED.with(|c| c.set(c.get() + 1));
    id
}
impl Elem {
    pub fn new(val: u32) -> Self {
        Elem { val, inst: register() }
    }
    /// read the value, checking that the instance has not been dropped
    pub fn read(&self) -> u32 {
        if !LIVE.with(|l| l.borrow().contains(&self.inst)) {
            DEAD_READ.with(|d| d.set(d.get() + 1));
        }
        self.val
    }
}
impl Clone for Elem {
    fn clone(&self) -> Self {
        self.read();
        Elem { val: self.val, inst: register() }
    }
}
impl Drop for Elem {
    fn drop(&mut self) {
        let was = LIVE.with(|l| l.borrow_mut().remove(&self.inst));
        if !was {
            DOUBLE.with(|d| d.set(d.get() + 1));
        }
    }
}
impl Default for Elem {
    fn default() -> Self {
        Elem::new(0)
    }
}
impl PartialEq for Elem {
    fn eq(&self, o: &Self) -> bool {
        self.read() == o.read()
    }
}
impl Eq for Elem {}
impl PartialOrd for Elem {
    fn partial_cmp(&self, o: &Self) -> Option<std::cmp::Ordering> {
        Some(self.cmp(o))
    }
}
impl Ord for Elem {
    fn cmp(&self, o: &Self) -> std::cmp::Ordering {
        (self.read() / 10).cmp(&(o.read() / 10))
    }
}
impl std::hash::Hash for Elem {
    fn hash<H: std::hash::Hasher>(&self, s: &mut H) {
        self.read().hash(s)
    }
}

enum AnyStream {
    Plain(Pin<Box<dyn Stream<Item = VectorDiff<Elem>>>>),
    Batched(Pin<Box<dyn Stream<Item = Vec<VectorDiff<Elem>>>>>),
}

fn touch(d: &VectorDiff<Elem>) {
    match d {
        VectorDiff::Append { values } | VectorDiff::Reset { values } => {
            for v in values.iter() {
                v.read();
            }
        }
        VectorDiff::PushFront { value }
        | VectorDiff::PushBack { value }
        | VectorDiff::Insert { value, .. }
        | VectorDiff::Set { value, .. } => {
            value.read();
        }
        _ => {}
    }
}

fn args(s: &str) -> Vec<usize> {
    let inner = &s[1..s.len() - 1];
    if inner.is_empty() {
        return vec![];
    }
    inner.split(',').filter_map(|x| x.parse().ok()).collect()
}

macro_rules! attach {
    ($obs:expr, $spec:expr, $wrap:path) => {{
        // $spec: list of adapter names applied in turn (at most two)
        let specs: Vec<&str> = $spec.split('>').collect();
        macro_rules! one {
            ($o:expr, $s:expr, $k:expr) => {{
                let s: &str = $s;
                if let Some(n) = s.strip_prefix("head:") {
                    let (v, st) = $o.head(n.parse().unwrap());
                    $k(v, Box::pin(st) as Pin<Box<dyn Stream<Item = _>>>)
                } else if let Some(n) = s.strip_prefix("tail:") {
                    let (v, st) = $o.tail(n.parse().unwrap());
                    $k(v, Box::pin(st) as Pin<Box<dyn Stream<Item = _>>>)
                } else if let Some(n) = s.strip_prefix("skip:") {
                    let (v, st) = $o.skip(n.parse().unwrap());
                    $k(v, Box::pin(st) as Pin<Box<dyn Stream<Item = _>>>)
                } else if s == "filter" {
                    let (v, st) = $o.filter(|e: &Elem| e.read() % 2 == 0);
                    $k(v, Box::pin(st) as Pin<Box<dyn Stream<Item = _>>>)
                } else if s == "sort" {
                    let (v, st) = $o.sort();
                    $k(v, Box::pin(st) as Pin<Box<dyn Stream<Item = _>>>)
                } else {
                    panic!("bad adapter {s}")
                }
            }};
        }
        if specs.len() == 1 {
            one!($obs, specs[0], |v: Vector<Elem>, st| (v, $wrap(st)))
        } else {
            let (v1, s1) = one!($obs, specs[0], |v: Vector<Elem>, st| (v, st));
            one!((v1, s1), specs[1], |v: Vector<Elem>, st| (v, $wrap(st)))
        }
    }};
}

/// poll subscriber k once (`single`) or until it has nothing more; received diffs are read and a few kept alive
fn poll_sub(
    subs: &mut Vec<Option<(Vector<Elem>, AnyStream)>>,
    k: usize,
    single: bool,
    waker: &Waker,
    kept: &mut Vec<VectorDiff<Elem>>,
) {
    if let Some(Some((_, st))) = subs.get_mut(k) {
        let mut cx = Context::from_waker(waker);
        let mut n = 0;
        loop {
            n += 1;
            let r: Poll<Option<Vec<VectorDiff<Elem>>>> = match st {
                AnyStream::Plain(s) => s.as_mut().poll_next(&mut cx).map(|o| o.map(|d| vec![d])),
                AnyStream::Batched(s) => s.as_mut().poll_next(&mut cx),
            };
            match r {
                Poll::Ready(Some(ds)) => {
                    for d in ds {
                        touch(&d);
                        if kept.len() < 8 {
                            kept.push(d);
                        }
                    }
                }
                _ => break,
            }
            if single || n > 10000 {
                break;
            }
        }
    }
}

struct SelfTask {
    sub: std::sync::Mutex<Option<Subscriber<Elem>>>,
}
impl std::task::Wake for SelfTask {
    fn wake(self: Arc<Self>) {}
}

pub fn run_line(line: &str, out: &mut String) {
    // fresh ledger per case
    LIVE.with(|l| l.borrow_mut().clear());
    DOUBLE.with(|d| d.set(0));
    DEAD_READ.with(|d| d.set(0));
    CREATED.with(|c| c.set(0));
    let (head, evs) = match line.split_once(" :: ") {
        Some((h, e)) => (h, e),
        None => (line, ""),
    };
    let cap: usize = head.trim().strip_prefix("cap=").unwrap().parse().unwrap();
    let ops: Vec<&str> = evs.split(" ; ").map(|s| s.trim()).filter(|s| !s.is_empty()).collect();
    let nops = ops.len();
    let panicked = catch(|| {
        let mut ob: Option<ObservableVector<Elem>> = Some(ObservableVector::with_capacity(cap));
        let mut subs: Vec<Option<(Vector<Elem>, AnyStream)>> = vec![];
        let mut kept: Vec<VectorDiff<Elem>> = vec![]; // diffs kept alive for a while
        let mut uniq: Option<Observable<Elem>> = Some(Observable::new(Elem::new(0)));
        let mut shared: Vec<SharedObservable<Elem>> = vec![];
        let mut osubs: Vec<Option<Subscriber<Elem>>> = vec![];
        let mut oweaks: Vec<eyeball::WeakObservable<Elem>> = vec![];
        // subscribers owned by their own waker (the usual shape of an async task): the observable's
        // waker list then keeps the subscriber - and through it the state and the value - alive until
        // the list is drained by an update or by the close on the last owner's drop
        let mut tasks: Vec<Arc<SelfTask>> = vec![];
        let cw = Arc::new(CountWaker(AtomicUsize::new(0)));
        let waker = Waker::from(cw);
        let mut i = 0;
        while i < ops.len() {
            let op = ops[i];
            i += 1;
            let (name, arg) = match op.find(|c| c == '(' || c == '[') {
                Some(p) => (&op[..p], &op[p..]),
                None => (op, ""),
            };
            let in_txn = name.starts_with("t.");
            if name == "tb" {
                // run the transaction body up to tc / td
                let o = ob.as_mut().unwrap();
                let mut txn = o.transaction();
                while i < ops.len() {
                    let top = ops[i];
                    i += 1;
                    let (tn, ta) = match top.find(|c| c == '(' || c == '[') {
                        Some(p) => (&top[..p], &top[p..]),
                        None => (top, ""),
                    };
                    match tn {
                        "tc" => {
                            txn.commit();
                            break;
                        }
                        "td" => {
                            drop(txn);
                            break;
                        }
                        "t.rollback" => txn.rollback(),
                        "t.append" => {
                            let v: Vector<Elem> = parse_ivec(ta).into_iter().map(Elem::new).collect();
                            txn.append(v)
                        }
                        "t.clear" => txn.clear(),
                        "t.push_front" => txn.push_front(Elem::new(args(ta)[0] as u32)),
                        "t.push_back" => txn.push_back(Elem::new(args(ta)[0] as u32)),
                        "t.pop_front" => {
                            txn.pop_front().map(|e| e.read());
                        }
                        "t.pop_back" => {
                            txn.pop_back().map(|e| e.read());
                        }
                        "t.insert" => {
                            let a = args(ta);
                            let _ = catch(|| txn.insert(a[0], Elem::new(a[1] as u32)));
                        }
                        "t.set" => {
                            let a = args(ta);
                            let _ = catch(|| txn.set(a[0], Elem::new(a[1] as u32)).read());
                        }
                        "t.remove" => {
                            let a = args(ta);
                            let _ = catch(|| txn.remove(a[0]).read());
                        }
                        "t.truncate" => txn.truncate(args(ta)[0]),
                        // subscribers live outside the borrow of the vector: they can be polled and
                        // dropped while the transaction is open
                        "poll" | "drain" => poll_sub(&mut subs, args(ta)[0], tn == "poll", &waker, &mut kept),
                        "dropsub" => {
                            let k = args(ta)[0];
                            if k < subs.len() {
                                subs[k] = None;
                            }
                        }
                        "dropdiffs" => kept.clear(),
                        _ => {} // entry traversal inside a transaction is exercised in mode ovec
                    }
                }
                continue;
            }
            let _ = in_txn;
            match name {
                "append" => {
                    let v: Vector<Elem> = parse_ivec(arg).into_iter().map(Elem::new).collect();
                    ob.as_mut().unwrap().append(v)
                }
                "clear" => ob.as_mut().unwrap().clear(),
                "push_front" => ob.as_mut().unwrap().push_front(Elem::new(args(arg)[0] as u32)),
                "push_back" => ob.as_mut().unwrap().push_back(Elem::new(args(arg)[0] as u32)),
                "pop_front" => {
                    ob.as_mut().unwrap().pop_front().map(|e| e.read());
                }
                "pop_back" => {
                    ob.as_mut().unwrap().pop_back().map(|e| e.read());
                }
                "insert" => {
                    let a = args(arg);
                    let o = ob.as_mut().unwrap();
                    let _ = catch(|| o.insert(a[0], Elem::new(a[1] as u32)));
                }
                "set" => {
                    let a = args(arg);
                    let o = ob.as_mut().unwrap();
                    let _ = catch(|| o.set(a[0], Elem::new(a[1] as u32)).read());
                }
                "remove" => {
                    let a = args(arg);
                    let o = ob.as_mut().unwrap();
                    let _ = catch(|| o.remove(a[0]).read());
                }
                "truncate" => ob.as_mut().unwrap().truncate(args(arg)[0]),
                "each" => {
                    let o = ob.as_mut().unwrap();
                    let decs: Vec<&str> = arg[1..arg.len() - 1].split(',').filter(|s| !s.is_empty()).collect();
                    let mut entries = o.entries();
                    let mut k = 0;
                    while let Some(mut e) = entries.next() {
                        e.read();
                        let d = decs.get(k).copied().unwrap_or("k");
                        k += 1;
                        if d == "x" {
                            break;
                        } else if d == "r" {
                            eyeball_im::ObservableVectorEntry::remove(e).read();
                        } else if let Some(v) = d.strip_prefix('s') {
                            eyeball_im::ObservableVectorEntry::set(&mut e, Elem::new(v.parse().unwrap())).read();
                        } else if let Some(v) = d.strip_prefix('t') {
                            eyeball_im::ObservableVectorEntry::set(&mut e, Elem::new(v.parse().unwrap())).read();
                            eyeball_im::ObservableVectorEntry::remove(e).read();
                        }
                    }
                }
                "sub" => {
                    let o = ob.as_ref().unwrap();
                    let inner = &arg[1..arg.len() - 1];
                    let (fl, adapter) = match inner.split_once(',') {
                        Some((f, a)) => (f, Some(a)),
                        None => (inner, None),
                    };
                    let s = o.subscribe();
                    let built = match (fl, adapter) {
                        ("p", None) => {
                            let (v, st) = s.into_values_and_stream();
                            (v, AnyStream::Plain(Box::pin(st)))
                        }
                        ("b", None) => {
                            let (v, st) = s.into_values_and_batched_stream();
                            (v, AnyStream::Batched(Box::pin(st)))
                        }
                        ("p", Some(a)) => attach!(s, a, AnyStream::Plain),
                        (_, Some(a)) => {
                            use eyeball_im_util::vector::VectorSubscriberExt;
                            attach!(s.batched(), a, AnyStream::Batched)
                        }
                        _ => panic!("bad sub {op}"),
                    };
                    for e in built.0.iter() {
                        e.read();
                    }
                    subs.push(Some(built));
                }
                "poll" | "drain" => poll_sub(&mut subs, args(arg)[0], name == "poll", &waker, &mut kept),
                "dropsub" => {
                    let k = args(arg)[0];
                    if k < subs.len() {
                        subs[k] = None;
                    }
                }
                "dropdiffs" => kept.clear(),
                "dropvec" => ob = None,
                "get" => {
                    if let Some(o) = ob.as_ref() {
                        for e in o.iter() {
                            e.read();
                        }
                    }
                }
                // ---- the observable value ----
                "oset" => {
                    let v = Elem::new(args(arg)[0] as u32);
                    if let Some(u) = uniq.as_mut() {
                        Observable::set(u, v).read();
                    } else if let Some(s) = shared.first() {
                        s.set(v).read();
                    }
                }
                "otake" => {
                    if let Some(u) = uniq.as_mut() {
                        Observable::take(u).read();
                    } else if let Some(s) = shared.first() {
                        s.take().read();
                    }
                }
                "oupdate" => {
                    let x = args(arg)[0] as u32;
                    if let Some(u) = uniq.as_mut() {
                        Observable::update(u, |e| *e = Elem::new(x));
                    } else if let Some(s) = shared.first() {
                        s.update(|e| *e = Elem::new(x));
                    }
                }
                "osub" => {
                    if let Some(u) = uniq.as_ref() {
                        osubs.push(Some(Observable::subscribe(u)));
                    } else if let Some(s) = shared.first() {
                        osubs.push(Some(s.subscribe()));
                    }
                }
                "opoll" => {
                    let k = args(arg)[0];
                    if let Some(Some(s)) = osubs.get_mut(k) {
                        let mut cx = Context::from_waker(&waker);
                        if let Poll::Ready(Some(e)) = Pin::new(s).poll_next(&mut cx) {
                            e.read();
                        }
                    }
                }
                "onext" => {
                    let k = args(arg)[0];
                    if let Some(Some(s)) = osubs.get_mut(k) {
                        s.next_now().read();
                    }
                }
                "oshare" => {
                    if let Some(u) = uniq.take() {
                        shared.push(Observable::into_shared(u));
                    }
                }
                "oclone" => {
                    if let Some(s) = shared.first() {
                        let c = s.clone();
                        shared.push(c);
                    }
                }
                "odrop" => {
                    if uniq.is_some() {
                        uniq = None;
                    } else if !shared.is_empty() {
                        shared.pop();
                    }
                }
                "odropsub" => {
                    let k = args(arg)[0];
                    if k < osubs.len() {
                        osubs[k] = None;
                    }
                }
                "oweak" => {
                    if let Some(s) = shared.first() {
                        oweaks.push(s.downgrade());
                    }
                }
                "odropweak" => {
                    oweaks.pop();
                }
                "oupgrade" => {
                    if let Some(w) = oweaks.first() {
                        if let Some(o) = w.upgrade() {
                            shared.push(o);
                        }
                    }
                }
                "otask" => {
                    let k = args(arg)[0];
                    if let Some(sub) = osubs.get_mut(k).and_then(|s| s.take()) {
                        let t = Arc::new(SelfTask { sub: std::sync::Mutex::new(Some(sub)) });
                        let w = Waker::from(t.clone());
                        let mut cx = Context::from_waker(&w);
                        if let Some(s) = t.sub.lock().unwrap().as_mut() {
                            if let Poll::Ready(Some(e)) = Pin::new(s).poll_next(&mut cx) {
                                e.read();
                            }
                        }
                        // half of the tasks are "detached": the harness keeps no handle, only the
                        // registered waker (if any) keeps the task alive
                        if k % 2 == 0 {
                            tasks.push(t);
                        }
                    }
                }
                _ => panic!("bad op {op}"),
            }
        }
        // everything goes out of scope here
    });
    let _ = panicked;
    let live_end = LIVE.with(|l| l.borrow().len());
    let dbl = DOUBLE.with(|d| d.get());
    let dead = DEAD_READ.with(|d| d.get());
    out.push_str(&format!(
        "n={} ok:nodoubledrop={} ok:noleak={} ok:usealive={}\n",
        nops,
        b2s(dbl == 0),
        b2s(live_end == 0),
        b2s(dead == 0)
    ));
}
