//! Implementation-side runner of the correspondence check.
//! usage: h <mode> < cases > observations
mod common;
mod m_adapt;
mod m_chain;
#[cfg(eyeball_verif)]
mod m_conc;
#[cfg(eyeball_verif)]
mod m_drain;
mod m_diff;
mod m_e2e;
mod m_full;
mod m_hand;
mod m_lin;
mod m_obs;
mod m_own;
mod m_race;
mod m_obs_async;
mod m_aobs;
mod m_bcast;
mod m_ovec;

use std::io::{BufRead, Write};

fn main() {
    std::panic::set_hook(Box::new(|_| {}));
    let mode = std::env::args().nth(1).expect("mode");
    let f: fn(&str, &mut String) = match mode.as_str() {
        "diff" => m_diff::run_line,
        "adapt" => m_adapt::run_line,
        "ovec" => m_ovec::run_line,
        "chain" => m_chain::run_line,
        "lin" => m_lin::run_line,
        "own" => m_own::run_line,
        "race" => m_race::run_line,
        "aobs" => m_aobs::run_line,
        "e2e" => m_e2e::run_line,
        "hand" => m_hand::run_line,
        "full" => m_full::run_line,
        "bcast" => m_bcast::run_line,
        #[cfg(eyeball_verif)]
        "conc" => m_conc::run_line,
        #[cfg(eyeball_verif)]
        "drain" => m_drain::run_line,
        "obs" => {
            m_obs::check_hashes();
            m_obs::run_line
        }
        _ => {
            eprintln!("unknown mode {mode}");
            std::process::exit(2)
        }
    };
    let stdin = std::io::stdin();
    let stdout = std::io::stdout();
    let mut o = std::io::BufWriter::new(stdout.lock());
    let mut buf = String::new();
    for line in stdin.lock().lines() {
        let line = line.unwrap();
        if line.is_empty() {
            continue;
        }
        buf.clear();
        f(&line, &mut buf);
        o.write_all(buf.as_bytes()).unwrap();
    }
}
