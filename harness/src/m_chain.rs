//! mode chain (C12): stacks of up to three adapters over a scripted source, with transparent taps
//! between the stages.  Mirrors /verif/ocaml/m_chain.ml.
//! case: `<u|b> <vec> | <stage> | <stage> ... :: events`
//! stage: `kind:flav:arg` (+ `:self` = handed to the next stage as the adapter itself)
//! events: d:<diff>  b:<d>|<d>  l<k>:<n> (limit/count of stage k)  D  es
use crate::common::*;
use crate::m_adapt::{apply_src, ok_in, passes, unsafe_cast, BoxStream, CountWaker, Item, ScriptStream};
use eyeball_im::VectorDiff;
use eyeball_im_util::vector::{VectorDiffContainer, VectorObserver, VectorObserverExt};
use futures_core::Stream;
use imbl::Vector;
use std::cell::RefCell;
use std::pin::Pin;
use std::rc::Rc;
use std::sync::atomic::AtomicUsize;
use std::sync::Arc;
use std::task::{Context, Poll, Waker};

#[derive(Clone, Debug)]
pub(crate) struct Stage {
    pub kind: String,
    pub flav: String,
    pub arg: String,
    pub by_self: bool,
}

/// transparent stream wrapper recording every item
struct Tap<I> {
    inner: BoxStream<I>,
    log: Rc<RefCell<Vec<Vec<VectorDiff<u32>>>>>,
}
impl<I: Item + Clone> Stream for Tap<I> {
    type Item = I;
    fn poll_next(mut self: Pin<&mut Self>, cx: &mut Context<'_>) -> Poll<Option<I>> {
        let r = self.inner.as_mut().poll_next(cx);
        if let Poll::Ready(Some(it)) = &r {
            self.log.borrow_mut().push(it.clone().diffs());
        }
        r
    }
}
impl<I> Unpin for Tap<I> {}

type Limits = Vec<Rc<RefCell<crate::m_adapt::ScriptInner<usize>>>>;

/// attach one stage to an observer; None values = purely dynamic (nothing returned)
pub(crate) fn attach_one<O, I>(obs: O, st: &Stage, ls: ScriptStream<usize>) -> (Option<Vector<u32>>, BoxStream<I>)
where
    I: Item + VectorDiffContainer<Element = u32>,
    O: VectorObserver<u32>,
    O::Stream: Stream<Item = I> + 'static,
{
    let arg = || st.arg.parse::<usize>().unwrap();
    match (st.kind.as_str(), st.flav.as_str()) {
        ("head", "static") => {
            let (v, s) = obs.head(arg());
            (Some(v), Box::pin(s))
        }
        ("head", "dyninit") => {
            let (v, s) = obs.dynamic_head_with_initial_value(arg(), ls);
            (Some(v), Box::pin(s))
        }
        ("head", "dynamic") => (None, Box::pin(obs.dynamic_head(ls))),
        ("tail", "static") => {
            let (v, s) = obs.tail(arg());
            (Some(v), Box::pin(s))
        }
        ("tail", "dyninit") => {
            let (v, s) = obs.dynamic_tail_with_initial_value(arg(), ls);
            (Some(v), Box::pin(s))
        }
        ("tail", "dynamic") => (None, Box::pin(obs.dynamic_tail(ls))),
        ("skip", "static") => {
            let (v, s) = obs.skip(arg());
            (Some(v), Box::pin(s))
        }
        ("skip", "dyninit") => {
            let (v, s) = obs.dynamic_skip_with_initial_count(arg(), ls);
            (Some(v), Box::pin(s))
        }
        ("skip", "dynamic") => (None, Box::pin(obs.dynamic_skip(ls))),
        ("filter", _) => {
            let mask = arg() as u32;
            let (v, s) = obs.filter(move |x: &u32| passes(mask, *x));
            (Some(v), Box::pin(s))
        }
        ("filter_map", _) => {
            let mask = arg() as u32;
            let (v, s) = obs.filter_map(move |x: u32| if passes(mask, x) { Some(x + 100) } else { None });
            (Some(v), unsafe_cast::<I, _>(Box::pin(s)))
        }
        ("sort", _) => {
            let (v, s) = obs.sort();
            (Some(v), Box::pin(s))
        }
        _ => panic!("bad stage {st:?}"),
    }
}

/// stage st1 (purely dynamic head/tail/skip) handed to st2 as the adapter itself
fn attach_self<O, I>(
    obs: O,
    st1: &Stage,
    ls1: ScriptStream<usize>,
    st2: &Stage,
    ls2: ScriptStream<usize>,
) -> (Option<Vector<u32>>, BoxStream<I>)
where
    I: Item + VectorDiffContainer<Element = u32>,
    O: VectorObserver<u32>,
    O::Stream: Stream<Item = I> + 'static,
{
    // the adapter itself (for the static / dynamic-with-initial-value flavours: the `.1` half of the
    // returned pair) is the observer of the next stage
    let arg = || st1.arg.parse::<usize>().unwrap();
    match (st1.kind.as_str(), st1.flav.as_str()) {
        ("head", "dynamic") => attach_one(obs.dynamic_head(ls1), st2, ls2),
        ("head", "dyninit") => attach_one(obs.dynamic_head_with_initial_value(arg(), ls1).1, st2, ls2),
        ("head", "static") => attach_one(obs.head(arg()).1, st2, ls2),
        ("tail", "dynamic") => attach_one(obs.dynamic_tail(ls1), st2, ls2),
        ("tail", "dyninit") => attach_one(obs.dynamic_tail_with_initial_value(arg(), ls1).1, st2, ls2),
        ("tail", "static") => attach_one(obs.tail(arg()).1, st2, ls2),
        ("skip", "dynamic") => attach_one(obs.dynamic_skip(ls1), st2, ls2),
        ("skip", "dyninit") => attach_one(obs.dynamic_skip_with_initial_count(arg(), ls1).1, st2, ls2),
        ("skip", "static") => attach_one(obs.skip(arg()).1, st2, ls2),
        _ => panic!("only head/tail/skip can be handed over by themselves"),
    }
}

/// expected view of one stage given the view below it and its current parameter
pub(crate) fn stage_view(st: &Stage, param: Option<usize>, below: &[u32]) -> Vec<u32> {
    match st.kind.as_str() {
        "head" => below.iter().copied().take(param.unwrap_or(0)).collect(),
        "tail" => {
            let l = param.unwrap_or(0);
            below.iter().copied().skip(below.len().saturating_sub(l)).collect()
        }
        "skip" => match param {
            None => vec![],
            Some(c) => below.iter().copied().skip(c).collect(),
        },
        "filter" => {
            let m: u32 = st.arg.parse().unwrap();
            below.iter().copied().filter(|x| passes(m, *x)).collect()
        }
        "filter_map" => {
            let m: u32 = st.arg.parse().unwrap();
            below.iter().copied().filter(|x| passes(m, *x)).map(|x| x + 100).collect()
        }
        "sort" => {
            let mut v = below.to_vec();
            v.sort();
            v
        }
        _ => panic!(),
    }
}

fn run_generic<I>(vec: &str, stages: &[Stage], events: &[&str], out: &mut String)
where
    I: Item + Clone + VectorDiffContainer<Element = u32>,
    ScriptStream<I>: Stream<Item = I>,
{
    let vs = parse_vec(vec);
    let trace = Rc::new(RefCell::new(String::new()));
    let (src_stream, src_q) = ScriptStream::<I>::new('s', trace.clone());
    let mut limits: Limits = vec![];
    let mut lstreams: Vec<Option<ScriptStream<usize>>> = vec![];
    for _ in stages {
        let (ls, lq) = ScriptStream::<usize>::new('l', trace.clone());
        limits.push(lq);
        lstreams.push(Some(ls));
    }
    let mut params: Vec<Option<usize>> = stages
        .iter()
        .map(|s| if s.flav == "static" || s.flav == "dyninit" { Some(s.arg.parse().unwrap()) } else { None })
        .collect();
    // taps[j] = (index of the last stage below the tap, log, rebuilt view, app_ok)
    struct TapInfo {
        upto: usize,
        log: Rc<RefCell<Vec<Vec<VectorDiff<u32>>>>>,
        view: Vector<u32>,
        seen: usize,
        app_ok: bool,
    }
    let mut taps: Vec<TapInfo> = vec![];
    let built = catch(|| {
        let mut cur_vals: Vector<u32> = vs.clone();
        let mut cur_stream: BoxStream<I> = Box::pin(src_stream);
        let mut k = 0;
        let mut infos: Vec<(usize, Rc<RefCell<Vec<Vec<VectorDiff<u32>>>>>, Vector<u32>)> = vec![];
        while k < stages.len() {
            let obs = (cur_vals.clone(), cur_stream);
            let (v, s, upto) = if stages[k].by_self && k + 1 < stages.len() {
                let (v, s) = attach_self::<_, I>(
                    obs,
                    &stages[k],
                    lstreams[k].take().unwrap(),
                    &stages[k + 1],
                    lstreams[k + 1].take().unwrap(),
                );
                (v, s, k + 1)
            } else {
                let (v, s) = attach_one::<_, I>(obs, &stages[k], lstreams[k].take().unwrap());
                (v, s, k)
            };
            let log = Rc::new(RefCell::new(vec![]));
            let vals = v.unwrap_or_default();
            infos.push((upto, log.clone(), vals.clone()));
            cur_vals = vals;
            cur_stream = Box::pin(Tap { inner: s, log });
            k = upto + 1;
        }
        (infos, cur_stream)
    });
    let Some((infos, mut stream)) = built else {
        out.push_str("init=PANIC");
        return;
    };
    for (upto, log, vals) in infos {
        taps.push(TapInfo { upto, log, view: vals, seen: 0, app_ok: true });
    }
    out.push_str("init=");
    out.push_str(&taps.iter().map(|t| show_vec(t.view.iter())).collect::<Vec<_>>().join("/"));
    let mut src = vs.clone();
    let mut src_ok = true;
    // oracle for the initial values
    let check = |taps: &Vec<TapInfo>, params: &Vec<Option<usize>>, src: &Vector<u32>, src_ok: bool| -> String {
        let mut below: Vec<u32> = src.iter().copied().collect();
        let mut k = 0;
        let mut s = String::new();
        for (j, t) in taps.iter().enumerate() {
            while k <= t.upto {
                below = stage_view(&stages[k], params[k], &below);
                k += 1;
            }
            let ok = !src_ok || (t.view.iter().copied().eq(below.iter().copied()) && t.app_ok);
            s.push_str(&format!(" v{}={} ok:stage{}={}", j, show_vec(t.view.iter()), j, b2s(ok)));
        }
        s
    };
    out.push_str(&check(&taps, &params, &src, src_ok));
    let mut panicked = false;
    for ev in events {
        if panicked {
            break;
        }
        out.push_str(" ; ");
        if *ev == "D" {
            // a fresh waker for every drain (see m_adapt.rs): every leaf must hold THIS one at Pending
            let waker = Waker::from(Arc::new(CountWaker(AtomicUsize::new(0))));
            let mut count = 0;
            let mut end = 'P';
            loop {
                count += 1;
                let mut cx = Context::from_waker(&waker);
                match catch(|| stream.as_mut().poll_next(&mut cx)) {
                    None => {
                        panicked = true;
                        break;
                    }
                    Some(Poll::Ready(Some(_))) => {}
                    Some(Poll::Ready(None)) => {
                        end = 'N';
                        break;
                    }
                    Some(Poll::Pending) => break,
                }
                if count > 10000 {
                    break;
                }
            }
            if panicked {
                out.push_str("PANIC");
                if src_ok {
                    out.push_str(" ok:nopanic=0");
                }
                break;
            }
            // apply what every tap recorded
            let mut parts = vec![];
            for (j, t) in taps.iter_mut().enumerate() {
                let log = t.log.borrow();
                let mut items = vec![];
                for it in log.iter().skip(t.seen) {
                    items.push(I::show(it));
                    for d in it {
                        if !ok_in(d, t.view.len()) {
                            t.app_ok = false;
                        }
                        let mut v2 = t.view.clone();
                        let d2 = d.clone();
                        match catch(move || {
                            d2.apply(&mut v2);
                            v2
                        }) {
                            Some(v2) => t.view = v2,
                            None => t.app_ok = false,
                        }
                    }
                }
                t.seen = log.len();
                parts.push(format!("t{}={}", j, if items.is_empty() { "-".to_string() } else { items.join("+") }));
            }
            out.push_str(&format!("{}{} {}", end, check(&taps, &params, &src, src_ok), parts.join(" ")));
            if end == 'P' {
                // C14 for chains: the waker of this poll is registered with every leaf of the stack
                let registered = |last: Option<crate::m_adapt::Resp>, w: &Option<Waker>, may_end: bool| match last {
                    Some(crate::m_adapt::Resp::Pending) => w.as_ref().map_or(false, |w| w.will_wake(&waker)),
                    Some(crate::m_adapt::Resp::End) => may_end,
                    _ => false,
                };
                let mut ok = {
                    let s = src_q.borrow();
                    registered(s.last, &s.waker, false)
                };
                for (k, st) in stages.iter().enumerate() {
                    if st.flav == "dynamic" || st.flav == "dyninit" {
                        let l = limits[k].borrow();
                        ok = ok && registered(l.last, &l.waker, true);
                    }
                }
                out.push_str(&format!(" ok:reg={}", b2s(ok)));
            }
        } else if let Some(d) = ev.strip_prefix("d:") {
            let d = parse_diff(d);
            apply_src(&mut src, &mut src_ok, &d);
            I::enqueue(&mut src_q.borrow_mut().queue, vec![d]);
            out.push('.');
        } else if let Some(b) = ev.strip_prefix("b:") {
            let ds: Vec<_> = b.split('|').map(parse_diff).collect();
            for d in &ds {
                apply_src(&mut src, &mut src_ok, d);
            }
            I::enqueue(&mut src_q.borrow_mut().queue, ds);
            out.push('.');
        } else if ev.starts_with('l') {
            let (k, n) = ev[1..].split_once(':').unwrap();
            let k: usize = k.parse().unwrap();
            let n: usize = n.parse().unwrap();
            params[k] = Some(n);
            limits[k].borrow_mut().queue.push_back(n);
            out.push('.');
        } else if *ev == "es" {
            src_q.borrow_mut().ended = true;
            out.push('.');
        } else {
            panic!("bad event {ev}");
        }
    }
}

pub fn run_line(line: &str, out: &mut String) {
    let (head, evs) = match line.split_once(" :: ") {
        Some((h, e)) => (h, e),
        None => (line, ""),
    };
    let mut parts = head.split(" | ");
    let first: Vec<&str> = parts.next().unwrap().split_whitespace().collect();
    let stages: Vec<Stage> = parts
        .map(|s| {
            let f: Vec<&str> = s.trim().split(':').collect();
            Stage {
                kind: f[0].into(),
                flav: f[1].into(),
                arg: f[2].into(),
                by_self: f.get(3).map_or(false, |x| *x == "self"),
            }
        })
        .collect();
    let events: Vec<&str> = evs.split(" ; ").map(|s| s.trim()).filter(|s| !s.is_empty()).collect();
    if first[0] == "b" {
        run_generic::<Vec<VectorDiff<u32>>>(first[1], &stages, &events, out);
    } else {
        run_generic::<VectorDiff<u32>>(first[1], &stages, &events, out);
    }
    out.push('\n');
}
