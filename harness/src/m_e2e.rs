//! mode e2e (C13; also exercises C09-C12 end to end): adapter stacks on a *real* ObservableVector.
//! Two subscribers are taken at the start, one plain and one batched, and the same stack of adapters
//! is attached to each.  The vector is then driven through mutators and transactions; `D` drains both.
//! case: `cap=<c> <vec> | <stage> | <stage> :: ops`   stage = kind:flav:arg (as in mode chain)
//! ops: the ten mutators ; tb ; t.<mutator> ; t.rollback ; tc | td ; l<k>:<n> ; D
//! Oracles (specification: plain `Vec` shadow + the adapters' defining view functions):
//!   ok:e2eview   at Pending both rebuilt views equal the stack's view of the vector's contents
//!   ok:e2eapp    every delivered diff is applicable to the rebuilt view
//!   ok:e2estate  (fixed parameters) after every batch the batched view is the stack's view of a
//!                state the vector had between top-level operations
//!   ok:nonemptybatch, ok:samediffs (fixed parameters, no Reset in this drain: batches concatenated = plain)
use crate::common::*;
use crate::m_adapt::{ok_in, BoxStream, CountWaker, Item, ScriptInner, ScriptStream};
use crate::m_chain::{attach_one, stage_view, Stage};
use crate::m_ovec::{args, mutate, show_ret_opt, spec_mut, split_op};
use eyeball_im::{ObservableVector, VectorDiff};
use eyeball_im_util::vector::VectorSubscriberExt;
use imbl::Vector;
use std::cell::RefCell;
use std::rc::Rc;
use std::sync::atomic::AtomicUsize;
use std::sync::Arc;
use std::task::{Context, Poll, Waker};

struct Side<I> {
    stream: BoxStream<I>,
    view: Vector<u32>,
    app_ok: bool,
    limits: Vec<Rc<RefCell<ScriptInner<usize>>>>,
}

fn build<O, I>(obs: O, stages: &[Stage]) -> Option<Side<I>>
where
    I: Item + eyeball_im_util::vector::VectorDiffContainer<Element = u32>,
    O: eyeball_im_util::vector::VectorObserver<u32> + 'static,
    O::Stream: futures_core::Stream<Item = I> + 'static,
{
    let trace = Rc::new(RefCell::new(String::new()));
    let mut limits = vec![];
    catch(move || {
        let (ls0, lq0) = ScriptStream::<usize>::new('l', trace.clone());
        limits.push(lq0);
        let (v, s) = attach_one::<_, I>(obs, &stages[0], ls0);
        let mut vals = v.unwrap_or_default();
        let mut stream: BoxStream<I> = s;
        for st in &stages[1..] {
            let (ls, lq) = ScriptStream::<usize>::new('l', trace.clone());
            limits.push(lq);
            let (v, s) = attach_one::<_, I>((vals.clone(), stream), st, ls);
            vals = v.unwrap_or_default();
            stream = s;
        }
        Side { stream, view: vals, app_ok: true, limits }
    })
}

/// drain one side; returns (items, ended, panicked)
fn drain<I: Item + Clone>(side: &mut Side<I>, waker: &Waker) -> (Vec<Vec<VectorDiff<u32>>>, bool, bool) {
    let mut items = vec![];
    let mut n = 0;
    loop {
        n += 1;
        let mut cx = Context::from_waker(waker);
        match catch(|| side.stream.as_mut().poll_next(&mut cx)) {
            None => return (items, false, true),
            Some(Poll::Ready(Some(it))) => items.push(it.diffs()),
            Some(Poll::Ready(None)) => return (items, true, false),
            Some(Poll::Pending) => return (items, false, false),
        }
        if n > 10000 {
            return (items, false, false);
        }
    }
}

/// C15 end to end: with a fixed-limit Head / Tail on top, the view never has more than `limit` items,
/// not even between two diffs of one item
static BOUND_BROKEN: std::sync::atomic::AtomicBool = std::sync::atomic::AtomicBool::new(false);
thread_local! { static BOUND: std::cell::Cell<Option<usize>> = const { std::cell::Cell::new(None) }; }

fn apply_item(view: &mut Vector<u32>, app_ok: &mut bool, ds: &[VectorDiff<u32>]) {
    for d in ds {
        if !ok_in(d, view.len()) {
            *app_ok = false;
        }
        let mut v2 = view.clone();
        let d2 = d.clone();
        match catch(move || {
            d2.apply(&mut v2);
            v2
        }) {
            Some(v2) => *view = v2,
            None => *app_ok = false,
        }
        if let Some(b) = BOUND.with(|c| c.get()) {
            if view.len() > b {
                BOUND_BROKEN.store(true, std::sync::atomic::Ordering::SeqCst);
            }
        }
    }
}

fn expected(stages: &[Stage], params: &[Option<usize>], src: &[u32]) -> Vec<u32> {
    let mut below = src.to_vec();
    for (k, st) in stages.iter().enumerate() {
        below = stage_view(st, params[k], &below);
    }
    below
}

pub fn run_line(line: &str, out: &mut String) {
    let (head, evs) = match line.split_once(" :: ") {
        Some((h, e)) => (h, e),
        None => (line, ""),
    };
    let mut parts = head.split(" | ");
    let first: Vec<&str> = parts.next().unwrap().split_whitespace().collect();
    let cap: usize = first[0].strip_prefix("cap=").unwrap().parse().unwrap();
    let init = parse_ivec(first[1]);
    let stages: Vec<Stage> = parts
        .map(|s| {
            let f: Vec<&str> = s.trim().split(':').collect();
            Stage { kind: f[0].into(), flav: f[1].into(), arg: f[2].into(), by_self: false }
        })
        .collect();
    let fixed = stages.iter().all(|s| s.flav == "static" || s.flav == "-");
    let top = stages.last().unwrap();
    BOUND.with(|c| {
        c.set(if top.flav == "static" && (top.kind == "head" || top.kind == "tail") { top.arg.parse().ok() } else { None })
    });
    BOUND_BROKEN.store(false, std::sync::atomic::Ordering::SeqCst);
    let ops: Vec<&str> = evs.split(" ; ").map(|s| s.trim()).filter(|s| !s.is_empty()).collect();
    let mut ob: ObservableVector<u32> = ObservableVector::with_capacity(cap);
    ob.append(init.iter().copied().collect());
    let mut shadow: Vec<u32> = init.clone();
    let mut params: Vec<Option<usize>> = stages
        .iter()
        .map(|s| if s.flav == "static" || s.flav == "dyninit" { s.arg.parse().ok() } else { None })
        .collect();
    let (Some(mut p), Some(mut b)) = (
        build::<_, VectorDiff<u32>>(ob.subscribe(), &stages),
        build::<_, Vec<VectorDiff<u32>>>(ob.subscribe().batched(), &stages),
    ) else {
        out.push_str("init=PANIC\n");
        return;
    };
    let cw = Arc::new(CountWaker(AtomicUsize::new(0)));
    let waker = Waker::from(cw);
    // every state the vector had between top-level operations
    let mut states: Vec<Vec<u32>> = vec![shadow.clone()];
    let e0 = expected(&stages, &params, &shadow);
    if let Some(bd) = BOUND.with(|c| c.get()) {
        if p.view.len() > bd || b.view.len() > bd {
            BOUND_BROKEN.store(true, std::sync::atomic::Ordering::SeqCst);
        }
    }
    out.push_str(&format!(
        "init={} ok:e2einit={}",
        show_vec(p.view.iter()),
        b2s(p.view.iter().copied().eq(e0.iter().copied()) && b.view.iter().copied().eq(e0.iter().copied()))
    ));
    let mut i = 0;
    while i < ops.len() {
        let op = ops[i];
        i += 1;
        out.push_str(" ; ");
        let (name, arg) = split_op(op);
        if name == "tb" {
            let mut tshadow = shadow.clone();
            let mut txn = ob.transaction();
            let mut committed = false;
            while i < ops.len() {
                let top = ops[i];
                i += 1;
                let (tn, ta) = split_op(top);
                match tn {
                    "tc" => {
                        txn.commit();
                        committed = true;
                        break;
                    }
                    "td" => break,
                    "t.rollback" => {
                        txn.rollback();
                        tshadow = shadow.clone();
                    }
                    _ => {
                        let m = tn.strip_prefix("t.").unwrap_or(tn);
                        if let Some((n, _, _)) = spec_mut(m, ta, &tshadow, true) {
                            let _ = mutate!(txn, m, ta);
                            tshadow = n;
                        }
                    }
                }
            }
            if committed {
                shadow = tshadow;
                states.push(shadow.clone());
            }
            out.push('T');
            continue;
        }
        if name == "D" {
            let (pi, pend, ppanic) = drain(&mut p, &waker);
            let (bi, bend, bpanic) = drain(&mut b, &waker);
            if ppanic || bpanic {
                out.push_str("D:PANIC ok:e2enopanic=0");
                break;
            }
            for it in &pi {
                apply_item(&mut p.view, &mut p.app_ok, it);
            }
            let mut nonempty = true;
            let mut state_ok = true;
            for it in &bi {
                if it.is_empty() {
                    nonempty = false;
                }
                apply_item(&mut b.view, &mut b.app_ok, it);
                if fixed {
                    let bv: Vec<u32> = b.view.iter().copied().collect();
                    if !states.iter().any(|s| expected(&stages, &params, s) == bv) {
                        state_ok = false;
                    }
                }
            }
            let e = expected(&stages, &params, &shadow);
            let view_ok = p.view.iter().copied().eq(e.iter().copied()) && b.view.iter().copied().eq(e.iter().copied());
            let flat_p: Vec<String> = pi.iter().flatten().map(show_diff).collect();
            let flat_b: Vec<String> = bi.iter().flatten().map(show_diff).collect();
            let has_reset = flat_p.iter().chain(flat_b.iter()).any(|d| d.starts_with("Reset"));
            let same = !fixed || has_reset || flat_p == flat_b;
            out.push_str(&format!(
                "D:{}{} p={} b={} v={} ok:e2eview={} ok:e2eapp={} ok:e2estate={} ok:nonemptybatch={} ok:samediffs={}",
                if pend { 'N' } else { 'P' },
                if bend { 'N' } else { 'P' },
                flat_p.len(),
                bi.len(),
                show_vec(p.view.iter()),
                b2s(view_ok),
                b2s(p.app_ok && b.app_ok),
                b2s(state_ok),
                b2s(nonempty),
                b2s(same)
            ));
            // states older than this drain can no longer be exposed
            states = vec![shadow.clone()];
            continue;
        }
        if let Some(rest) = name.strip_prefix('l') {
            // "l<k>:<n>" has no parentheses: split_op gave the whole token as name
            let (k, n) = rest.split_once(':').unwrap();
            let k: usize = k.parse().unwrap();
            let n: usize = n.parse().unwrap();
            if k < stages.len() && stages[k].flav != "static" && stages[k].flav != "-" {
                params[k] = Some(n);
                p.limits[k].borrow_mut().queue.push_back(n);
                b.limits[k].borrow_mut().queue.push_back(n);
            }
            out.push('l');
            continue;
        }
        if name.starts_with("t.") || name == "tc" || name == "td" {
            // transaction step outside a transaction (shrunk history): ignored
            out.push('_');
            continue;
        }
        match spec_mut(name, arg, &shadow, false) {
            Some((n, _, _)) => {
                let _ = mutate!(ob, name, arg);
                shadow = n;
                states.push(shadow.clone());
                out.push('.');
            }
            None => out.push('!'), // would panic: not performed
        }
    }
    let _ = (args, show_ret_opt);
    if BOUND_BROKEN.load(std::sync::atomic::Ordering::SeqCst) {
        out.push_str(" ok:e2ebound=0");
    }
    out.push('\n');
}
