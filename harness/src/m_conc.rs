//! mode conc: forced thread schedules over the `eyeball_verif` pause points (C02 C03 C04).
//! Needs the crate built with `--cfg eyeball_verif`.  Input line: `case \t model-observation`
//! (the model's prediction is used only to decide how long to wait for a thread: a thread the model
//! predicts to be blocked gets a short confirmation wait, a thread predicted to advance gets 4 s).
//! Mirrors /verif/ocaml/m_conc.ml.
#![cfg(eyeball_verif)]
use crate::common::*;
use crate::m_obs::{show, split_op, val, Val};
use eyeball::{SharedObservable, Subscriber, WeakObservable};
use futures_core::Stream;
use std::cell::RefCell;
use std::pin::Pin;
use std::sync::atomic::{AtomicUsize, Ordering as AO};
use std::sync::{Arc, Condvar, Mutex};
use std::task::{Context, Poll, Waker};
use std::time::{Duration, Instant};

/// the director's step counter: incremented before every release and every step of the final
/// sequential phase
static STEP: AtomicUsize = AtomicUsize::new(0);

/// a waker that records at which director steps it was woken: the number of distinct steps is the
/// number of wake EVENTS, whether the waker list holds one entry per registration or de-duplicates
struct EpochWaker(Mutex<std::collections::BTreeSet<usize>>);
impl std::task::Wake for EpochWaker {
    fn wake(self: Arc<Self>) {
        self.wake_by_ref()
    }
    fn wake_by_ref(self: &Arc<Self>) {
        self.0.lock().unwrap().insert(STEP.load(AO::SeqCst));
    }
}

#[derive(Clone, Debug, PartialEq)]
enum Phase {
    NotStarted,
    Running,
    AtPause(&'static str),
    Done,
}

struct SlotState {
    phase: Phase,
    released: bool,
    /// the thread has noticed its release and is running again (handshake: without it a thread that
    /// is merely slow to wake up under load would be mistaken for one blocked in a lock)
    acked: bool,
    epoch: u64,
    result: String,
    panicked: bool,
}

struct Slot {
    m: Mutex<SlotState>,
    cv: Condvar,
}

thread_local! {
    static CUR: RefCell<Option<Arc<Slot>>> = RefCell::new(None);
}

fn install_hook() {
    eyeball::verif::set_hook(Some(Arc::new(|point: &'static str| {
        let slot = CUR.with(|c| c.borrow().clone());
        if let Some(slot) = slot {
            let mut st = slot.m.lock().unwrap();
            st.phase = Phase::AtPause(point);
            st.released = false;
            st.epoch += 1;
            slot.cv.notify_all();
            while !st.released {
                st = slot.cv.wait(st).unwrap();
            }
            st.phase = Phase::Running;
            st.acked = true;
            slot.cv.notify_all();
        }
    })));
}

const LONG: Duration = Duration::from_secs(4);
const SHORT: Duration = Duration::from_millis(40);

/// wait until the slot's epoch moves past `epoch0` (new pause point or done); false = timed out
fn wait_epoch(slot: &Slot, epoch0: u64, timeout: Duration) -> bool {
    let deadline = Instant::now() + timeout;
    let mut st = slot.m.lock().unwrap();
    while st.epoch == epoch0 {
        let now = Instant::now();
        if now >= deadline {
            return false;
        }
        let (g, _) = slot.cv.wait_timeout(st, deadline - now).unwrap();
        st = g;
    }
    true
}

fn status(slot: &Slot) -> String {
    let st = slot.m.lock().unwrap();
    match &st.phase {
        Phase::AtPause(p) => p.to_string(),
        Phase::Done => "done".into(),
        Phase::Running => "running".into(),
        Phase::NotStarted => "start".into(),
    }
}

fn kv(s: &str) -> std::collections::HashMap<String, usize> {
    s.split_whitespace()
        .map(|w| {
            let (k, v) = w.split_once('=').unwrap();
            (k.to_string(), v.parse().unwrap())
        })
        .collect()
}

enum Carry {
    Nothing,
    Owner(SharedObservable<Val>),
}

pub fn run_line(line: &str, out: &mut String) {
    let (case, model) = match line.split_once('\t') {
        Some((c, m)) => (c, m),
        None => (line, ""),
    };
    if model.trim() == "AMBIGUOUS" {
        out.push_str("AMBIGUOUS\n");
        return;
    }
    install_hook();
    let parts: Vec<&str> = case.split(" || ").collect();
    let setup = kv(parts[0]);
    let (clones, nsubs, pend, weaks) = (setup["clones"], setup["subs"], setup["pend"], setup["weaks"]);
    let ops: Vec<&str> = parts[1].split(" | ").map(|s| s.trim()).collect();
    let sched: Vec<usize> =
        if parts.len() > 2 { parts[2].split_whitespace().map(|x| x.parse().unwrap()).collect() } else { vec![] };
    // model predictions: sched tokens and fin tokens
    let pred_tokens = |key: &str| -> Vec<String> {
        model
            .split_whitespace()
            .find_map(|w| w.strip_prefix(key))
            .map(|s| if s.is_empty() { vec![] } else { s.split(',').map(|x| x.to_string()).collect() })
            .unwrap_or_default()
    };
    let pred_sched = pred_tokens("sched=");
    let pred_fin = pred_tokens("fin=");

    // ---- set-up ----
    let first = SharedObservable::new(val(0));
    let mut owners: Vec<SharedObservable<Val>> = vec![];
    for _ in 1..clones {
        owners.push(first.clone());
    }
    owners.push(first);
    let mut subs: Vec<Arc<Mutex<Option<Subscriber<Val>>>>> = vec![];
    let mut cws: Vec<Arc<EpochWaker>> = vec![];
    let mut wakers: Vec<Waker> = vec![];
    for _ in 0..nsubs {
        subs.push(Arc::new(Mutex::new(Some(owners[0].subscribe()))));
        let cw = Arc::new(EpochWaker(Mutex::new(Default::default())));
        wakers.push(Waker::from(cw.clone()));
        cws.push(cw);
    }
    let poll_sub = |s: &mut Subscriber<Val>, w: &Waker| -> String {
        let mut cx = Context::from_waker(w);
        match Pin::new(s).poll_next(&mut cx) {
            Poll::Ready(Some(v)) => format!("R:{}", show(v)),
            Poll::Ready(None) => "N".into(),
            Poll::Pending => "P".into(),
        }
    };
    for k in 0..pend {
        let mut g = subs[k].lock().unwrap();
        let r = poll_sub(g.as_mut().unwrap(), &wakers[k]);
        assert_eq!(r, "P");
    }
    let mut weak_pool: Vec<WeakObservable<Val>> = (0..weaks).map(|_| owners[0].downgrade()).collect();
    // droppers take a clone each; the others share a worker handle
    let ndrop = ops.iter().filter(|o| **o == "drop").count();
    let needs_worker = ops.iter().any(|o| o.starts_with("set") || *o == "get" || *o == "clone");
    assert!(ndrop + needs_worker as usize <= clones, "not enough clones for this case");
    let worker: Option<Arc<SharedObservable<Val>>> = if needs_worker { Some(Arc::new(owners.pop().unwrap())) } else { None };

    // ---- threads ----
    let mut slots: Vec<Arc<Slot>> = vec![];
    let mut handles = vec![];
    let carried: Arc<Mutex<Vec<Carry>>> = Arc::new(Mutex::new(vec![]));
    for (t, op) in ops.iter().enumerate() {
        let slot = Arc::new(Slot {
            m: Mutex::new(SlotState { phase: Phase::NotStarted, released: false, acked: false, epoch: 0, result: String::new(), panicked: false }),
            cv: Condvar::new(),
        });
        slots.push(slot.clone());
        let (name, a) = split_op(op);
        let name = name.to_string();
        let my_sub = if name == "poll" { Some((subs[a[0] as usize].clone(), wakers[a[0] as usize].clone())) } else { None };
        let my_owner = if name == "drop" { Some(owners.pop().unwrap()) } else { None };
        let my_weak = if name == "upgrade" { Some(weak_pool.pop().expect("weaks")) } else { None };
        let my_worker = worker.clone();
        let carried = carried.clone();
        let _ = t;
        handles.push(std::thread::spawn(move || {
            CUR.with(|c| *c.borrow_mut() = Some(slot.clone()));
            {
                let mut st = slot.m.lock().unwrap();
                while !st.released {
                    st = slot.cv.wait(st).unwrap();
                }
                st.phase = Phase::Running;
                st.acked = true;
                slot.cv.notify_all();
            }
            let res = catch(move || -> (String, Carry) {
                match name.as_str() {
                    "poll" => {
                        let (s, w) = my_sub.unwrap();
                        let mut g = s.lock().unwrap();
                        let mut cx = Context::from_waker(&w);
                        let r = match Pin::new(g.as_mut().unwrap()).poll_next(&mut cx) {
                            Poll::Ready(Some(v)) => format!("R:{}", show(v)),
                            Poll::Ready(None) => "N".into(),
                            Poll::Pending => "P".into(),
                        };
                        (r, Carry::Nothing)
                    }
                    "set" => (format!("={}", show(my_worker.unwrap().set(val(a[0])))), Carry::Nothing),
                    "get" => (format!("={}", show(my_worker.unwrap().get())), Carry::Nothing),
                    "clone" => {
                        let c = (*my_worker.unwrap()).clone();
                        ("()".into(), Carry::Owner(c))
                    }
                    "drop" => {
                        let o = my_owner.unwrap();
                        // whether this drop closed the state is read off the version afterwards by the
                        // final phase; the thread result only says that it ran
                        drop(o);
                        ("dropped".into(), Carry::Nothing)
                    }
                    "upgrade" => match my_weak.unwrap().upgrade() {
                        Some(o) => ("true".into(), Carry::Owner(o)),
                        None => ("false".into(), Carry::Nothing),
                    },
                    _ => panic!("bad op"),
                }
            });
            let mut st = slot.m.lock().unwrap();
            match res {
                Some((r, c)) => {
                    st.result = r;
                    carried.lock().unwrap().push(c);
                }
                None => {
                    st.result = "false".into();
                    st.panicked = true;
                }
            }
            st.phase = Phase::Done;
            st.epoch += 1;
            slot.cv.notify_all();
        }));
    }

    // ---- the director ----
    let mut blocked: Vec<usize> = vec![];
    let mut do_release = |t: usize, pred: Option<&String>, blocked: &mut Vec<usize>| -> String {
        STEP.fetch_add(1, AO::SeqCst);
        let slot = &slots[t];
        let (epoch0, phase) = {
            let st = slot.m.lock().unwrap();
            (st.epoch, st.phase.clone())
        };
        if phase == Phase::Done {
            return format!("{t}:fin");
        }
        if blocked.contains(&t) {
            // already released and sitting in a lock acquisition: nothing to release
            return format!("{t}:blocked");
        }
        {
            let mut st = slot.m.lock().unwrap();
            st.acked = false;
            st.released = true;
            slot.cv.notify_all();
            // wait until the thread has actually resumed (or already reached its next point)
            let deadline = Instant::now() + LONG;
            while !st.acked && st.epoch == epoch0 {
                let now = Instant::now();
                if now >= deadline {
                    break;
                }
                let (g, _) = slot.cv.wait_timeout(st, deadline - now).unwrap();
                st = g;
            }
        }
        let pred_blocked = pred.map_or(false, |p| p.starts_with(&format!("{t}:blocked")));
        let arrived = wait_epoch(slot, epoch0, if pred_blocked { SHORT } else { LONG });
        let mut text = if arrived {
            format!("{}@{}", t, status(slot))
        } else {
            blocked.push(t);
            format!("{t}:blocked")
        };
        // previously blocked threads that go on now
        let expect_unblocked: Vec<usize> = pred
            .map(|p| p.split('+').skip(1).filter_map(|x| x.split('@').next().and_then(|n| n.parse().ok())).collect())
            .unwrap_or_default();
        let mut still = vec![];
        let mut blist = blocked.clone();
        blist.sort();
        for u in blist {
            if u == t && !arrived {
                still.push(u);
                continue;
            }
            let uslot = &slots[u];
            let e0 = {
                let st = uslot.m.lock().unwrap();
                // a blocked thread is Running; its epoch is the one of its last pause
                if st.phase == Phase::Running { Some(st.epoch) } else { None }
            };
            let moved = match e0 {
                None => true,
                Some(e) => wait_epoch(uslot, e, if expect_unblocked.contains(&u) { LONG } else { Duration::from_millis(5) }),
            };
            if moved {
                text.push_str(&format!("+{}@{}", u, status(uslot)));
            } else {
                still.push(u);
            }
        }
        *blocked = still;
        text
    };
    let mut sched_txt = vec![];
    for (i, t) in sched.iter().enumerate() {
        sched_txt.push(do_release(*t, pred_sched.get(i), &mut blocked));
    }
    // finish phase: release every unfinished, unblocked thread in id order until all are done
    let mut fin_txt = vec![];
    let mut rounds = 0;
    let mut fi = 0;
    loop {
        let all_done = slots.iter().all(|s| s.m.lock().unwrap().phase == Phase::Done);
        if all_done || rounds >= 50 {
            break;
        }
        rounds += 1;
        for t in 0..slots.len() {
            let done = slots[t].m.lock().unwrap().phase == Phase::Done;
            if !done && !blocked.contains(&t) {
                fin_txt.push(do_release(t, pred_fin.get(fi), &mut blocked));
                fi += 1;
            }
        }
    }
    let all_done = slots.iter().all(|s| s.m.lock().unwrap().phase == Phase::Done);
    if !all_done {
        // a thread is stuck for good: report and give up on this case (threads are leaked)
        out.push_str(&format!("sched={} fin={} STUCK\n", sched_txt.join(","), fin_txt.join(",")));
        return;
    }
    for h in handles {
        let _ = h.join();
    }
    let mut line = format!("sched={} fin={}", sched_txt.join(","), fin_txt.join(","));
    let mut panicked = vec![];
    // thread results (a drop's result is filled in below from what it did)
    let mut results: Vec<String> = slots.iter().map(|s| s.m.lock().unwrap().result.clone()).collect();
    for (t, s) in slots.iter().enumerate() {
        if s.m.lock().unwrap().panicked {
            panicked.push(t.to_string());
        }
    }
    // ---- final sequential phase ----
    let mut rest: Vec<SharedObservable<Val>> = owners;
    for c in carried.lock().unwrap().drain(..) {
        if let Carry::Owner(o) = c {
            rest.push(o);
        }
    }
    if let Some(w) = worker {
        rest.push(Arc::try_unwrap(w).ok().expect("worker handle still shared"));
    }
    let live_owners = rest.len();
    let mut f1 = vec![];
    for k in 0..nsubs {
        let mut g = subs[k].lock().unwrap();
        f1.push(poll_sub(g.as_mut().unwrap(), &wakers[k]));
    }
    let notearly = live_owners == 0 || !f1.iter().any(|x| x == "N");
    // which drop thread closed the state?  closing sets the version to 0 for good, so a drop thread
    // "closed" iff the state is closed now and it was the one reaching close_meta_locked
    for (t, op) in ops.iter().enumerate() {
        if *op == "drop" && results[t] == "dropped" {
            let reached_close = sched_txt.iter().chain(fin_txt.iter()).any(|x| {
                x.split('+').any(|y| y == format!("{t}@close_meta_locked"))
            });
            results[t] = if reached_close { "true".into() } else { "false".into() };
        }
    }
    while let Some(o) = rest.pop() {
        STEP.fetch_add(1, AO::SeqCst);
        drop(o);
    }
    let mut f2 = vec![];
    for k in 0..nsubs {
        let mut g = subs[k].lock().unwrap();
        f2.push(poll_sub(g.as_mut().unwrap(), &wakers[k]));
    }
    let ended = f2.iter().all(|x| x == "N");
    let wakes: Vec<usize> = cws.iter().map(|c| c.0.lock().unwrap().len()).collect();
    let wake_ok = (0..pend).all(|k| wakes[k] >= 1);
    let mut written: Vec<u32> = vec![0];
    let mut returned: Vec<u32> = vec![];
    for (t, op) in ops.iter().enumerate() {
        let (name, a) = split_op(op);
        if name == "set" {
            written.push(a[0]);
            if let Some(v) = results[t].strip_prefix('=') {
                returned.push(v.parse().unwrap());
            }
        }
    }
    // final value: read through any subscriber (they keep the state alive)
    let final_val = subs.first().map(|s| show(s.lock().unwrap().as_ref().unwrap().get()));
    let chain_ok = match final_val {
        Some(fv) => {
            returned.push(fv);
            written.sort();
            returned.sort();
            written == returned
        }
        None => true,
    };
    for (t, r) in results.iter().enumerate() {
        line.push_str(&format!(" r{t}={r}"));
    }
    if !panicked.is_empty() {
        line.push_str(&format!(" panicked={}", panicked.join(",")));
    }
    line.push_str(&format!(
        " f1={} f2={} wakes={} ok:notearly={} ok:ended={} ok:wake={} ok:setchain={} ok:nopanic={}",
        f1.join(","),
        f2.join(","),
        wakes.iter().map(|x| x.to_string()).collect::<Vec<_>>().join(","),
        b2s(notearly),
        b2s(ended),
        b2s(wake_ok),
        b2s(chain_ok),
        b2s(panicked.is_empty())
    ));
    out.push_str(&line);
    out.push('\n');
}
