"""The quantifier domains the model and the generators were written for, re-extracted from /repo's
source on every run: the variants of VectorDiff, the mutating methods of ObservableVector and its
transaction / entries, the public methods of the observable value, the adapter types.  The
correspondence check can only compare what the generators know how to call: a new variant,
mutator or adapter would not be exercised (and is not modelled), so the property would no longer be
shown to hold for "every diff / every mutator / every adapter".  A difference from the committed
snapshot surface/expected.json is therefore reported as a violation without a failing input."""
import json
import os
import re

REPO = "/repo"
HERE = os.path.dirname(os.path.dirname(os.path.dirname(os.path.abspath(__file__))))
EXPECTED = os.path.join(HERE, "surface", "expected.json")


def _read(rel):
    try:
        return open(os.path.join(REPO, rel)).read()
    except OSError:
        return ""


def _strip_comments(src):
    src = re.sub(r"//[^\n]*", "", src)
    return re.sub(r"/\*.*?\*/", "", src, flags=re.S)


def enum_variants(rel, name):
    src = _strip_comments(_read(rel))
    m = re.search(r"pub enum %s\b[^{]*\{" % name, src)
    if not m:
        return []
    i = m.end()
    depth, j = 1, i
    while j < len(src) and depth:
        depth += {"{": 1, "}": -1}.get(src[j], 0)
        j += 1
    body = src[i:j - 1]
    out = []
    for m3 in re.finditer(r"(?:^|[,{])\s*(?:#\[[^\]]*\]\s*)*([A-Z]\w*)\s*(?=[{(,]|$)", _toplevel(body)):
        if m3.group(1) not in out:
            out.append(m3.group(1))
    return sorted(out)


def _toplevel(body):
    """body with every nested {...} / (...) group replaced by '{'"""
    out, depth = [], 0
    for ch in body:
        if ch in "{(":
            if depth == 0:
                out.append("{")
            depth += 1
        elif ch in "})":
            depth -= 1
        elif depth == 0:
            out.append(ch)
    return "".join(out)


def pub_fns(rel, receiver=None):
    """names of `pub fn` / `pub async fn` in a file; receiver = 'mut' keeps only &mut self / mut self methods"""
    src = _strip_comments(_read(rel))
    out = set()
    for m in re.finditer(r"pub(?:\([a-z]+\))?\s+(?:async\s+)?fn\s+(\w+)\s*(?:<[^(]*>)?\s*\(([^)]*)", src):
        vis = src[m.start():m.start() + 12]
        if vis.startswith("pub("):
            continue
        args = m.group(2)
        if receiver == "mut" and not re.match(r"\s*(&\s*mut\s+self|mut\s+self|this\s*:\s*&\s*mut|self\b)", args):
            continue
        out.add(m.group(1))
    return sorted(out)


def trait_fns(rel, name):
    """method names declared in the body of `pub trait <name>` (private helpers elsewhere in the file do not count)"""
    src = _strip_comments(_read(rel))
    m = re.search(r"pub trait %s\b[^{]*\{" % name, src)
    if not m:
        return []
    i = m.end()
    depth, j = 1, i
    while j < len(src) and depth:
        depth += {"{": 1, "}": -1}.get(src[j], 0)
        j += 1
    return sorted(set(re.findall(r"\bfn (\w+)\s*[<(]", src[i:j - 1])))


def pub_structs(rel):
    src = _strip_comments(_read(rel))
    return sorted(set(re.findall(r"pub struct (\w+)", src)))


def extract():
    return {
        "VectorDiff variants": enum_variants("eyeball-im/src/vector.rs", "VectorDiff"),
        "ObservableVector methods": pub_fns("eyeball-im/src/vector.rs"),
        "ObservableVectorTransaction methods": pub_fns("eyeball-im/src/vector/transaction.rs"),
        "ObservableVectorEntry methods": pub_fns("eyeball-im/src/vector/entry.rs"),
        "VectorSubscriber methods": pub_fns("eyeball-im/src/vector/subscriber.rs"),
        "Observable methods": pub_fns("eyeball/src/unique.rs"),
        "SharedObservable methods": pub_fns("eyeball/src/shared.rs"),
        "Subscriber methods": sorted(set(pub_fns("eyeball/src/subscriber.rs")) | set(pub_fns("eyeball/src/subscriber/async_lock.rs"))),
        "guard methods": sorted(set(pub_fns("eyeball/src/read_guard.rs"))),
        "adapter types": sorted(set(sum((pub_structs("eyeball-im-util/src/vector/%s.rs" % f)
                                         for f in ("head", "tail", "skip", "filter", "sort")), []))),
        "VectorObserverExt methods": trait_fns("eyeball-im-util/src/vector/traits.rs", "VectorObserverExt"),
    }


# which domains each property quantifies over
DOMAINS = {
    "C01": ["Observable methods", "SharedObservable methods", "Subscriber methods", "guard methods"],
    "C02": ["Subscriber methods"], "C03": ["SharedObservable methods"], "C04": ["Subscriber methods", "SharedObservable methods"],
    "C05": ["VectorDiff variants", "ObservableVector methods", "VectorSubscriber methods"],
    "C06": ["VectorDiff variants", "VectorSubscriber methods"],
    "C07": ["ObservableVectorTransaction methods"], "C08": ["VectorSubscriber methods"],
    "C09": ["VectorDiff variants", "adapter types"], "C10": ["VectorDiff variants", "adapter types"],
    "C11": ["VectorDiff variants", "adapter types"],
    "C12": ["adapter types", "VectorObserverExt methods"], "C13": ["adapter types", "VectorDiff variants"],
    "C14": ["adapter types"], "C15": ["VectorDiff variants"],
    "C16": ["SharedObservable methods", "Observable methods", "Subscriber methods"],
    "C17": ["ObservableVector methods", "ObservableVectorTransaction methods", "ObservableVectorEntry methods"],
    "C18": ["VectorDiff variants"], "C19": ["SharedObservable methods", "Observable methods"],
    "C20": [],
}


def check(pid):
    """returns (ok, report) - report lists, per domain, what was added / removed w.r.t. the snapshot"""
    try:
        exp = json.load(open(EXPECTED))
    except OSError:
        return False, {"problem": "surface/expected.json missing"}
    cur = extract()
    rep = {}
    for dom in DOMAINS.get(pid, []):
        a, b = set(exp.get(dom, [])), set(cur.get(dom, []))
        if a != b:
            rep[dom] = {"not modelled / not exercised (new in the source)": sorted(b - a),
                        "modelled but no longer in the source": sorted(a - b)}
    return (not rep), rep


if __name__ == "__main__":
    import sys
    if sys.argv[1:] == ["snapshot"]:
        os.makedirs(os.path.dirname(EXPECTED), exist_ok=True)
        json.dump(extract(), open(EXPECTED, "w"), indent=1, sort_keys=True)
        print("wrote", EXPECTED)
    else:
        print(json.dumps(extract(), indent=1))
