"""bin/ebv setup | check <id> [--tier quick|thorough] | replay <file> | pin"""
import json
import os
import random
import sys
import time

from . import core
from .core import log
from .props import PROPS, Stream
from . import surface


def cmd_setup():
    t0 = time.time()
    with core.Lock():
        rc, out = core.build_coq_all()
        if rc != 0:
            log(out[-6000:])
            log("setup: coq build FAILED")
            return 1
        rc, out = core.build_model()
        if rc != 0:
            log(out[-6000:])
            log("setup: model extraction / driver build FAILED")
            return 1
        rc, out = core.build_harness(False)
        if rc != 0:
            log(out[-6000:])
            log("setup: harness build FAILED")
            return 1
        if any(p.get("hook") for p in PROPS.values()):
            rc, out = core.build_harness(True)
            if rc != 0:
                log(out[-6000:])
                log("setup: hooked harness build FAILED")
                return 1
    log("setup ok in %.1fs" % (time.time() - t0))
    return 0


def cmd_pin():
    os.makedirs(os.path.join(core.COQ, "pins"), exist_ok=True)
    p = os.path.join(core.COQ, "pins", "pins.sha256")
    with open(p, "w") as f:
        f.write("# sha256 of each props/Cnn.v with comments stripped and whitespace normalised\n")
        for fn in sorted(os.listdir(os.path.join(core.COQ, "props"))):
            if fn.endswith(".v"):
                f.write("%s props/%s\n" % (core.statement_hash(os.path.join(core.COQ, "props", fn)), fn))
    log("wrote", p)
    return 0


def split_hist(case):
    """generic history shape: '<head> :: op ; op ; op'"""
    if " :: " not in case:
        return None
    head, ops = case.split(" :: ", 1)
    return head, [o for o in ops.split(" ; ") if o != ""]


def join_hist(head, ops):
    return head + " :: " + " ; ".join(ops)


def shrink(mode, case, hook, failing):
    """delta-debug the op list of a history while `failing(impl_obs)` stays true"""
    sp = split_hist(case)
    if sp is None:
        return case
    head, ops = sp
    def bad(o):
        c = join_hist(head, o)
        try:
            a = core.run_lines(core.H_BIN_HOOK if hook else core.H_BIN, mode, [c])[0]
        except Exception:
            return False
        return failing(a)
    n = 2
    budget = 400
    while len(ops) >= 2 and budget > 0:
        size = max(1, len(ops) // n)
        reduced = False
        for i in range(0, len(ops), size):
            cand = ops[:i] + ops[i + size:]
            budget -= 1
            if cand and bad(cand):
                ops = cand
                n = max(n - 1, 2)
                reduced = True
                break
        if not reduced:
            if size == 1:
                break
            n = min(len(ops), n * 2)
    return join_hist(head, ops)


def cmd_check(pid, tier):
    t0 = time.time()
    seed = int(os.environ.get("VERIF_SEED", "1"))
    rng = random.Random(seed * 1000003 + sum(map(ord, pid)))
    spec = PROPS[pid]
    hook = bool(spec.get("hook"))
    known = [k for k in core.load_known() if k["property"] == pid and k["status"] == "known"]
    known_classes = {k["class"] for k in known}
    violations = []   # (kind, replay_path, found_input)
    log("== %s tier=%s seed=%d" % (pid, tier, seed))

    # 1. proof gate
    gate = core.proof_gate(pid, tier)
    log("proof gate: %d/%d theorems discharged%s" % (gate["discharged"], gate["obligations"],
                                                    "" if gate["ok"] else "  PROBLEMS: " + "; ".join(p[:300] for p in gate["problems"])))

    # 2. builds
    build_problem = None
    with core.Lock():
        rc, out = core.build_model()
        if rc != 0:
            build_problem = "model extraction/driver build failed:\n" + out[-3000:]
        else:
            rc, out = core.build_harness(False)
            if rc != 0:
                build_problem = "harness does not build against /repo's working tree:\n" + out[-3000:]
            elif hook:
                rc, out = core.build_harness(True)
                if rc != 0:
                    build_problem = "hooked harness does not build against /repo's working tree:\n" + out[-3000:]

    streams_done = []
    if build_problem:
        log(build_problem)
        path = core.write_replay(pid, "build", {"property": pid, "what": "correspondence cannot be established",
                                                 "detail": build_problem})
        violations.append(("build", path, False))
    else:
        # 3. corpus first, then generated streams
        streams = []
        cdir = os.path.join(core.VERIF, "corpus", pid)
        if os.path.isdir(cdir):
            by_mode = {}
            for fn in sorted(os.listdir(cdir)):
                for line in open(os.path.join(cdir, fn)):
                    line = line.rstrip("\n")
                    if line and not line.startswith("#"):
                        m, c = line.split("\t", 1)
                        by_mode.setdefault(m, []).append(c)
            for m, cs in by_mode.items():
                streams.append(Stream("corpus/" + m, m, cs, lambda c, o: True, False,
                                      "committed corpus (minimised past disagreements and witnesses)", None,
                                      hook and m in ("conc", "drain")))
        streams += spec["streams"](tier, rng)
        for st in streams:
            sr = core.run_stream(st.name, st.mode, st.cases, st.nontrivial, st.hook, st.exhaustive, st.bounds,
                                 st.hist_key, st.oracles, st.mode in core.FEED_IMPL_MODES, st.project)
            streams_done.append(sr)
            unknown = []
            for (c, a, b, classes, fails) in sr.oracle_fail:
                agree = (st.project(a) == st.project(core.strip_class(b))) if st.project else (a == core.strip_class(b))
                kc = [x for x in classes if x in known_classes]
                if kc:
                    # the history contains a step of a recorded finding class: from that step on the
                    # implementation is in a state the theorems exclude, so whatever follows (including a
                    # divergence from the model, e.g. a later panic on the inconsistent buffer) belongs to it
                    for x in kc:
                        sr.known[x] = sr.known.get(x, 0) + 1
                    if not agree:
                        sr.known["(diverged after the class step)"] = sr.known.get("(diverged after the class step)", 0) + 1
                else:
                    unknown.append((c, a, b, fails))
            sr.disagree = [(c, a, b) for (c, a, b) in sr.disagree
                           if not any(x in known_classes for x in core.CLASS.findall(b))]
            log("stream %-22s mode=%-7s cases=%-7d nontrivial=%-7d disagree=%-4d oracle_fail=%-5d known=%s  %.1fs" % (
                sr.name, sr.mode, sr.n, sr.distinct_nontrivial, len(sr.disagree), len(sr.oracle_fail),
                dict(sr.known), sr.wall))
            if unknown:
                c, a, b, fails = unknown[0]
                name = fails[0]
                if st.mode in core.CHECKER_MODES or st.mode == "race":
                    # non-deterministic runs: keep the recorded observation, do not re-run
                    small = c
                    a2 = a
                    raw = getattr(sr, "raw", None)
                    b2 = "recorded history: " + raw[st.cases.index(c)] if raw else b
                else:
                    small = shrink(st.mode, c, st.hook, lambda o: ("ok:%s=0" % name) in o)
                    a2, b2 = core.run_one(st.mode, small, st.hook)
                path = core.write_replay(pid, "oracle", {
                    "property": pid, "what": "property oracle %s fails on the implementation" % name,
                    "mode": st.mode, "hook": st.hook, "case": small, "impl": a2, "model": b2,
                    "original_case": c, "count_in_stream": len(unknown), "stream": st.name,
                    "kind": "oracle", "oracles": sorted(st.oracles) if st.oracles is not None else None,
                    "project": getattr(st.project, "_name", None)})
                violations.append(("oracle", path, True))
            elif sr.disagree:
                c, a, b = sr.disagree[0]
                small = shrink(st.mode, c, st.hook, lambda o, _c=None: True) if False else c
                path = core.write_replay(pid, "disagree", {
                    "property": pid,
                    "what": "correspondence stream %s/%s no longer checks: model and implementation differ, "
                            "but the implementation-side property oracle found no failing input" % (st.name, st.mode),
                    "mode": st.mode, "hook": st.hook, "case": small, "impl": a, "model": b,
                    "count_in_stream": len(sr.disagree), "stream": st.name,
                    "kind": "disagree", "oracles": sorted(st.oracles) if st.oracles is not None else None,
                    "project": getattr(st.project, "_name", None)})
                violations.append(("disagree", path, False))

    # 3b. the quantifier domains (diff variants, mutators, adapters, methods) the model was written for
    surf_ok, surf_rep = surface.check(pid)
    if not surf_ok:
        log("surface drift: " + json.dumps(surf_rep)[:600])
        path = core.write_replay(pid, "surface", {
            "property": pid,
            "what": "the source declares items the model and the generators do not know (or no longer declares "
                    "modelled ones): the property is no longer shown to hold for every item of its domain",
            "drift": surf_rep, "snapshot": "surface/expected.json"})
        violations.append(("surface", path, False))

    if not gate["ok"]:
        path = core.write_replay(pid, "proof", {"property": pid, "what": "proof gate broken",
                                                 "theorems": gate["theorems"], "problems": gate["problems"]})
        violations.append(("proof", path, False))

    # 4. known findings: replay each committed witness on the implementation
    known_lines = []
    if not build_problem:
        for k in known:
            w = k["witness"]
            a, b = core.run_one(w["mode"], w["case"], hook and w.get("hook", False))
            still = bool(core.OK_FAIL.search(a))
            known_lines.append("KNOWN-FINDING: property=%s %s: %s%s" % (
                pid, k["class"], k["what"], "" if still else "  [witness no longer fails on this tree]"))

    # 5. verdict
    found_input = [v for v in violations if v[2]]
    wall = time.time() - t0
    core.write_evidence(pid, tier, seed, gate, streams_done, wall, len(violations),
                        spec["assumptions"], spec["trusted"],
                        extra={"known_findings_listed": [k["class"] for k in known],
                               "strength": spec.get("strength", "full")})
    for l in known_lines:
        log(l)
    if violations:
        # report input-bearing violations first
        violations.sort(key=lambda v: (not v[2],))
        for kind, path, has_input in violations:
            if has_input or found_input:
                if has_input:
                    log("VIOLATION property=%s replay=%s" % (pid, path))
            else:
                log("VIOLATION property=%s replay=%s no-failing-input-found" % (pid, path))
        log("== %s FAILED in %.1fs" % (pid, wall))
        return 1
    log("== %s ok in %.1fs" % (pid, wall))
    return 0


def cmd_replay(path):
    r = json.load(open(path))
    if "case" not in r:
        log(json.dumps(r, indent=1))
        return 1
    with core.Lock():
        core.build_model()
        core.build_harness(False)
        if r.get("hook") is True:
            core.build_harness(True)
    a, b = core.run_one(r["mode"], r["case"], r.get("hook", False))
    log("case :", r["case"])
    log("impl :", a)
    log("model:", b)
    from .props import PROJ_BY_NAME
    impl_line = a.split("   <= ")[0]          # checker modes append the raw recorded history
    fails = core.OK_FAIL.findall(impl_line)
    if r.get("oracles") is not None:
        fails = [f for f in fails if f in r["oracles"]]
    proj = PROJ_BY_NAME.get(r.get("project") or "")
    bs = core.strip_class(b)
    differ = (proj(impl_line) != proj(bs)) if proj else (impl_line != bs)
    if r.get("mode") in core.CHECKER_MODES or r.get("mode") == "race":
        log("(non-deterministic mode: the recorded observation in the replay file is the evidence; this re-run is a new sample)")
    if fails or differ:
        log("REPRODUCED (%s)" % ("oracle " + ",".join(fails) if fails else "disagreement"))
        return 1
    log("not reproduced on this tree")
    return 0


def main():
    a = sys.argv[1:]
    if not a:
        log(__doc__)
        sys.exit(2)
    if a[0] == "setup":
        sys.exit(cmd_setup())
    if a[0] == "pin":
        sys.exit(cmd_pin())
    if a[0] == "check":
        pid = a[1]
        tier = os.environ.get("VERIF_TIER", "quick")
        if "--tier" in a:
            tier = a[a.index("--tier") + 1]
        sys.exit(cmd_check(pid, tier))
    if a[0] == "all":
        # every claimed check, quick tier (or --tier), one after the other; summary at the end
        tier = a[a.index("--tier") + 1] if "--tier" in a else "quick"
        bad = []
        for pid in sorted(PROPS):
            rc = cmd_check(pid, tier)
            if rc != 0:
                bad.append(pid)
        log("ALL: %d checks, failing: %s" % (len(PROPS), bad))
        sys.exit(1 if bad else 0)
    if a[0] == "manifest":
        from . import manifest
        manifest.write()
        sys.exit(0)
    if a[0] == "replay":
        sys.exit(cmd_replay(a[1]))
    log(__doc__)
    sys.exit(2)
