"""Case generators.  Everything random derives from one random.Random(seed)."""
import itertools


def vec(l):
    return "[" + ",".join(str(x) for x in l) + "]"


def all_vecs(maxlen, values):
    for n in range(maxlen + 1):
        for t in itertools.product(values, repeat=n):
            yield list(t)


def diffs_for(length, newvals=(7,), appends=((), (7,), (7, 8)), slack=2, resets=None):
    """every diff shape with every index 0..length+slack (so out-of-range ones too)"""
    out = []
    for a in appends:
        out.append("Append" + vec(a))
    out.append("Clear")
    for x in newvals:
        out.append("PushFront(%d)" % x)
        out.append("PushBack(%d)" % x)
    out += ["PopFront", "PopBack"]
    for i in range(length + slack + 1):
        for x in newvals:
            out.append("Insert(%d,%d)" % (i, x))
            out.append("Set(%d,%d)" % (i, x))
        out.append("Remove(%d)" % i)
        out.append("Truncate(%d)" % i)
    for a in (appends if resets is None else resets):
        out.append("Reset" + vec(a))
    return out


def ok_in(d, length):
    """strict applicability (mirror of Diff.ok_in) on the textual form"""
    if d in ("PopFront", "PopBack"):
        return length > 0
    if d.startswith("Insert("):
        return int(d[7:].split(",")[0]) <= length
    if d.startswith("Set("):
        return int(d[4:].split(",")[0]) < length
    if d.startswith("Remove("):
        return int(d[7:-1]) < length
    if d.startswith("Truncate("):
        return int(d[9:-1]) < length
    return True


def rand_vec(rng, maxlen, maxval):
    return [rng.randrange(maxval) for _ in range(rng.randrange(maxlen + 1))]


def rand_diff(rng, length, maxval, valid_bias=0.9, maxapp=4):
    k = rng.randrange(11)
    x = rng.randrange(maxval)
    if rng.random() < valid_bias:
        ins = rng.randrange(length + 1)
        idx = rng.randrange(length) if length else 0
    else:
        ins = length + 1 + rng.randrange(3)
        idx = length + rng.randrange(3)
    if k == 0:
        return "Append" + vec(rand_vec(rng, maxapp, maxval))
    if k == 1:
        return "Clear"
    if k == 2:
        return "PushFront(%d)" % x
    if k == 3:
        return "PushBack(%d)" % x
    if k == 4:
        return "PopFront"
    if k == 5:
        return "PopBack"
    if k == 6:
        return "Insert(%d,%d)" % (ins, x)
    if k == 7:
        return "Set(%d,%d)" % (idx, x)
    if k == 8:
        return "Remove(%d)" % idx
    if k == 9:
        return "Truncate(%d)" % idx
    return "Reset" + vec(rand_vec(rng, maxapp, maxval))


# ---------------------------------------------------------------- C18
def c18_exhaustive(maxlen):
    cases = []
    for l in all_vecs(maxlen, (1, 2, 3)):
        for d in diffs_for(len(l)):
            for m in ("inj", "const", "par"):
                cases.append("%s %s %s" % (m, vec(l), d))
    return cases


def c18_random(rng, n):
    cases = []
    for _ in range(n):
        l = rand_vec(rng, 200 if rng.random() < 0.3 else 12, 50)
        cases.append("%s %s %s" % (rng.choice(("inj", "const", "par")), vec(l), rand_diff(rng, len(l), 50)))
    return cases
