"""Case generators.  Everything random derives from one random.Random(seed)."""
import itertools


def vec(l):
    return "[" + ",".join(str(x) for x in l) + "]"


def all_vecs(maxlen, values):
    for n in range(maxlen + 1):
        for t in itertools.product(values, repeat=n):
            yield list(t)


def diffs_for(length, newvals=(7,), appends=((), (7,), (7, 8)), slack=2, resets=None):
    """every diff shape with every index 0..length+slack (so out-of-range ones too)"""
    out = []
    for a in appends:
        out.append("Append" + vec(a))
    out.append("Clear")
    for x in newvals:
        out.append("PushFront(%d)" % x)
        out.append("PushBack(%d)" % x)
    out += ["PopFront", "PopBack"]
    for i in range(length + slack + 1):
        for x in newvals:
            out.append("Insert(%d,%d)" % (i, x))
            out.append("Set(%d,%d)" % (i, x))
        out.append("Remove(%d)" % i)
        out.append("Truncate(%d)" % i)
    for a in (appends if resets is None else resets):
        out.append("Reset" + vec(a))
    return out


def ok_in(d, length):
    """strict applicability (mirror of Diff.ok_in) on the textual form"""
    if d in ("PopFront", "PopBack"):
        return length > 0
    if d.startswith("Insert("):
        return int(d[7:].split(",")[0]) <= length
    if d.startswith("Set("):
        return int(d[4:].split(",")[0]) < length
    if d.startswith("Remove("):
        return int(d[7:-1]) < length
    if d.startswith("Truncate("):
        return int(d[9:-1]) < length
    return True


def len_after(d, length):
    """length of the vector after an applicable diff (textual form)"""
    if d in ("PopFront", "PopBack") or d.startswith("Remove("):
        return length - 1
    if d.startswith(("PushFront(", "PushBack(", "Insert(")):
        return length + 1
    if d == "Clear":
        return 0
    if d.startswith("Truncate("):
        return int(d[9:-1])
    if d.startswith(("Append[", "Reset[")):
        inner = d[d.index("[") + 1:-1]
        k = 0 if inner == "" else inner.count(",") + 1
        return k if d.startswith("Reset") else length + k
    return length


def rand_vec(rng, maxlen, maxval):
    return [rng.randrange(maxval) for _ in range(rng.randrange(maxlen + 1))]


def rand_diff(rng, length, maxval, valid_bias=0.9, maxapp=4):
    k = rng.randrange(11)
    x = rng.randrange(maxval)
    if rng.random() < valid_bias:
        ins = rng.randrange(length + 1)
        idx = rng.randrange(length) if length else 0
    else:
        ins = length + 1 + rng.randrange(3)
        idx = length + rng.randrange(3)
    if k == 0:
        return "Append" + vec(rand_vec(rng, maxapp, maxval))
    if k == 1:
        return "Clear"
    if k == 2:
        return "PushFront(%d)" % x
    if k == 3:
        return "PushBack(%d)" % x
    if k == 4:
        return "PopFront"
    if k == 5:
        return "PopBack"
    if k == 6:
        return "Insert(%d,%d)" % (ins, x)
    if k == 7:
        return "Set(%d,%d)" % (idx, x)
    if k == 8:
        return "Remove(%d)" % idx
    if k == 9:
        return "Truncate(%d)" % idx
    return "Reset" + vec(rand_vec(rng, maxapp, maxval))


# ---------------------------------------------------------------- C18
def c18_exhaustive(maxlen):
    cases = []
    for l in all_vecs(maxlen, (1, 2, 3)):
        for d in diffs_for(len(l)):
            for m in ("inj", "const", "par"):
                cases.append("%s %s %s" % (m, vec(l), d))
    return cases


def c18_random(rng, n):
    cases = []
    for _ in range(n):
        l = rand_vec(rng, 200 if rng.random() < 0.3 else 12, 50)
        cases.append("%s %s %s" % (rng.choice(("inj", "const", "par")), vec(l), rand_diff(rng, len(l), 50)))
    return cases


# ---------------------------------------------------------------- adapters (mode adapt)
def canon_vecs(maxlen):
    return [list(range(1, n + 1)) for n in range(maxlen + 1)]


def lts_single_step(kinds, maxlen, maxparam, bats=("u", "b"), include_bad=True, flavs=("static", "dyninit", "dynamic")):
    """head/tail/skip: one source diff or one parameter change from every (vector, parameter) state,
    in every flavour.  New items are 7/8; Append/Reset carry 0..3 items."""
    cases = []
    apps = ((), (7,), (7, 8), (7, 8, 9))
    for kind in kinds:
        for bat in bats:
            for l in canon_vecs(maxlen):
                n = len(l)
                ds = diffs_for(n, newvals=(7,), appends=apps, slack=1)
                for p in range(maxparam + 1):
                    for d in ds:
                        if not include_bad and not ok_in(d, n):
                            continue
                        if "static" in flavs:
                            cases.append("%s static %s %d %s :: d:%s ; D" % (kind, bat, p, vec(l), d))
                        if "dyninit" in flavs:
                            cases.append("%s dyninit %s %d %s :: d:%s ; D" % (kind, bat, p, vec(l), d))
                        if "dynamic" in flavs:
                            cases.append("%s dynamic %s - %s :: l:%d ; D ; d:%s ; D" % (kind, bat, vec(l), p, d))
                    if "dyninit" in flavs and bat == "u":
                        # a source diff, ONE poll (which may hand out the first of two diffs and park
                        # the second), a parameter change, then drain: the parked diff must come first
                        for d in ds:
                            if ok_in(d, n):
                                for q in range(maxparam + 1):
                                    if q != p:
                                        cases.append("%s dyninit u %d %s :: d:%s ; p ; l:%d ; D" % (kind, p, vec(l), d, q))
                    for q in range(maxparam + 1):
                        if "dyninit" in flavs:
                            cases.append("%s dyninit %s %d %s :: l:%d ; D" % (kind, bat, p, vec(l), q))
                        if "dynamic" in flavs:
                            cases.append("%s dynamic %s - %s :: l:%d ; D ; l:%d ; D" % (kind, bat, vec(l), p, q))
                # before the first parameter value arrives
                if "dynamic" in flavs:
                    for d in ds:
                        if ok_in(d, n):
                            cases.append("%s dynamic %s - %s :: d:%s ; D ; l:2 ; D" % (kind, bat, vec(l), d))
    return cases


def lts_param_then_diff(kinds, maxlen, maxparam, bats=("u", "b")):
    """head/tail/skip with a dynamic parameter: a parameter change (polled, so that whatever it emits - or
    nothing - has been handed out), then one applicable source diff, from every (vector, parameter) state:
    what a parameter change leaves behind in the adapter (a cached length, room, position) is used by
    the next source diff"""
    cases = []
    apps = ((7,), (7, 8, 9))
    for kind in kinds:
        for bat in bats:
            for l in canon_vecs(maxlen):
                n = len(l)
                ds = [d for d in diffs_for(n, newvals=(7,), appends=apps, slack=0) if ok_in(d, n)]
                for p in range(maxparam + 1):
                    for q in range(maxparam + 1):
                        if q == p:
                            continue
                        for d in ds:
                            cases.append("%s dyninit %s %d %s :: l:%d ; D ; d:%s ; D" % (kind, bat, p, vec(l), q, d))
    return cases


def filter_single_step(maxlen, bats=("u", "b")):
    """filter/filter_map: every pass/fail assignment of the vector's items (mask bits 0..maxlen-1);
    new items 6 (passes: bit 6 set) / 7 (fails)."""
    cases = []
    for kind in ("filter", "filter_map"):
        for bat in bats:
            for n in range(maxlen + 1):
                l = list(range(n))
                ds = []
                for a in ((), (6,), (7,), (6, 7), (7, 6), (7, 7), (6, 7, 6)):
                    ds.append("Append" + vec(a))
                    ds.append("Reset" + vec(a))
                ds += ["Clear", "PopFront", "PopBack"]
                for x in (6, 7):
                    ds += ["PushFront(%d)" % x, "PushBack(%d)" % x]
                    for i in range(n + 1):
                        ds.append("Insert(%d,%d)" % (i, x))
                    for i in range(n):
                        ds.append("Set(%d,%d)" % (i, x))
                for i in range(n):
                    ds.append("Remove(%d)" % i)
                    ds.append("Truncate(%d)" % i)
                for m in range(1 << n):
                    mask = m | (1 << 6)
                    for d in ds:
                        cases.append("%s - %s %d %s :: d:%s ; D" % (kind, bat, mask, vec(l), d))
    return cases


def _filter_diffs(n):
    ds = []
    for a in ((), (6,), (7,), (6, 7), (7, 6)):
        ds.append("Append" + vec(a))
        ds.append("Reset" + vec(a))
    ds += ["Clear", "PopFront", "PopBack"]
    for x in (6, 7):
        ds += ["PushFront(%d)" % x, "PushBack(%d)" % x]
        for i in range(n + 1):
            ds.append("Insert(%d,%d)" % (i, x))
        for i in range(n):
            ds.append("Set(%d,%d)" % (i, x))
    for i in range(n):
        ds.append("Remove(%d)" % i)
        ds.append("Truncate(%d)" % i)
    return [d for d in ds if ok_in(d, n)]


def filter_two_step(maxlen, bats=("u", "b")):
    """filter/filter_map: every pair of applicable diffs from every pass/fail assignment - the defects
    that need a stale internal index to be *used* (one diff corrupts filtered_indices / original_len,
    the next one exposes it) are deterministic here"""
    cases = []
    for kind in ("filter", "filter_map"):
        for bat in bats:
            for n in range(maxlen + 1):
                l = list(range(n))
                for m in range(1 << n):
                    mask = m | (1 << 6)
                    for d1 in _filter_diffs(n):
                        for d2 in _filter_diffs(len_after(d1, n)):
                            cases.append("%s - %s %d %s :: d:%s ; D ; d:%s ; D" % (kind, bat, mask, vec(l), d1, d2))
    return cases


def filter_multi_step(steps=4):
    """filter / filter_map: every sequence of `steps` operations over a small alphabet that works at the
    ENDS of the source (pop / push a passing or a rejected item at either end, set / remove / insert at the
    last position) from an all-passing and a mixed source: defects of a cached quantity (a length, a
    prefix count, a position) that is maintained on several paths and goes stale on one need the stale
    path AND two or three further steps before the value is used"""
    cases = []
    # mask 85 = bits 0,2,4,6: values with an even residue mod 8 pass; 8 passes, 9 is rejected
    for kind in ("filter", "filter_map"):
        for bat, src in (("u", [2, 4, 6]), ("b", [2, 3, 4])):
            def ops(n):
                o = ["PushBack(8)", "PushBack(9)", "PushFront(8)", "PushFront(9)"]
                if n > 0:
                    o += ["PopBack", "PopFront", "Set(%d,8)" % (n - 1), "Set(%d,9)" % (n - 1), "Remove(%d)" % (n - 1),
                          "Insert(%d,8)" % (n - 1)]
                return o

            def rec(prefix, n, k):
                if k == 0:
                    cases.append("%s - %s 85 %s :: %s ; D" % (kind, bat, vec(src), " ; ".join("d:" + x for x in prefix)))
                    return
                for o in ops(n):
                    rec(prefix + [o], len_after(o, n), k - 1)
            rec([], len(src), steps)
    return cases


def _sort_diffs(n):
    ds = ["Clear", "PopFront", "PopBack"]
    for a in ((), (17,), (27, 8), (8, 27)):
        ds.append("Append" + vec(a))
        ds.append("Reset" + vec(a))
    for k in (0, 1, 2):
        x = k * 10 + 7
        ds += ["PushFront(%d)" % x, "PushBack(%d)" % x]
        for i in range(n + 1):
            ds.append("Insert(%d,%d)" % (i, x))
        for i in range(n):
            ds.append("Set(%d,%d)" % (i, x))
    for i in range(n):
        ds.append("Remove(%d)" % i)
    return [d for d in ds if ok_in(d, n)]


def sort_two_step(maxlen, bats=("u", "b"), kinds=("sort", "sort_by", "sort_by_key")):
    """sort*: every pair of applicable diffs (no Truncate: known finding F6) from every key assignment"""
    cases = []
    for kind in kinds:
        for bat in bats:
            for n in range(maxlen + 1):
                for keys in itertools.product((0, 1, 2), repeat=n):
                    l = [k * 10 + i for i, k in enumerate(keys)]
                    for d1 in _sort_diffs(n):
                        n1 = len_after(d1, n)
                        for d2 in _sort_diffs(n1):
                            # second-step values must stay distinct from the first step's (items are key*10+uid)
                            d2 = d2.replace("7)", "9)").replace("[17]", "[19]").replace("[27,8]", "[29,6]").replace("[8,27]", "[6,29]")
                            cases.append("%s - %s - %s :: d:%s ; D ; d:%s ; D" % (kind, bat, vec(l), d1, d2))
    return cases


def sort_single_step(maxlen, bats=("u", "b"), kinds=("sort", "sort_by", "sort_by_key")):
    """sort*: every key assignment over {0,1,2} (all tie patterns); item = key*10 + position"""
    cases = []
    for kind in kinds:
        for bat in bats:
            for n in range(maxlen + 1):
                for keys in itertools.product((0, 1, 2), repeat=n):
                    l = [k * 10 + i for i, k in enumerate(keys)]
                    ds = ["Clear", "PopFront", "PopBack"]
                    for a in ((), (7,), (17,), (27, 8), (8, 27), (17, 7, 18), (28, 18, 8)):
                        ds.append("Append" + vec(a))
                        ds.append("Reset" + vec(a))
                    for k in (0, 1, 2):
                        x = k * 10 + 7
                        ds += ["PushFront(%d)" % x, "PushBack(%d)" % x]
                        for i in range(n + 1):
                            ds.append("Insert(%d,%d)" % (i, x))
                        for i in range(n):
                            ds.append("Set(%d,%d)" % (i, x))
                    for i in range(n):
                        ds.append("Remove(%d)" % i)
                        ds.append("Truncate(%d)" % i)
                    for d in ds:
                        if ok_in(d, n):
                            cases.append("%s - %s - %s :: d:%s ; D" % (kind, bat, vec(l), d))
    return cases


def rand_adapt_history(rng, kind, nev, fresh, bats=("u", "b"), flavs=("static", "dyninit", "dynamic"), lone_polls=True, big=False):
    """one random multi-step history.  `fresh()` yields a new element value.
    big=True: sources of 60..200 items, limits up to 260, appends of up to 70 items (beyond imbl's
    chunk size 64 and every small-scope bound used elsewhere)"""
    bat = rng.choice(bats)
    is_lts = kind in ("head", "tail", "skip")
    n0 = rng.randrange(60, 200) if big else rng.randrange(6)
    src = [fresh() for _ in range(n0)]
    maxlim = 260 if big else 8
    if is_lts:
        flav = rng.choice(flavs)
        arg = "-" if flav == "dynamic" else str(rng.randrange(maxlim))
    elif kind.startswith("filter"):
        flav, arg = "-", str(rng.randrange(256))
    else:
        flav, arg = "-", "-"
    head = "%s %s %s %s %s" % (kind, flav, bat, arg, vec(src))
    # Sort*: most histories avoid Truncate so that the known-finding class does not mask the rest
    no_trunc = kind.startswith("sort") and rng.random() < 0.7
    evs = []
    length = len(src)
    ended = False

    def one_diff():
        nonlocal length
        # mostly valid diffs; track the length
        for _ in range(20):
            k = rng.randrange(12)
            if k == 0:
                a = [fresh() for _ in range(rng.randrange(70 if big else 4))]
                length += len(a)
                return "Append" + vec(a)
            if k == 1 and rng.random() < (0.05 if big else 0.4):
                length = 0
                return "Clear"
            if k == 2:
                length += 1
                return "PushFront(%d)" % fresh()
            if k in (3, 11):
                length += 1
                return "PushBack(%d)" % fresh()
            if k == 4 and length > 0:
                length -= 1
                return "PopFront"
            if k == 5 and length > 0:
                length -= 1
                return "PopBack"
            if k == 6:
                i = rng.randrange(length + 1)
                length += 1
                return "Insert(%d,%d)" % (i, fresh())
            if k == 7 and length > 0:
                return "Set(%d,%d)" % (rng.randrange(length), fresh())
            if k == 8 and length > 0:
                i = rng.randrange(length)
                length -= 1
                return "Remove(%d)" % i
            if k == 9 and length > 0 and not no_trunc:
                n = rng.randrange(length)
                length = n
                return "Truncate(%d)" % n
            if k == 10 and rng.random() < (0.1 if big else 0.4):
                a = [fresh() for _ in range(rng.randrange(150 if big else 5))]
                length = len(a)
                return "Reset" + vec(a)
        length += 1
        return "PushBack(%d)" % fresh()

    sortk = kind.startswith("sort")
    for _ in range(nev):
        r = rng.random()
        if ended:
            break
        if r < 0.45:
            evs.append("d:" + one_diff())
            if sortk or not lone_polls or rng.random() < 0.6:
                evs.append("D")
        elif r < 0.6:
            evs.append("b:" + "|".join(one_diff() for _ in range(rng.randrange(1, 5))))
            if sortk or not lone_polls or rng.random() < 0.6:
                evs.append("D")
        elif r < 0.78 and is_lts and flav != "static":
            evs.append("l:%d" % rng.randrange(maxlim + 1))
            if rng.random() < 0.5:
                evs.append("D")
        elif r < 0.9:
            evs.append("p" if (rng.random() < 0.4 and not sortk and lone_polls) else "D")
        elif r < 0.93 and is_lts and flav != "static":
            evs.append("el")
        elif r < 0.95:
            evs.append("es")
            evs.append("D")
            ended = True
        else:
            evs.append("D")
    evs.append("D")
    return head + " :: " + " ; ".join(evs)


def adapt_quiet_bursts():
    """a long run of source updates that map to NOTHING, all available within one poll: the adapter's
    loop must keep polling its inner stream until that answers Pending (C14: a Pending answer right
    after the inner stream said Ready registers no waker anywhere), however long the run; then one
    visible update.  Runs of 1, 2, 31..34, 63..66 and 130 diffs, as single items and as one batch"""
    cases = []
    setups = [("head static %s 2 [1,2,3]", "PushBack(%d)", "PopFront"),
              ("head dyninit %s 2 [1,2,3]", "PushBack(%d)", "PopFront"),
              ("head static %s 0 [1,2,3]", "PushFront(%d)", "PopFront"),
              ("tail static %s 2 [1,2,3]", "Set(0,%d)", "PopBack"),
              ("tail dyninit %s 2 [1,2,3]", "Set(0,%d)", "PopBack"),
              ("skip static %s 200 [1,2,3]", "PushBack(%d)", "Clear"),
              ("skip dyninit %s 1 [1,2,3]", "Set(0,%d)", "PopBack"),
              ("filter - %s 0 [1,2,3]", "PushBack(%d)", "Clear"),
              ("filter_map - %s 85 [1,2,3]", "PushBack(%d)", "Clear")]
    for head, quiet, loud in setups:
        for bat in "ub":
            for n in (1, 2, 31, 32, 33, 34, 63, 64, 65, 66, 130):
                qs = [quiet % (2 * k + 1 if "filter_map" in head else k + 10) for k in range(n)]
                if "filter_map" in head:       # mask 85 passes even residues mod 8: odd values are rejected
                    pass
                for shape in ("items", "batch"):
                    src_evs = ["d:" + q for q in qs] if shape == "items" else ["b:" + "|".join(qs)]
                    for first in ("p", "D"):
                        cases.append("%s :: %s ; %s ; d:%s ; D" % (head % bat, " ; ".join(src_evs), first, loud))
    return cases


def rand_adapt(rng, kinds, n, maxev=30, **kw):
    cases = []
    for _ in range(n):
        kind = rng.choice(kinds)
        if kind.startswith("sort"):
            # distinct values so that ties are distinguishable: key*10 + uid, uid unique per key decade
            used = set()
            nkeys = 60 if kw.get("big") else 4
            def fresh():
                for _ in range(1000):
                    v = rng.randrange(nkeys) * 10 + rng.randrange(10)
                    if v not in used:
                        used.add(v)
                        return v
                v = nkeys * 10 + len(used)
                used.add(v)
                return v
        else:
            def fresh():
                return rng.randrange(40)
        cases.append(rand_adapt_history(rng, kind, rng.randrange(3, maxev), fresh, **kw))
    return cases


# ---------------------------------------------------------------- ObservableVector (mode ovec)
OVEC_ALPHA = ["push_back(7)", "push_front(8)", "pop_front", "pop_back", "insert(1,9)", "set(0,5)", "remove(0)",
              "remove(3)", "truncate(1)", "clear", "append[1,2]"]


def ovec_exhaustive(maxlen, caps, alpha=None):
    """every sequence of <= maxlen direct operations (incl. an out-of-range one and the documented no-ops)
    x start contents {[], [1,2,3]} x stream flavour x {poll after every op, drain at the end} x capacity"""
    alpha = alpha or OVEC_ALPHA
    cases = []
    for cap in caps:
        for n in range(1, maxlen + 1):
            for seq in itertools.product(alpha, repeat=n):
                for start in ("", "append[1,2,3] ; "):
                    for fl in ("p", "b"):
                        cases.append("cap=%d :: %ssub(%s) ; %s ; drain(0) ; dropvec ; drain(0)" % (
                            cap, start, fl, " ; ".join(seq)))
                        cases.append("cap=%d :: %ssub(%s) ; %s ; dropvec ; drain(0)" % (
                            cap, start, fl, " ; drain(0) ; ".join(seq) + " ; drain(0)"))
    return cases


def ovec_lag_block(caps):
    """k operations then poll, k around the (rounded) capacity, with a second subscriber created midway"""
    cases = []
    for cap in caps:
        c2 = 1
        while c2 < cap:
            c2 *= 2
        for k in range(0, c2 + 4):
            ops = ["push_back(%d)" % i for i in range(k)]
            for fl in ("p", "b"):
                for tail in ("drain(0)", "poll(0) ; drain(0)", "dropvec ; drain(0)", "poll(0) ; dropvec ; drain(0)"):
                    cases.append("cap=%d :: sub(%s) ; %s ; %s" % (cap, fl, " ; ".join(ops) if ops else "get", tail))
                    mid = k // 2
                    ops2 = ops[:mid] + ["sub(%s)" % fl] + ops[mid:]
                    cases.append("cap=%d :: sub(%s) ; %s ; drain(1) ; %s" % (cap, fl, " ; ".join(ops2), tail))
                # a transaction in the middle of the backlog (multi-diff batch)
                txn = "tb ; t.push_back(50) ; t.push_front(51) ; t.pop_back ; tc"
                cases.append("cap=%d :: sub(%s) ; %s ; %s ; poll(0) ; %s ; drain(0) ; dropvec ; drain(0)" % (
                    cap, fl, txn, " ; ".join(ops) if ops else "get", "push_back(99)"))
                cases.append("cap=%d :: sub(%s) ; %s ; poll(0) ; dropvec ; drain(0)" % (cap, fl, txn))
                # the subscriber pauses in the MIDDLE of a multi-diff batch (one or two of its diffs taken),
                # k more updates are made, the vector is dropped, and only then is the rest polled
                if k <= 3:
                    txn3 = "tb ; t.push_back(60) ; t.push_back(61) ; t.push_back(62) ; tc"
                    for taken in ("poll(0)", "poll(0) ; poll(0)"):
                        for end in ("dropvec ; drain(0)", "drain(0) ; dropvec ; drain(0)"):
                            cases.append("cap=%d :: sub(%s) ; %s ; %s ; %s ; %s" % (
                                cap, fl, txn3, taken, " ; ".join(ops) if ops else "get", end))
    return cases


TXN_ALPHA = ["t.push_back(7)", "t.push_front(8)", "t.pop_front", "t.pop_back", "t.insert(1,9)", "t.set(0,5)",
             "t.remove(0)", "t.remove(5)", "t.truncate(1)", "t.clear", "t.append[1,2]", "t.rollback",
             "t.each[s4,r]", "t.eset(0,6)", "t.eremove(1)", "dropsub(0)"]


def ovec_txn_exhaustive(maxlen, alpha=None):
    """every transaction body of <= maxlen operations, every way of ending it, 0/1/2 subscribers"""
    alpha = alpha or TXN_ALPHA
    cases = []
    for n in range(0, maxlen + 1):
        for body in itertools.product(alpha, repeat=n):
            b = " ; ".join(body)
            for nsub, subs in ((0, ""), (1, "sub(p) ; "), (2, "sub(p) ; sub(b) ; ")):
                if nsub == 0 and "dropsub(0)" in body:
                    continue
                if body.count("dropsub(0)") > 1:
                    continue
                for end in ("tc", "td", "t.rollback ; td", "t.rollback ; tc", "t.get ; td"):
                    drains = " ; ".join("drain(%d)" % k for k in range(nsub) if not (k == 0 and "dropsub(0)" in body))
                    cases.append("cap=16 :: append[1,2,3] ; %stb%s ; %s ; get%s ; push_back(99)%s" % (
                        subs, (" ; " + b) if b else "", end, (" ; " + drains) if drains else "",
                        (" ; " + drains) if drains else ""))
    return cases


TXN_ENTRY_ALPHA = ["t.set(1,5)", "t.set(0,6)", "t.eset(1,7)", "t.remove(0)", "t.pop_front", "t.push_front(8)",
                   "t.insert(0,9)", "t.eremove(0)", "t.eremove(1)", "t.each[r]", "t.each[k,r]", "t.each[s3,k,t4]"]


def ovec_txn_entries(maxlen):
    """transaction bodies mixing index-addressed sets, index shifts and entry removals (what is recorded
    into the batch when an element is replaced, moved and another one removed through its entry)"""
    cases = []
    for n in range(1, maxlen + 1):
        for body in itertools.product(TXN_ENTRY_ALPHA, repeat=n):
            b = " ; ".join(body)
            for sub in ("p", "b"):
                for end in ("tc", "td"):
                    cases.append("cap=16 :: append[1,2,3,4] ; sub(%s) ; tb ; %s ; %s ; get ; drain(0) ; push_back(99) ; drain(0)" % (sub, b, end))
    return cases


def ovec_txn_long(maxlen=5):
    """longer transaction bodies over a SMALL alphabet: the same position written more than once with the
    element behind it popped and re-pushed in between, at either end (what a batch that coalesces or
    reorders recorded diffs gets wrong); bodies of 4..maxlen operations"""
    alpha = ["t.set(2,7)", "t.set(2,8)", "t.set(0,9)", "t.pop_back", "t.push_back(5)", "t.pop_front", "t.push_front(6)"]
    cases = []
    for n in range(4, maxlen + 1):
        for body in itertools.product(alpha, repeat=n):
            # keep bodies that write some position at least twice and change the length in between
            sets = [k for k, x in enumerate(body) if x.startswith("t.set")]
            if len(sets) < 2 or not any(("pop" in x or "push" in x) for x in body[sets[0]:sets[-1]]):
                continue
            cases.append("cap=16 :: append[1,2,3] ; sub(%s) ; tb ; %s ; tc ; get ; drain(0)" % ("pb"[len(cases) % 2], " ; ".join(body)))
    return cases


def ovec_traversal_exhaustive(maxlen):
    """every decision sequence (keep / set / remove / set-then-remove / stop) over vectors of <= maxlen items,
    directly and inside a transaction; plus every index 0..len+1 for every mutator and entry()"""
    cases = []
    decs = ["k", "s9", "r", "t9", "x"]
    for n in range(0, maxlen + 1):
        start = "append%s ; " % vec(list(range(1, n + 1))) if n else ""
        for seq in itertools.product(decs, repeat=n):
            e = "each[%s]" % ",".join(seq)
            cases.append("cap=16 :: %ssub(p) ; %s ; get ; drain(0)" % (start, e))
            cases.append("cap=16 :: %ssub(b) ; tb ; t.%s ; t.get ; tc ; get ; drain(0)" % (start, e))
            cases.append("cap=16 :: %ssub(p) ; tb ; t.%s ; td ; get ; drain(0)" % (start, e))
        for i in range(0, n + 3):
            for m in ("insert(%d,9)" % i, "set(%d,9)" % i, "remove(%d)" % i, "truncate(%d)" % i,
                      "eset(%d,9)" % i, "eremove(%d)" % i):
                cases.append("cap=16 :: %ssub(p) ; %s ; get ; drain(0)" % (start, m))
                cases.append("cap=16 :: %ssub(p) ; tb ; t.%s ; t.get ; tc ; get ; drain(0)" % (start, m))
    return cases


def ovec_random(rng, n, maxops=60, lagbias=False, big=False):
    """big=True: the vector starts with 70..200 items and capacities go up to 64; half of the big
    cases hold long transactions (25..80 batched operations before the commit)"""
    cases = []
    for _ in range(n):
        cap = rng.choice((1, 2, 3, 5, 16) if lagbias else (1, 2, 3, 4, 16, 16))
        if big:
            cap = rng.choice((3, 16, 33, 64))
        pollp = rng.choice((0.2, 0.4, 0.6)) if lagbias else rng.choice((0.5, 0.8, 1.0))
        ops = []
        length = 0
        if big:
            length = rng.randrange(70, 200)
            ops.append("append" + vec([rng.randrange(30) for _ in range(length)]))
        tlen = 0
        nsubs = 0
        live = []
        if big:
            ops.append("sub(%s)" % rng.choice("pb"))
            nsubs, live = 1, [0]
        in_txn = False
        nops = rng.randrange(3, maxops)
        longtxn = big and rng.random() < 0.5
        if longtxn:
            nops = rng.randrange(40, 120)
        # cumulative thresholds inside a transaction: mutate, rollback, get, poll, dropsub, commit (else drop)
        tthr = (0.91, 0.915, 0.92, 0.965, 0.97, 0.993) if longtxn else (0.6, 0.68, 0.72, 0.8, 0.84, 0.94)

        def mut(ln):
            # returns (text, new length); mostly valid
            k = rng.randrange(13)
            x = rng.randrange(30)
            bad = rng.random() < 0.05
            if k == 0:
                a = [rng.randrange(30) for _ in range(rng.randrange(70 if big else 4))]
                return "append" + vec(a), ln + len(a)
            if k == 1 and (not big or rng.random() < 0.1):
                return "clear", 0
            if k == 2:
                return "push_front(%d)" % x, ln + 1
            if k in (3, 11, 12):
                return "push_back(%d)" % x, ln + 1
            if k == 4:
                return "pop_front", max(0, ln - 1)
            if k == 5:
                return "pop_back", max(0, ln - 1)
            if k == 6:
                i = ln + 1 + rng.randrange(2) if bad else rng.randrange(ln + 1)
                return "insert(%d,%d)" % (i, x), ln + (0 if i > ln else 1)
            if k == 7:
                i = ln + rng.randrange(2) if (bad or ln == 0) else rng.randrange(ln)
                return "set(%d,%d)" % (i, x), ln
            if k == 8:
                i = ln + rng.randrange(2) if (bad or ln == 0) else rng.randrange(ln)
                return "remove(%d)" % i, ln - (1 if i < ln else 0)
            if k == 9:
                t = rng.randrange(ln + 2)
                return "truncate(%d)" % t, min(ln, t)
            # entries
            if ln == 0 or rng.random() < 0.5:
                ds = [rng.choice(("k", "k", "s%d" % x, "r", "t%d" % x, "x")) for _ in range(rng.randrange(ln + 2))]
                # the resulting length is computed by replaying the decisions
                l2 = ln
                idx = 0
                for d in ds:
                    if idx >= l2:
                        break
                    if d == "x":
                        break
                    if d in ("r",) or d.startswith("t"):
                        l2 -= 1
                    else:
                        idx += 1
                return "each[%s]" % ",".join(ds), l2
            i = rng.randrange(ln)
            if rng.random() < 0.5:
                return "eset(%d,%d)" % (i, x), ln
            return "eremove(%d)" % i, ln - 1

        for _ in range(nops):
            r = rng.random()
            if in_txn:
                if r < tthr[0]:
                    t, tlen = mut(tlen)
                    ops.append("t." + t)
                elif r < tthr[1]:
                    ops.append("t.rollback")
                    tlen = length
                elif r < tthr[2]:
                    ops.append("t.get")
                elif r < tthr[3] and live:
                    ops.append("poll(%d)" % rng.choice(live))
                elif r < tthr[4] and live:
                    k = rng.choice(live)
                    live.remove(k)
                    ops.append("dropsub(%d)" % k)
                elif r < tthr[5]:
                    ops.append("tc")
                    length = tlen
                    in_txn = False
                else:
                    ops.append("td")
                    in_txn = False
            else:
                if longtxn and rng.random() < 0.3:
                    ops.append("tb")
                    in_txn = True
                    tlen = length
                elif r < 0.5:
                    t, length = mut(length)
                    ops.append(t)
                elif r < 0.58 and nsubs < 4:
                    ops.append("sub(%s)" % rng.choice("pb"))
                    live.append(nsubs)
                    nsubs += 1
                elif r < 0.58 + 0.25 * pollp and live:
                    ops.append(rng.choice(("poll(%d)", "drain(%d)")) % rng.choice(live))
                elif r < 0.9 and live and rng.random() < 0.15:
                    k = rng.choice(live)
                    live.remove(k)
                    ops.append("dropsub(%d)" % k)
                elif r < 0.97:
                    ops.append("tb")
                    in_txn = True
                    tlen = length
                else:
                    ops.append("get")
        if in_txn:
            ops.append(rng.choice(("tc", "td")))
        for k in live:
            if rng.random() < 0.7:
                ops.append("drain(%d)" % k)
        if rng.random() < 0.7:
            ops.append("dropvec")
            for k in live:
                ops.append("drain(%d)" % k)
        cases.append("cap=%d :: %s" % (cap, " ; ".join(ops)))
    return cases


# ---------------------------------------------------------------- observable value (mode obs)
OBS_REDUCED = ["set(11)", "set_if_not_eq(1)", "set_if_not_eq(10)", "set_if_hash_not_eq(1)", "set_if_hash_not_eq(10)",
               "update_if(11,0)", "update_if(11,1)", "take", "subscribe", "subscribe_reset", "poll(0)", "poll(1)",
               "next_now(0)", "reset(0)", "sclone(0)", "sdrop(0)", "clone", "drop_owner", "downgrade", "upgrade",
               "counts", "into_shared", "get", "drop_weak", "clone_weak"]


def obs_exhaustive(maxlen, heads=("unique", "shared", "guard"), prefixes=("", "subscribe ; poll(0) ; "), counts=True):
    cases = []
    alpha = OBS_REDUCED if counts else [o for o in OBS_REDUCED if o != "counts"]
    for head in heads:
        for pre in prefixes:
            for n in range(1, maxlen + 1):
                for seq in itertools.product(alpha, repeat=n):
                    cases.append("%s :: %s%s ; poll(0)%s" % (head, pre, " ; ".join(seq), " ; counts" if counts else ""))
    return cases


def obs_after_last_owner(maxlen, heads=("shared", "guard")):
    """handle life cycles around the death of the last owner: a subscriber and a weak reference outlive
    (or not) every handle; then every sequence of upgrades, clones, drops and counts"""
    alpha = ("upgrade", "counts", "clone", "drop_owner", "poll(0)", "clone_weak", "drop_weak", "sdrop(0)", "set(11)")
    prefixes = ("subscribe ; downgrade ; drop_owner ; ",
                "subscribe ; downgrade ; clone ; drop_owner ; drop_owner ; ",
                "downgrade ; subscribe ; poll(0) ; drop_owner ; poll(0) ; ",
                "subscribe ; downgrade ; upgrade ; drop_owner ; ")
    cases = []
    for head in heads:
        for pre in prefixes:
            for n in range(1, maxlen + 1):
                for seq in itertools.product(alpha, repeat=n):
                    cases.append("%s :: %s%s ; counts ; poll(0)" % (head, pre, " ; ".join(seq)))
    return cases


def obs_random(rng, n, heads=("unique", "shared", "guard"), minlen=10, maxlen=40, counts=True):
    cases = []
    vals = (0, 1, 10, 11, 12, 21, 22, 35)
    for _ in range(n):
        head = rng.choice(heads)
        shared = head != "unique"
        owners, weaks = 1, 0
        subs = []   # live flags
        ops = []
        for _ in range(rng.randrange(minlen, maxlen)):
            r = rng.random()
            v = rng.choice(vals)
            live = [k for k, l in enumerate(subs) if l]
            if r < 0.3:
                ops.append(rng.choice(("set(%d)" % v, "set_if_not_eq(%d)" % v, "set_if_hash_not_eq(%d)" % v, "take",
                                       "update(%d)" % v, "update_if(%d,%d)" % (v, rng.randrange(2)), "get")))
            elif r < 0.4:
                ops.append(rng.choice(("subscribe", "subscribe_reset")))
                if owners > 0:
                    subs.append(True)
            elif r < 0.75 and (live or rng.random() < 0.1):
                k = rng.choice(live) if live and rng.random() < 0.95 else rng.randrange(len(subs) + 1)
                o = rng.choice(("poll", "poll", "poll", "next_now", "sget", "sread", "reset", "sclone", "sclone_reset", "sdrop"))
                ops.append("%s(%d)" % (o, k))
                if k < len(subs) and subs[k]:
                    if o in ("sclone", "sclone_reset"):
                        subs.append(True)
                    if o == "sdrop":
                        subs[k] = False
            elif r < 0.97:
                o = rng.choice(("clone", "drop_owner", "downgrade", "upgrade", "drop_weak", "clone_weak", "into_shared", "counts", "counts"))
                if o == "drop_owner" and owners == 1 and rng.random() < 0.6:
                    o = "counts"       # keep most histories alive for a while
                ops.append(o)
                if o == "clone" and shared and owners > 0:
                    owners += 1
                elif o == "drop_owner" and owners > 0:
                    owners -= 1
                elif o == "downgrade" and shared and owners > 0:
                    weaks += 1
                elif o == "upgrade" and weaks > 0 and owners > 0:
                    owners += 1
                elif o == "drop_weak" and weaks > 0:
                    weaks -= 1
                elif o == "clone_weak" and weaks > 0:
                    weaks += 1
                elif o == "into_shared" and not shared and owners > 0:
                    shared = True
            else:
                ops.append("counts")
        # final: drop all owners, poll everyone
        for _ in range(owners):
            ops.append("drop_owner")
        for k, l in enumerate(subs):
            if l:
                ops.append("poll(%d)" % k)
                ops.append("sget(%d)" % k)
        if not counts:
            ops = [o for o in ops if o != "counts"]
        cases.append("%s :: %s" % (head, " ; ".join(ops)))
    return cases


# ---------------------------------------------------------------- chains (mode chain)
def chain_stage_pool():
    pool = []
    for kind in ("head", "tail", "skip"):
        for p in (0, 2, 5):
            pool.append("%s:static:%d" % (kind, p))
            pool.append("%s:dyninit:%d" % (kind, p))
            if p == 2:
                pool.append("%s:static:%d:self" % (kind, p))
                pool.append("%s:dyninit:%d:self" % (kind, p))
        pool.append("%s:dynamic:-" % kind)
        pool.append("%s:dynamic:-:self" % kind)
    for m in (85, 170, 255, 0):
        pool.append("filter:-:%d" % m)
        pool.append("filter_map:-:%d" % m)
    return pool


def chain_history(rng, stages, nev, distinct=False):
    """distinct=True: every value occurs once and no Truncate is issued (chains with a sort stage: the model
    then needs no oracle for imbl's unstable sort, and the known finding F6 is not entered)"""
    bat = rng.choice("ub")
    n0 = rng.randrange(7)
    src_len = n0
    pool = list(range(1, 400))
    rng.shuffle(pool)

    def val():
        return pool.pop() if distinct else rng.randrange(40)
    head = "%s %s" % (bat, vec([val() for _ in range(n0)]))
    evs = ["D"] if rng.random() < 0.5 else []
    dyn = [k for k, s in enumerate(stages) if s.split(":")[1] in ("dyninit", "dynamic")]
    length = src_len

    def one_diff():
        nonlocal length
        for _ in range(20):
            k = rng.randrange(12)
            x = val()
            if k == 0:
                a = [val() for _ in range(rng.randrange(4))]
                length += len(a)
                return "Append" + vec(a)
            if k == 1 and rng.random() < 0.4:
                length = 0
                return "Clear"
            if k == 2:
                length += 1
                return "PushFront(%d)" % x
            if k in (3, 11):
                length += 1
                return "PushBack(%d)" % x
            if k == 4 and length > 0:
                length -= 1
                return "PopFront"
            if k == 5 and length > 0:
                length -= 1
                return "PopBack"
            if k == 6:
                i = rng.randrange(length + 1)
                length += 1
                return "Insert(%d,%d)" % (i, x)
            if k == 7 and length > 0:
                return "Set(%d,%d)" % (rng.randrange(length), x)
            if k == 8 and length > 0:
                i = rng.randrange(length)
                length -= 1
                return "Remove(%d)" % i
            if k == 9 and length > 0 and not distinct:
                t = rng.randrange(length)
                length = t
                return "Truncate(%d)" % t
            if k == 10 and rng.random() < 0.4:
                a = [val() for _ in range(rng.randrange(5))]
                length = len(a)
                return "Reset" + vec(a)
        length += 1
        return "PushBack(1)"

    for _ in range(nev):
        r = rng.random()
        if r < 0.45:
            evs.append("d:" + one_diff())
        elif r < 0.6:
            evs.append("b:" + "|".join(one_diff() for _ in range(rng.randrange(1, 4))))
        elif r < 0.8 and dyn:
            evs.append("l%d:%d" % (rng.choice(dyn), rng.randrange(8)))
        else:
            evs.append("D")
        if rng.random() < 0.5:
            evs.append("D")
    if rng.random() < 0.3:
        evs.append("es")
    evs.append("D")
    return "%s | %s :: %s" % (head, " | ".join(stages), " ; ".join(evs))


def chain_cases(rng, all_pairs, ntriples, hist_per_chain, maxev=14):
    pool = chain_stage_pool()
    chains = []
    if all_pairs:
        for a in pool:
            for b in pool:
                if b.endswith(":self"):
                    continue          # the last stage cannot hand itself on
                chains.append([a, b])
    for _ in range(ntriples):
        a, b, c = rng.choice(pool), rng.choice(pool), rng.choice(pool)
        if c.endswith(":self"):
            c = c[:-5]
        if a.endswith(":self") and b.endswith(":self"):
            b = b[:-5]                # two consecutive self hand-overs are not exercised (see DESIGN)
        chains.append([a, b, c])
    cases = []
    for ch in chains:
        for _ in range(hist_per_chain):
            cases.append(chain_history(rng, ch, rng.randrange(2, maxev)))
    # chains with Sort at the bottom (distinct values, no Truncate)
    plain = [p for p in pool if not p.endswith(":self")]
    sort_chains = [["sort:-:0", b] for b in plain]
    for _ in range(max(1, ntriples // 4)):
        sort_chains.append(["sort:-:0", rng.choice(pool), rng.choice(plain)])
    for ch in sort_chains:
        if ch[1].endswith(":self") and len(ch) == 2:
            ch[1] = ch[1][:-5]
        for _ in range(hist_per_chain):
            cases.append(chain_history(rng, ch, rng.randrange(2, maxev), distinct=True))
    return cases


# ---------------------------------------------------------------- late hand-over (mode hand)
HAND_STAGE0 = [k + ":" + f for k in ("head", "tail", "skip") for f in ("static:2", "dyninit:2", "dynamic:-")]
HAND_STAGE1 = ["filter:-:255", "filter:-:170", "head:static:5", "skip:dynamic:-", "tail:dyninit:3"]


def hand_exhaustive(quick=True):
    """stage 0 used for a while, then handed over by itself: every applicable source diff on [1,2,3] x
    how far stage 0 is polled afterwards (not at all / one poll - a second diff of the burst may stay
    parked / drained) x an optional limit change, again followed by nothing / one poll / a drain; then
    the hand-over, a drain, one more source update and a drain"""
    src = [1, 2, 3]
    ds = [d for d in diffs_for(len(src), newvals=(7,), appends=((7, 8),), slack=0, resets=((5, 6, 7, 9),)) if ok_in(d, len(src))]
    polls = ("", "p", "D")
    cases = []
    st1s = HAND_STAGE1[:3] if quick else HAND_STAGE1
    for bat in "ub":
        for s0 in HAND_STAGE0:
            dyn = s0.split(":")[1] != "static"
            lims = [None] + ([0, 1, 3] if dyn else [])
            for s1 in st1s:
                for d in ds:
                    for p1 in polls:
                        for lim in lims:
                            for p2 in (polls if lim is not None else ("",)):
                                for first in ([["l0:2"], []] if s0.endswith("dynamic:-") else [[]]):
                                    evs = list(first) + ["d:" + d] + ([p1] if p1 else [])
                                    if lim is not None:
                                        evs += ["l0:%d" % lim] + ([p2] if p2 else [])
                                    n = len_after(d, len(src))
                                    evs += ["H", "D", "d:PushBack(4)", "D"]
                                    if n > 0:
                                        evs += ["d:Remove(0)", "D"]
                                    cases.append("%s %s | %s | %s :: %s" % (bat, vec(src), s0, s1, " ; ".join(evs)))
    return cases


def hand_three(quick=True):
    """two by-itself hand-overs in a row (adapter over adapter over adapter, unbatched): stage 0 gets a
    source update and is polled not at all / once / to the end, is handed to stage 1 (head/tail/skip),
    which - possibly still holding the rest of stage 0's burst below it - gets the same treatment and is
    handed to stage 2"""
    src = [1, 2, 3]
    ds = ["PopFront", "PushFront(7)", "Remove(0)", "Insert(0,7)", "Append[7,8]", "Reset[5,6,7,9]", "Truncate(1)"]
    polls = ("", "p", "D")
    st1s = ["head:dyninit:2", "tail:dynamic:-", "skip:dyninit:1"]
    st2s = ["filter:-:255"] if quick else ["filter:-:255", "head:static:5", "filter:-:170"]
    cases = []
    for bat, s0 in [(b, x) for b in "ub" for x in HAND_STAGE0]:
        for s1 in st1s:
            for s2 in st2s:
                for d1 in (ds if bat == "u" else ds[:4]):
                    n1 = len_after(d1, len(src))
                    for p1 in polls:
                        for d2 in ds:
                            if not ok_in(d2, n1):
                                continue
                            for p2 in polls:
                                evs = (["l0:2"] if s0.endswith("dynamic:-") else []) + ["d:" + d1] + ([p1] if p1 else []) + ["H"]
                                if s1.endswith("dynamic:-"):
                                    evs.append("l1:2")
                                evs += ["d:" + d2] + ([p2] if p2 else []) + ["H", "D", "d:PushBack(4)", "D"]
                                cases.append("%s %s | %s | %s | %s :: %s" % (bat, vec(src), s0, s1, s2, " ; ".join(evs)))
    return cases


def hand_random(rng, n):
    cases = []
    for _ in range(n):
        bat = rng.choice("ub")
        s0 = rng.choice(HAND_STAGE0).replace(":2", ":%d" % rng.randrange(5))
        s1 = rng.choice(HAND_STAGE1 + ["filter_map:-:85", "skip:static:1", "head:dyninit:2", "tail:dynamic:-"])
        n0 = rng.randrange(6)
        length = n0
        src = [rng.randrange(40) for _ in range(n0)]
        dyn0 = s0.split(":")[1] != "static"
        dyn1 = s1.split(":")[1] in ("dyninit", "dynamic")

        def one_diff():
            nonlocal length
            for _ in range(30):
                d = rand_diff(rng, length, 40, valid_bias=1.0, maxapp=3)
                if ok_in(d, length):
                    length = len_after(d, length)
                    return d
            length += 1
            return "PushBack(1)"

        def block(k, after):
            evs = []
            for _ in range(k):
                r = rng.random()
                if r < 0.4:
                    evs.append("d:" + one_diff())
                elif r < 0.55:
                    evs.append("b:" + "|".join(one_diff() for _ in range(rng.randrange(2, 4))))
                elif r < 0.7 and dyn0:
                    evs.append("l0:%d" % rng.randrange(7))
                elif r < 0.8 and dyn1 and after:
                    evs.append("l1:%d" % rng.randrange(7))
                elif r < 0.9 and not after:
                    evs.append("p")
                else:
                    evs.append("D")
            return evs
        evs = block(rng.randrange(0, 8), False) + ["H"] + block(rng.randrange(1, 7), True)
        stages = "%s | %s" % (s0, s1)
        if s1.split(":")[0] in ("head", "tail", "skip") and rng.random() < 0.6:
            # a second hand-over: single polls of the two-stage stack first (lazy pulls through both levels)
            mid = []
            for _ in range(rng.randrange(0, 5)):
                r = rng.random()
                mid.append("d:" + one_diff() if r < 0.5 else ("p" if r < 0.8 else ("l1:%d" % rng.randrange(6) if dyn1 else "p")))
            s2 = rng.choice(["filter:-:255", "filter:-:170", "head:static:3", "skip:static:1", "filter_map:-:85"])
            evs += mid + ["H"] + [e for e in block(rng.randrange(1, 6), True)]
            stages += " | " + s2
        if rng.random() < 0.2:
            evs.append("es")
        evs.append("D")
        cases.append("%s %s | %s :: %s" % (bat, vec(src), stages, " ; ".join(evs)))
    return cases


# ---------------------------------------------------------------- the three crates together (mode full)
def _full_mut(rng, length):
    """one applicable (mostly) direct call in ovec syntax, and the new length"""
    for _ in range(30):
        k = rng.randrange(11)
        x = rng.randrange(40)
        if k == 0:
            a = [rng.randrange(40) for _ in range(rng.randrange(1, 4))]
            return "append" + vec(a), length + len(a)
        if k == 1 and rng.random() < 0.3:
            return "clear", 0
        if k == 2:
            return "push_front(%d)" % x, length + 1
        if k in (3, 10):
            return "push_back(%d)" % x, length + 1
        if k == 4 and length > 0:
            return "pop_front", length - 1
        if k == 5 and length > 0:
            return "pop_back", length - 1
        if k == 6:
            return "insert(%d,%d)" % (rng.randrange(length + 1), x), length + 1
        if k == 7 and length > 0:
            return "set(%d,%d)" % (rng.randrange(length), x), length
        if k == 8 and length > 0:
            return "remove(%d)" % rng.randrange(length), length - 1
        if k == 9 and length > 0:
            t = rng.randrange(length)
            return "truncate(%d)" % t, t
    return "push_back(1)", length + 1


def _full_lim(rng, silent_ok):
    r = rng.random()
    n = rng.randrange(7)
    if r < 0.45:
        return "L.set(%d)" % n
    if r < 0.6:
        return "L.setne(%d)" % n
    if r < 0.7:
        return "L.sethash(%d)" % n
    if r < 0.85:
        return "L.update(%d)" % n
    return "L.updif(%d,%d)" % (n, 1 if (not silent_ok or rng.random() < 0.7) else 0)


def full_exhaustive(maxlen=3):
    """after `append[1,2,3,4] ; A ; D`: every sequence of <= maxlen events over a small alphabet of vector
    calls, limit calls and single polls, then a drain; both adapters, both observable kinds, capacities
    1 (every second update lags) and 16"""
    alpha = ["push_back(9)", "pop_front", "insert(1,8)", "remove(0)", "clear", "L.set(0)", "L.set(1)", "L.set(5)",
             "L.setne(2)", "L.updif(3,0)", "L.update(3)", "P", "L.drop", "dropvec", "tb ; t.push_front(7) ; t.pop_back ; tc"]
    cases = []
    for kind in ("head", "skip"):
        for ok in "us":
            for cap in (1, 16):
                for fl in ("", " b"):
                    for n in range(1, maxlen + 1):
                        for seq in itertools.product(alpha, repeat=n):
                            cases.append("cap=%d %s 2 %s%s :: append[1,2,3,4] ; A ; D ; %s ; D ; push_back(6) ; L.set(4) ; D"
                                         % (cap, kind, ok, fl, " ; ".join(seq)))
    return cases


def full_random(rng, n, maxops=40):
    cases = []
    for _ in range(n):
        kind = rng.choice(("head", "skip"))
        cap = rng.choice((1, 1, 2, 3, 4, 8, 16))
        limit0 = rng.randrange(6)
        length = 0
        evs = []
        if rng.random() < 0.8:
            a = [rng.randrange(40) for _ in range(rng.randrange(1, 7))]
            evs.append("append" + vec(a))
            length = len(a)
        pre = rng.randrange(0, 4)
        attached = False
        silent_ok = rng.random() < 0.3
        nops = rng.randrange(4, maxops)
        for i in range(nops):
            if not attached and i >= pre:
                evs.append("A")
                attached = True
                continue
            r = rng.random()
            if r < 0.38:
                m, length = _full_mut(rng, length)
                evs.append(m)
            elif r < 0.46:
                body = []
                tl = length
                # now and then a LONG transaction (33..70 operations, mostly pushes at the back: for a Head
                # they map to nothing once the view is full - one poll must work through all of them)
                nbody = rng.randrange(33, 71) if rng.random() < 0.06 else rng.randrange(1, 5)
                if nbody > 30:
                    for _ in range(nbody):
                        body.append("t.push_back(%d)" % rng.randrange(40))
                        tl += 1
                for _ in range(0 if nbody > 30 else nbody):
                    m, tl = _full_mut(rng, tl)
                    body.append("t." + m)
                    if rng.random() < 0.08:
                        body.append("t.rollback")
                        tl = length
                endk = "tc" if rng.random() < 0.8 else "td"
                if endk == "tc":
                    length = tl
                evs.append("tb ; " + " ; ".join(body) + " ; " + endk)
            elif r < 0.66:
                evs.append(_full_lim(rng, silent_ok))
            elif r < 0.8:
                evs.append("P")
            elif r < 0.97:
                evs.append("D")
            elif r < 0.985:
                evs.append("L.drop")
            else:
                evs.append("dropvec")
        evs.append("D")
        cases.append("cap=%d %s %d %s%s :: %s" % (cap, kind, limit0, rng.choice("us"), rng.choice(("", " b")), " ; ".join(evs)))
    return cases


# ---------------------------------------------------------------- forced thread schedules (mode conc)
def conc_all_schedules(setup, ops, length):
    n = len(ops)
    cases = []
    for seq in itertools.product(range(n), repeat=length):
        cases.append("%s || %s || %s" % (setup, " | ".join(ops), " ".join(map(str, seq))))
    return cases


def conc_configs():
    """(setup, thread ops, schedule length that covers every thread's micro-steps)"""
    return [
        ("clones=1 subs=1 pend=0 weaks=0 fixed=1", ["poll(0)", "set(5)"], 6),
        ("clones=1 subs=1 pend=1 weaks=0 fixed=1", ["poll(0)", "set(5)"], 6),
        ("clones=1 subs=1 pend=0 weaks=0 fixed=1", ["poll(0)", "drop"], 7),
        ("clones=1 subs=2 pend=1 weaks=0 fixed=1", ["poll(1)", "drop"], 7),
        ("clones=2 subs=1 pend=1 weaks=0 fixed=1", ["drop", "drop"], 6),
        ("clones=3 subs=1 pend=1 weaks=0 fixed=1", ["drop", "drop"], 6),
        ("clones=1 subs=1 pend=1 weaks=1 fixed=1", ["drop", "upgrade"], 5),
        ("clones=2 subs=1 pend=1 weaks=1 fixed=1", ["drop", "upgrade"], 5),
        ("clones=2 subs=1 pend=0 weaks=0 fixed=1", ["set(5)", "drop"], 5),
        ("clones=1 subs=1 pend=0 weaks=0 fixed=1", ["set(5)", "set(6)"], 4),
        ("clones=1 subs=1 pend=1 weaks=0 fixed=1", ["set(5)", "get"], 3),
        ("clones=2 subs=1 pend=1 weaks=0 fixed=1", ["clone", "drop"], 4),
    ]


def conc_big_configs():
    return [
        ("clones=1 subs=2 pend=0 weaks=0 fixed=1", ["poll(0)", "poll(1)", "set(5)"], 9),
        ("clones=2 subs=1 pend=1 weaks=1 fixed=1", ["drop", "drop", "upgrade"], 8),
        ("clones=3 subs=1 pend=1 weaks=0 fixed=1", ["drop", "drop", "drop"], 9),
        ("clones=2 subs=2 pend=1 weaks=0 fixed=1", ["poll(0)", "set(5)", "drop"], 9),
        ("clones=2 subs=2 pend=1 weaks=1 fixed=1", ["poll(1)", "drop", "upgrade", "set(7)"], 11),
        ("clones=3 subs=2 pend=1 weaks=1 fixed=1", ["drop", "set(7)", "poll(1)", "upgrade"], 11),
        ("clones=2 subs=2 pend=2 weaks=0 fixed=1", ["set(5)", "set(6)", "get"], 5),
    ]


def conc_exhaustive():
    cases = []
    for setup, ops, ln in conc_configs():
        cases += conc_all_schedules(setup, ops, ln)
    return cases


def conc_random(rng, n):
    cases = []
    cfgs = conc_big_configs()
    for _ in range(n):
        setup, ops, ln = rng.choice(cfgs)
        seq = [rng.randrange(len(ops)) for _ in range(rng.randrange(0, ln + 1))]
        cases.append("%s || %s || %s" % (setup, " | ".join(ops), " ".join(map(str, seq))))
    return cases


# ---------------------------------------------------------------- free-running threads (mode lin)
def lin_cases(rng, n):
    cases = []
    for _ in range(n):
        nt = rng.randrange(2, 5)
        nsubs = rng.randrange(0, nt + 1)
        owner = list(range(nsubs))          # subscriber k belongs to thread k
        counter = [0]

        def fresh():
            counter[0] += 1
            return counter[0] * 10 + rng.randrange(10)     # distinct `e` parts: all values differ by eq
        sets_only = rng.random() < 0.4
        progs = []
        if rng.random() < 0.3:
            # writer(s) racing subscribers that only call next_now / poll: a value and its version must be
            # taken together
            nt = rng.randrange(2, 5)
            nsubs = nt - 1
            for t in range(nt):
                if t == nt - 1:
                    progs.append(" ; ".join("set(%d)" % fresh() for _ in range(rng.randrange(1, 4))))
                else:
                    progs.append(" ; ".join(rng.choice(("next_now(%d)", "next_now(%d)", "poll(%d)")) % t
                                            for _ in range(rng.randrange(1, 4))))
            cases.append("subs=%d || %s" % (nsubs, " | ".join(progs)))
            continue
        if rng.random() < 0.2:
            # conditional writers racing with EQUAL values (equality on v/10, hash on v%10): compare and
            # store must be one atomic step - of two concurrent set_if_not_eq(v) exactly one stores
            nt = rng.randrange(2, 4)
            e = rng.randrange(1, 9)
            for t in range(nt):
                ops = []
                for _ in range(rng.randrange(1, 4)):
                    r = rng.random()
                    if r < 0.45:
                        ops.append("set_if_not_eq(%d)" % (e * 10 + rng.randrange(3)))
                    elif r < 0.7:
                        ops.append("set_if_hash_not_eq(%d)" % (rng.randrange(1, 4) * 10 + e))
                    elif r < 0.8:
                        ops.append("take")
                    elif r < 0.9:
                        ops.append("update_if(%d,%d)" % (e * 10 + rng.randrange(3), rng.randrange(2)))
                    else:
                        ops.append("get")
                progs.append(" ; ".join(ops))
            cases.append("subs=0 || %s" % " | ".join(progs))
            continue
        for t in range(nt):
            ops = []
            made = 0          # subscribers this thread has created so far (handle t*10 + j)
            for _ in range(rng.randrange(2, 6)):
                r = rng.random()
                if not sets_only and rng.random() < 0.12:
                    if made and rng.random() < 0.6:
                        ops.append(rng.choice(("lpoll(%d)", "lnext_now(%d)")) % (t * 10 + rng.randrange(made)))
                    elif made < 3:
                        ops.append("subscribe")
                        made += 1
                    continue
                if sets_only:
                    ops.append(rng.choice(("set(%d)" % fresh(), "get", "get")) if r < 0.8 or t not in owner
                               else rng.choice(("next_now(%d)" % t, "poll(%d)" % t)))
                    continue
                if r < 0.3:
                    ops.append("set(%d)" % fresh())
                elif r < 0.4:
                    ops.append("update(%d)" % fresh())
                elif r < 0.48:
                    ops.append("set_if_not_eq(%d)" % fresh())
                elif r < 0.65:
                    ops.append("get")
                elif r < 0.8 and t in owner:
                    ops.append(rng.choice(("next_now(%d)" % t, "poll(%d)" % t)))
                elif r < 0.9:
                    ops.append("rg")
                else:
                    ops.append("wg[%s]" % ";".join(rng.choice(("set(%d)", "update(%d)")) % fresh()
                                                    for _ in range(rng.randrange(1, 3))))
            progs.append(" ; ".join(ops))
        cases.append("subs=%d || %s" % (nsubs, " | ".join(progs)))
    return cases


# ---------------------------------------------------------------- ownership (mode own)
def own_cases(rng, n):
    adapters = ["head:2", "tail:2", "skip:1", "filter", "sort", "head:3>filter", "sort>tail:2", "skip:1>head:2",
                "filter>sort", "tail:3>skip:1"]
    base = ovec_random(rng, n, maxops=40)
    cases = []
    for c in base:
        head, evs = c.split(" :: ")
        ops = []
        in_txn = False
        for o in evs.split(" ; "):
            if o == "tb":
                in_txn = True
            if o in ("tc", "td"):
                in_txn = False
            if o.startswith("sub(") and rng.random() < 0.6:
                o = "sub(%s,%s)" % (o[4], rng.choice(adapters))
            if in_txn and (o.startswith(("t.each", "t.eset", "t.eremove", "t.get"))):
                continue          # entry traversal inside a transaction: mode ovec
            if o.startswith(("eset", "eremove")):
                continue
            ops.append(o)
            r = rng.random()
            if in_txn and r < 0.15:
                # subscribers polled / dropped (sometimes all of them) while the transaction is open
                if rng.random() < 0.5:
                    ops.extend("dropsub(%d)" % k for k in range(4))
                else:
                    ops.append(rng.choice(("dropsub(%d)", "poll(%d)", "drain(%d)")) % rng.randrange(3))
            if not in_txn and r < 0.25:
                ops.append(rng.choice(("oset(%d)" % rng.randrange(30), "otake", "oupdate(%d)" % rng.randrange(30), "osub",
                                       "opoll(%d)" % rng.randrange(3), "onext(%d)" % rng.randrange(3), "oshare", "oclone",
                                       "odrop", "odropsub(%d)" % rng.randrange(3), "dropdiffs", "oweak", "oweak", "odropweak",
                                       "oupgrade", "otask(%d)" % rng.randrange(3), "otask(%d)" % rng.randrange(3), "osub")))
        if rng.random() < 0.35:
            # the observable's whole life cycle with a subscriber owned by its own waker and a weak
            # reference that may outlive the last owner
            seq = ["osub", "osub", "oshare"]
            if rng.random() < 0.5:
                seq.append("oclone")
            mid = ["oweak", "otask(%d)" % rng.randrange(2), "otask(%d)" % rng.randrange(2), "oset(%d)" % rng.randrange(30)]
            rng.shuffle(mid)
            seq += mid[:rng.randrange(2, 5)]
            seq += ["odrop", "odrop", "odrop"]
            if rng.random() < 0.3:
                seq.append("oupgrade")
            seq += ["odropweak", "odropweak"][:rng.randrange(0, 3)]
            at = rng.randrange(len(ops) + 1)
            if "tb" in ops[:at] and ("tc" not in ops[:at] and "td" not in ops[:at]):
                at = len(ops)
            # never inside an open transaction
            depth = 0
            for i, o in enumerate(ops[:at]):
                if o == "tb":
                    depth = 1
                elif o in ("tc", "td"):
                    depth = 0
            if depth:
                at = len(ops)
            ops[at:at] = seq
        if rng.random() < 0.3 and "dropvec" not in ops:
            # a plain stream left in the middle of a multi-diff batch (YieldBatch state): one or two diffs
            # of a committed transaction taken, then the stream dropped or left alone while updates go on
            k = sum(1 for o in ops if o.startswith("sub("))
            if k < 4:
                ad = rng.choice(["", "", ",head:3", ",tail:2", ",filter"])
                seq = ["sub(p%s)" % ad, "tb"] + ["t.push_back(%d)" % rng.randrange(30) for _ in range(rng.randrange(2, 5))] + ["tc"]
                seq += ["poll(%d)" % k] * rng.randrange(1, 3)
                if rng.random() < 0.6:
                    seq.append("dropsub(%d)" % k)
                seq += ["push_back(%d)" % rng.randrange(30) for _ in range(rng.randrange(0, 3))]
                ops += seq
        cases.append(head + " :: " + " ; ".join(ops))
    return cases


# ---------------------------------------------------------------- aobs (C16, guards held across calls)
# the other async writers, with values chosen so that equality (on v/10) and hash equality (on v%10) both
# hit and miss against the values stored by set(i+1) / gset / each other
AOBS_WRITERS = ["set_if_not_eq(5)", "set_if_not_eq(21)", "set_if_hash_not_eq(31)", "set_if_hash_not_eq(12)",
                "take", "update(22)", "update_if(23,0)", "update_if(24,1)"]


def aobs_exhaustive(maxlen, nsubs):
    """every history of <= maxlen calls over write/read/set/get/next/next_ref/stream/next_now plus
    gset/gdrop on the guards obtained earlier; all guards still held are dropped at the end."""
    cases = []
    base = ["write", "read", "set", "get", "subscribe"] + AOBS_WRITERS
    # subscribers 0..nsubs-1 exist from the start; index nsubs is the first one created by `subscribe`
    for k in range(nsubs + 1):
        base += ["next(%d)" % k, "next_ref(%d)" % k, "stream(%d)" % k, "next_now(%d)" % k]

    def finish(ops, wg, rg):
        tail = ["gdrop(%d)" % g for g in sorted(wg + rg)]
        cases.append("%d :: %s" % (nsubs, " ; ".join(ops + tail)))

    def rec(ops, wg, rg):
        if ops:
            finish(ops, wg, rg)
        if len(ops) == maxlen:
            return
        i = len(ops)
        for b in base:
            if b == "set":
                rec(ops + ["set(%d)" % (i + 1)], wg, rg)
            elif b == "write":
                rec(ops + [b], wg + [i], rg)
            elif b == "read":
                rec(ops + [b], wg, rg + [i])
            else:
                rec(ops + [b], wg, rg)
        for g in wg:
            rec(ops + ["gset(%d,%d)" % (g, i + 1)], wg, rg)
            rec(ops + ["gdrop(%d)" % g], [x for x in wg if x != g], rg)
        for g in rg:
            rec(ops + ["gdrop(%d)" % g], wg, [x for x in rg if x != g])

    rec([], [], [])
    return cases


def aobs_random(rng, n, minlen=8, maxlen=30):
    cases = []
    for _ in range(n):
        nsubs = rng.randrange(1, 4)
        ops, wg, rg = [], [], []
        for i in range(rng.randrange(minlen, maxlen)):
            r = rng.random()
            if r < 0.12:
                ops.append("write"); wg.append(i)
            elif r < 0.2:
                ops.append("read"); rg.append(i)
            elif r < 0.28:
                ops.append("set(%d)" % (i + 1))
            elif r < 0.36:
                v = rng.choice((0, 5, 11, 12, 21, 22, 31, i + 1))
                ops.append(rng.choice(("set_if_not_eq(%d)" % v, "set_if_not_eq(%d)" % v, "set_if_hash_not_eq(%d)" % v, "take",
                                       "update(%d)" % v, "update_if(%d,0)" % v, "update_if(%d,1)" % v)))
            elif r < 0.4:
                ops.append(rng.choice(("get", "subscribe")))
            elif r < 0.7:
                ops.append("%s(%d)" % (rng.choice(("next", "next_ref", "stream", "next_now", "next", "next_ref")), rng.randrange(nsubs + 2)))
            elif r < 0.82 and wg:
                ops.append("gset(%d,%d)" % (rng.choice(wg), i + 1))
            elif wg or rg:
                g = rng.choice(wg + rg)
                ops.append("gdrop(%d)" % g)
                wg = [x for x in wg if x != g]; rg = [x for x in rg if x != g]
            else:
                ops.append("set(%d)" % (i + 1))
        if rng.random() < 0.9:
            ops += ["gdrop(%d)" % g for g in sorted(wg + rg)]
        cases.append("%d :: %s" % (nsubs, " ; ".join(ops)))
    return cases


def aobs_sandwich(nsubs=1, quick=False):
    """write ; X ; Y ; gset ; gdrop ; Z ; W  for all calls X Y Z W: futures queued behind a held write
    guard (in both orders), an update through the guard, release, and two follow-up calls."""
    base = ["write", "read", "set(%d)", "get", "subscribe"] + AOBS_WRITERS
    for k in range(nsubs + 1):
        base += ["next(%d)" % k, "next_ref(%d)" % k, "stream(%d)" % k, "next_now(%d)" % k]
    cases = []
    after = [b for b in base if not quick or b.split("(")[0] in ("set", "get", "next", "next_ref", "stream", "next_now", "take")
             or b == "set_if_not_eq(5)"]
    for x in base:
        for y in base:
            for z in after:
                for w in after:
                    ops = ["write", x, y, "gset(0,40)", "gdrop(0)", z, w]
                    ops = [o % (i + 1) if "%d" in o and o.startswith("set(") else o for i, o in enumerate(ops)]
                    held = [i for i, o in enumerate(ops) if o in ("write", "read") and i != 0]
                    ops += ["gdrop(%d)" % g for g in held]
                    cases.append("%d :: %s" % (nsubs, " ; ".join(ops)))
    return cases


# ---------------------------------------------------------------- e2e (adapter stacks on a real ObservableVector)
def e2e_cases(rng, n, fixed_only=False):
    cases = []
    masks = (85, 170, 51, 15, 255, 0)

    def stage(first):
        kinds = ["head", "tail", "skip", "filter", "filter_map"] + (["sort"] if first else [])
        k = rng.choice(kinds)
        if k in ("filter", "filter_map"):
            return "%s:-:%d" % (k, rng.choice(masks))
        if k == "sort":
            return "sort:-:0"
        fl = "static" if fixed_only else rng.choice(("static", "static", "dyninit", "dynamic"))
        if k == "tail" and fl == "dynamic":
            fl = "dyninit"
        return "%s:%s:%d" % (k, fl, 0 if fl == "dynamic" else rng.randrange(0, 5))

    for _ in range(n):
        cap = rng.choice((1, 2, 4, 16, 16))
        init = [rng.randrange(30) for _ in range(rng.randrange(0, 6))]
        stages = [stage(True)]
        if rng.random() < 0.6:
            stages.append(stage(False))
        has_sort = any(s.startswith("sort") for s in stages)
        tail_limit = {k: int(s.split(":")[2]) for k, s in enumerate(stages) if s.startswith("tail")}
        length = len(init)
        ops = []

        def mut(ln):
            k = rng.randrange(12)
            x = rng.randrange(30)
            if k == 0:
                a = [rng.randrange(30) for _ in range(rng.randrange(4))]
                return "append" + vec(a), ln + len(a)
            if k == 1:
                return "clear", 0
            if k == 2:
                return "push_front(%d)" % x, ln + 1
            if k in (3, 10, 11):
                return "push_back(%d)" % x, ln + 1
            if k == 4:
                return "pop_front", max(0, ln - 1)
            if k == 5:
                return "pop_back", max(0, ln - 1)
            if k == 6:
                i = rng.randrange(ln + 1)
                return "insert(%d,%d)" % (i, x), ln + 1
            if k == 7 and ln > 0:
                return "set(%d,%d)" % (rng.randrange(ln), x), ln
            if k == 8 and ln > 0:
                return "remove(%d)" % rng.randrange(ln), ln - 1
            if k == 9 and not has_sort:
                t = rng.randrange(ln + 2)
                return "truncate(%d)" % t, min(ln, t)
            return "push_back(%d)" % x, ln + 1

        for _ in range(rng.randrange(4, 30)):
            r = rng.random()
            if r < 0.55:
                t, length = mut(length)
                ops.append(t)
            elif r < 0.7:
                ops.append("tb")
                tl = length
                for _ in range(rng.randrange(1, 7)):
                    if rng.random() < 0.08:
                        ops.append("t.rollback")
                        tl = length
                    else:
                        t, tl = mut(tl)
                        ops.append("t." + t)
                if rng.random() < 0.85:
                    ops.append("tc")
                    length = tl
                else:
                    ops.append("td")
            elif r < 0.78:
                dyn = [k for k, s in enumerate(stages) if s.split(":")[1] in ("dyninit", "dynamic")]
                if dyn:
                    k = rng.choice(dyn)
                    v = rng.randrange(0, 6)
                    if k in tail_limit:
                        v = tail_limit[k] + rng.randrange(0, 3)      # Tail: never decreased here (known finding F4)
                        tail_limit[k] = v
                    ops.append("l%d:%d" % (k, v))
                else:
                    ops.append("D")
            else:
                ops.append("D")
        ops.append("D")
        cases.append("cap=%d %s | %s :: %s" % (cap, vec(init), " | ".join(stages), " ; ".join(ops)))
    return cases


# ---------------------------------------------------------------- drain (polls that race the sender)
DRAIN_INJ_ALPHA = ("", "push_back(7)", "push_back(7)&push_back(8)", "push_back(7)&push_back(8)&push_back(9)",
                   "txn{push_back(5)+push_front(6)}", "dropvec", "pop_back&dropvec", "clear")


def drain_exhaustive(caps=(1, 2, 3), maxinj=3, maxbehind=None):
    """one subscriber that is `behind` messages behind when a poll starts; the poll's first `maxinj` drain
    points carry every combination of DRAIN_INJ_ALPHA; then the stream is polled until it is quiet, the vector
    is dropped and the stream polled to its end"""
    cases = []
    for cap in caps:
        for fl in "bp":
            for behind in range(0, (maxbehind if maxbehind is not None else cap + 3)):
                pre = " ; ".join("push_back(%d)" % (i + 1) for i in range(behind))
                for n in range(0, maxinj + 1):
                    for inj in itertools.product(DRAIN_INJ_ALPHA, repeat=n):
                        ops = ["sub(%s)" % fl] + ([pre] if pre else []) + ["cpoll(0)<%s>" % "|".join(inj)]
                        ops += ["poll(0)"] * 3
                        # ... and the vector is dropped (if it still exists): the stream must end on the final contents
                        ops += ["dropvec", "poll(0)", "poll(0)"]
                        cases.append("cap=%d :: %s" % (cap, " ; ".join(ops)))
    return cases


def drain_random(rng, n, maxops=30):
    """random histories; a racing poll is mostly aimed at a subscriber that has something pending (else the
    first receive attempt answers Pending and no drain point is reached); subscribers are created at top level
    only, so that their indices do not depend on how many injections a poll consumed"""
    cases = []
    for _ in range(n):
        cap = rng.choice((1, 1, 2, 3, 4, 5, 8))
        ops = []
        nsubs = 0
        live = []
        pend = {}
        length = 0
        val = [0]

        def mut(ln):
            k = rng.randrange(12)
            val[0] += 1
            x = val[0] % 40
            bad = rng.random() < 0.04
            if k == 0:
                a = [x, x + 1][:rng.randrange(3)]
                return "append" + vec(a), ln + len(a)
            if k == 1 and rng.random() < 0.4:
                return "clear", 0
            if k == 2:
                return "push_front(%d)" % x, ln + 1
            if k in (3, 10, 11, 1):
                return "push_back(%d)" % x, ln + 1
            if k == 4:
                return "pop_front", max(0, ln - 1)
            if k == 5:
                return "pop_back", max(0, ln - 1)
            if k == 6:
                i = ln + 1 if bad else rng.randrange(ln + 1)
                return "insert(%d,%d)" % (i, x), ln + (0 if i > ln else 1)
            if k == 7:
                i = ln if (bad or ln == 0) else rng.randrange(ln)
                return "set(%d,%d)" % (i, x), ln
            if k == 8:
                i = ln if (bad or ln == 0) else rng.randrange(ln)
                return "remove(%d)" % i, ln - (1 if i < ln else 0)
            t = rng.randrange(ln + 2)
            return "truncate(%d)" % t, min(ln, t)

        def vec_op(ln, polled=None, top=True):
            """one vector-side operation as text, and the new length"""
            nonlocal nsubs
            r = rng.random()
            if r < 0.62:
                return mut(ln)
            if r < 0.8:
                body = []
                l2 = ln
                for _ in range(rng.randrange(0, 4)):
                    t, l2 = mut(l2)
                    body.append(t)
                return "txn{%s}" % "+".join(body), l2
            if r < 0.88 and nsubs < 4 and top:
                live.append(nsubs)
                pend[nsubs] = 0
                nsubs += 1
                return "sub(%s)" % rng.choice("pbb"), ln
            if r < 0.91 and [k for k in live if k != polled] and top:
                k = rng.choice([k for k in live if k != polled])
                live.remove(k)
                return "dropsub(%d)" % k, ln
            if 0.91 <= r < (0.92 if top else 0.93):
                return "dropvec", ln
            return mut(ln)

        ops.append("sub(%s)" % rng.choice("pbb"))
        live.append(0)
        pend[0] = 0
        nsubs = 1
        for _ in range(rng.randrange(4, maxops)):
            r = rng.random()
            if r < 0.5 or not live:
                t, length = vec_op(length)
                ops.append(t)
                for k in live:
                    pend[k] += 1
            elif r < 0.6:
                k = rng.choice(live)
                ops.append("poll(%d)" % k)
            else:
                behind = [k for k in live if pend[k] > 0]
                k = rng.choice(behind) if behind and rng.random() < 0.85 else rng.choice(live)
                inj = []
                for _ in range(rng.randrange(0, 5)):
                    one = []
                    for _ in range(rng.choice((0, 1, 1, 1, 2, 3))):
                        t, length = vec_op(length, polled=k, top=False)
                        one.append(t)
                    inj.append("&".join(one))
                ops.append("cpoll(%d)<%s>" % (k, "|".join(inj)))
                pend[k] = 0
        for k in live:
            ops += ["poll(%d)" % k] * 3
        cases.append("cap=%d :: %s" % (cap, " ; ".join(ops)))
    return cases


# ---------------------------------------------------------------- bcast (the channel model against tokio itself)
def bcast_exhaustive(maxlen, caps=(1, 2, 3, 4, 5)):
    alpha = ("send", "sub", "recv(0)", "recv(1)", "droprx(0)", "droptx", "resub(0)")
    cases = []
    for cap in caps:
        for n in range(1, maxlen + 1):
            for seq in itertools.product(alpha, repeat=n):
                i = 0
                ops = ["sub"]
                for o in seq:
                    if o == "send":
                        i += 1
                        ops.append("send(%d)" % i)
                    else:
                        ops.append(o)
                cases.append("cap=%d :: %s ; recv(0) ; recv(0) ; recv(1)" % (cap, " ; ".join(ops)))
    return cases


def bcast_random(rng, n):
    cases = []
    for _ in range(n):
        cap = rng.choice((1, 2, 3, 4, 5, 7, 8, 9, 16, 17))
        ops = ["sub"]
        nrx = 1
        v = 0
        for _ in range(rng.randrange(5, 80)):
            r = rng.random()
            if r < 0.5:
                v += 1
                ops.append("send(%d)" % v)
            elif r < 0.8:
                ops.append("recv(%d)" % rng.randrange(nrx))
            elif r < 0.86 and nrx < 5:
                ops.append(rng.choice(("sub", "resub(%d)" % rng.randrange(nrx))))
                nrx += 1
            elif r < 0.9:
                ops.append("droprx(%d)" % rng.randrange(nrx))
            elif r < 0.92:
                ops.append("droptx")
            else:
                ops.append("count")
        for k in range(nrx):
            ops += ["recv(%d)" % k] * 3
        cases.append("cap=%d :: %s" % (cap, " ; ".join(ops)))
    return cases
