"""Orchestrator core: build, proof gate, correspondence run, verdict, evidence.

A *stream* is one block of cases of one mode: a list of case lines (one case or one
history per line).  Both runners (the Rust harness `h` linked against /repo, and the OCaml
`driver` linked against the model extracted from Coq) map each case line to exactly one
observation line.  Tokens `ok:<name>=0` in an observation are property-oracle failures;
tokens `class=<name>` (model side only) say that the case lies in a finding class defined in
Coq.
"""
import fcntl
import hashlib
import json
import os
import re
import subprocess
import sys
import time
from concurrent.futures import ThreadPoolExecutor

VERIF = os.path.dirname(os.path.dirname(os.path.dirname(os.path.abspath(__file__))))
REPO = "/repo"
CACHE = os.path.join(VERIF, ".cache")
COQ = os.path.join(VERIF, "coq")
H_BIN = os.path.join(CACHE, "target", "release", "h")
H_BIN_HOOK = os.path.join(CACHE, "target-hook", "release", "h")
H_MIRI = os.path.join(VERIF, "bin", "h-miri")


def hbin_for(hook):
    """hook: False = plain harness, True = harness built with --cfg eyeball_verif, "miri" = under miri"""
    if hook == "miri":
        return H_MIRI
    return H_BIN_HOOK if hook else H_BIN


def miri_available():
    try:
        p = subprocess.run(["cargo", "+nightly", "miri", "--version"], stdout=subprocess.PIPE, stderr=subprocess.PIPE,
                           text=True, timeout=60)
        return p.returncode == 0
    except Exception:
        return False


def miri_mark(lines):
    """a run that miri aborted (undefined behaviour, leak report) is an oracle failure"""
    return [a + " ok:miri=0" if a.startswith("RUNNER-CRASH") else a for a in lines]
DRIVER = os.path.join(CACHE, "ocaml", "driver")
NPROC = 16

FORBIDDEN = re.compile(
    r"\b(Admitted|admit|Axiom|Axioms|Parameter|Parameters|Conjecture|Conjectures|Hypothesis|"
    r"Variable|Variables|Hypotheses|Unset\s+Guard|bypass_check|type-in-type|impredicative-set|"
    r"Admit\s+Obligations|Unset\s+Positivity|Unset\s+Universe)\b"
)
# Variable/Hypothesis/Context are fine *inside* a Section; checked separately.
SECTION_OK = {"Hypothesis", "Variable", "Variables", "Hypotheses"}

ALLOWED_AXIOMS = set()  # every pinned theorem is expected to be closed


def log(*a):
    print(*a, flush=True)


def sh(cmd, cwd=None, timeout=3600, env=None, check=False):
    e = dict(os.environ)
    e.setdefault("CARGO_NET_OFFLINE", "true")
    if env:
        e.update(env)
    p = subprocess.run(cmd, cwd=cwd, shell=isinstance(cmd, str), timeout=timeout,
                       stdout=subprocess.PIPE, stderr=subprocess.STDOUT, env=e, text=True)
    if check and p.returncode != 0:
        raise RuntimeError("command failed: %s\n%s" % (cmd, p.stdout[-4000:]))
    return p.returncode, p.stdout


class Lock:
    def __init__(self, name="build"):
        os.makedirs(CACHE, exist_ok=True)
        self.path = os.path.join(CACHE, name + ".lock")

    def __enter__(self):
        self.f = open(self.path, "w")
        fcntl.flock(self.f, fcntl.LOCK_EX)

    def __exit__(self, *a):
        fcntl.flock(self.f, fcntl.LOCK_UN)
        self.f.close()


# --------------------------------------------------------------------------- builds

def coq_files():
    out = []
    for d in ("theories", "props", "extract"):
        p = os.path.join(COQ, d)
        for fn in sorted(os.listdir(p)):
            if fn.endswith(".v"):
                out.append(os.path.join(p, fn))
    return out


def ensure_coq_makefile():
    mk = os.path.join(COQ, "Makefile")
    cp = os.path.join(COQ, "_CoqProject")
    if not os.path.exists(mk) or os.path.getmtime(mk) < os.path.getmtime(cp):
        sh("coq_makefile -f _CoqProject -o Makefile", cwd=COQ, check=True)


def build_coq_all():
    ensure_coq_makefile()
    rc, out = sh("timeout 3000 make -j%d" % NPROC, cwd=COQ, timeout=3100)
    return rc, out


def build_coq_target(vo):
    ensure_coq_makefile()
    rc, out = sh("timeout 2400 make -j%d %s" % (NPROC, vo), cwd=COQ, timeout=2500)
    return rc, out


def build_model():
    """theories/*.vo needed by Extract.v -> model.ml -> driver"""
    d = os.path.join(CACHE, "ocaml")
    os.makedirs(d, exist_ok=True)
    ext = os.path.join(COQ, "extract", "Extract.v")
    srcs = [ext] + [os.path.join(VERIF, "ocaml", f) for f in sorted(os.listdir(os.path.join(VERIF, "ocaml")))
                    if f.endswith(".ml")]
    theories = [f for f in coq_files() if "/theories/" in f]
    newest = max(os.path.getmtime(f) for f in srcs + theories)
    if os.path.exists(DRIVER) and os.path.getmtime(DRIVER) >= newest:
        return 0, "driver up to date"
    # model files needed by the extraction (not the proof files): read its imports
    txt = open(ext).read()
    mods = re.findall(r"From EB Require Import ([^.]*)\.", txt)
    names = " ".join(mods).split()
    ensure_coq_makefile()
    rc, out = sh("timeout 1200 make -j%d %s" % (NPROC, " ".join("theories/%s.vo" % n for n in names)),
                 cwd=COQ, timeout=1300)
    if rc != 0:
        return rc, out
    rc, out2 = sh("timeout 600 coqc -Q %s/theories EB %s" % (COQ, ext), cwd=d, timeout=700)
    out += out2
    if rc != 0:
        return rc, out
    sh("rm -f *.cmi *.cmx *.o *.cmo", cwd=d)
    for s in srcs[1:]:
        sh(["cp", s, d], check=True)
    rc, order = sh("ocamlfind ocamldep -sort model.ml " + " ".join(os.path.basename(x) for x in srcs[1:]), cwd=d)
    mls = " ".join(f for f in order.split() if f not in ("model.ml", "model.mli"))
    rc, out3 = sh("timeout 600 ocamlfind ocamlopt -w -a -package str -linkpkg model.mli model.ml %s -o driver.new && mv driver.new driver" % mls,
                  cwd=d, timeout=700)
    return rc, out + out3


def build_harness(hook=False):
    env = {}
    cmd = "timeout 1500 cargo build --release --offline"
    if hook:
        env["RUSTFLAGS"] = "--cfg eyeball_verif"
        cmd += " --target-dir %s" % os.path.join(CACHE, "target-hook")
    lock = os.path.join(VERIF, "harness", "Cargo.lock")
    if not os.path.exists(lock):
        sh(["cp", os.path.join(REPO, "Cargo.lock"), lock])
    rc, out = sh(cmd, cwd=os.path.join(VERIF, "harness"), timeout=1600, env=env)
    return rc, out


# --------------------------------------------------------------------------- proof gate

def scan_forbidden():
    """Return list of (file, line, word) of forbidden constructs anywhere in the development."""
    bad = []
    for f in coq_files():
        depth = 0
        in_comment = 0
        for ln, line in enumerate(open(f), 1):
            # strip comments (nesting-aware, line granular is enough for our sources)
            s = ""
            i = 0
            while i < len(line):
                if line.startswith("(*", i):
                    in_comment += 1
                    i += 2
                elif line.startswith("*)", i) and in_comment:
                    in_comment -= 1
                    i += 2
                else:
                    if not in_comment:
                        s += line[i]
                    i += 1
            if re.match(r"\s*Section\b", s):
                depth += 1
            if re.match(r"\s*End\b", s) and depth > 0:
                depth -= 1
            for m in FORBIDDEN.finditer(s):
                w = m.group(1)
                if w in SECTION_OK and depth > 0:
                    continue
                bad.append((os.path.relpath(f, VERIF), ln, w))
    return bad


def pins():
    p = os.path.join(COQ, "pins", "pins.sha256")
    d = {}
    if os.path.exists(p):
        for line in open(p):
            line = line.strip()
            if line and not line.startswith("#"):
                h, name = line.split()
                d[name] = h
    return d


def statement_hash(path):
    """Hash of the props file with comments and whitespace runs normalised."""
    txt = open(path).read()
    txt = re.sub(r"\(\*.*?\*\)", "", txt, flags=re.S)
    txt = re.sub(r"\s+", " ", txt).strip()
    return hashlib.sha256(txt.encode()).hexdigest()


def proof_gate(pid, tier):
    """Returns dict(ok, obligations, discharged, theorems, problems, assumptions)."""
    res = dict(ok=False, obligations=0, discharged=0, theorems=[], problems=[], axioms=[])
    pf = os.path.join(COQ, "props", pid + ".v")
    txt = open(pf).read()
    thms = re.findall(r"^Theorem\s+(\w+)", txt, flags=re.M)
    res["theorems"] = thms
    res["obligations"] = len(thms)
    for t in thms:
        if not re.search(r"Print Assumptions\s+%s\s*\." % re.escape(t), txt):
            res["problems"].append("theorem %s has no Print Assumptions" % t)
    bad = scan_forbidden()
    for b in bad:
        res["problems"].append("forbidden construct %s at %s:%d" % (b[2], b[0], b[1]))
    want = pins().get("props/%s.v" % pid)
    got = statement_hash(pf)
    if want is None:
        res["problems"].append("no pin for props/%s.v" % pid)
    elif want != got:
        res["problems"].append("statement pin mismatch for props/%s.v" % pid)
    with Lock():
        rc, out = build_coq_target("props/%s.vo" % pid)
    if rc != 0:
        res["problems"].append("coq build of props/%s.vo failed:\n%s" % (pid, out[-3000:]))
        return res
    tmp = os.path.join(CACHE, "tmp")
    os.makedirs(tmp, exist_ok=True)
    rc, out = sh("timeout 1200 coqc -Q theories EB -Q props EBP -o %s/%s.vo props/%s.v" % (tmp, pid, pid),
                 cwd=COQ, timeout=1300)
    if rc != 0:
        res["problems"].append("coqc props/%s.v failed:\n%s" % (pid, out[-3000:]))
        return res
    # split Print Assumptions answers
    blocks = re.split(r"(?m)^(?=Closed under the global context|Axioms:)", out)
    answers = [b for b in blocks if b.startswith("Closed under") or b.startswith("Axioms:")]
    discharged = 0
    for i, t in enumerate(thms):
        if i >= len(answers):
            res["problems"].append("no assumptions report for %s" % t)
            continue
        a = answers[i]
        if a.startswith("Closed under"):
            discharged += 1
        else:
            names = re.findall(r"(?m)^(\S+)\s*:", a[len("Axioms:"):])
            extra = [n for n in names if n not in ALLOWED_AXIOMS]
            res["axioms"] += names
            if extra:
                res["problems"].append("theorem %s depends on axioms %s" % (t, extra))
            else:
                discharged += 1
    res["discharged"] = discharged
    if tier == "thorough":
        rc, out = sh("timeout 1500 coqchk -o -silent -Q theories EB -Q props EBP EBP.%s" % pid, cwd=COQ, timeout=1600)
        res["coqchk"] = out[-1500:]
        if rc != 0:
            res["problems"].append("coqchk failed:\n" + out[-2000:])
        else:
            m = re.search(r"\* Axioms:\s*(.*?)(?:\n\s*\n|\* |\Z)", out, flags=re.S)
            ax = m.group(1).strip() if m else "?"
            if ax != "<none>":
                res["problems"].append("coqchk reports axioms: " + ax)
    res["ok"] = not res["problems"] and discharged == len(thms) and len(thms) > 0
    return res


# --------------------------------------------------------------------------- running

def _run_chunk(cmd, text):
    p = subprocess.run(cmd, input=text, stdout=subprocess.PIPE, stderr=subprocess.PIPE, text=True, timeout=3000)
    return p.returncode, p.stdout, p.stderr


def run_lines(binary, mode, lines, extra_args=()):
    """Run `binary mode` over the lines in up to NPROC shards; returns list of obs lines."""
    if not lines:
        return []
    per = 3 if binary == H_MIRI else 200
    n = max(1, min(NPROC, len(lines) // per + 1))
    size = (len(lines) + n - 1) // n
    chunks = [lines[i:i + size] for i in range(0, len(lines), size)]
    with ThreadPoolExecutor(max_workers=NPROC) as ex:
        futs = [ex.submit(_run_chunk, [binary, mode, *extra_args], "\n".join(c) + "\n") for c in chunks]
        outs = [f.result() for f in futs]
    res = []
    for (rc, out, err), c in zip(outs, chunks):
        ol = out.split("\n")
        if ol and ol[-1] == "":
            ol.pop()
        if rc != 0 or len(ol) != len(c):
            # locate the failing line by running one by one from the point of divergence
            k = len(ol) if len(ol) < len(c) else 0
            res += ol[:k]
            for line in c[k:]:
                rc1, o1, e1 = _run_chunk([binary, mode, *extra_args], line + "\n")
                o1 = o1.rstrip("\n")
                if rc1 != 0 or o1 == "" or "\n" in o1:
                    res.append("RUNNER-CRASH rc=%d %s" % (rc1, (e1 or o1).strip().replace("\n", " | ")[:300]))
                else:
                    res.append(o1)
        else:
            res += ol
    return res


OK_FAIL = re.compile(r"\bok:(\w+)=0\b")
CLASS = re.compile(r"\bclass=(\w+)\b")


def strip_class(line):
    return " ".join(t for t in line.split(" ") if not t.startswith("class="))


class StreamResult:
    def __init__(self, name, mode):
        self.name = name
        self.mode = mode
        self.n = 0
        self.distinct_nontrivial = 0
        self.disagree = []      # (case, impl, model)
        self.oracle_fail = []   # (case, impl, model, classes)
        self.known = {}         # class -> count
        self.hist = {}
        self.samples = []
        self.exhaustive = False
        self.bounds = ""


def run_stream(name, mode, cases, nontrivial, hook=False, exhaustive=False, bounds="", hist_key=None,
               oracles=None, feed_impl=False, project=None):
    """cases: list of case lines.  nontrivial(case, obs)->bool."""
    sr = StreamResult(name, mode)
    sr.exhaustive = exhaustive
    sr.bounds = bounds
    hbin = hbin_for(hook)
    t0 = time.time()
    if mode in CHECKER_MODES:
        raw = run_lines(hbin, mode, cases)
        model = run_lines(DRIVER, mode, [c + "\t" + a for c, a in zip(cases, raw)])
        impl = list(model)
        sr.raw = raw
    elif mode in FEED_MODEL_MODES:
        # the implementation run is given the model's prediction (used only to choose wait times)
        model = run_lines(DRIVER, mode, cases)
        impl = run_lines(hbin, mode, [c + "\t" + m for c, m in zip(cases, model)])
    elif feed_impl:
        # the model run is given the implementation's observation (sort oracle answers)
        impl = run_lines(hbin, mode, cases)
        model = run_lines(DRIVER, mode, [c + "\t" + a for c, a in zip(cases, impl)])
    else:
        with ThreadPoolExecutor(max_workers=2) as ex:
            fi = ex.submit(run_lines, hbin, mode, cases)
            fm = ex.submit(run_lines, DRIVER, mode, cases)
            impl = fi.result()
            model = fm.result()
    if hook == "miri":
        impl = miri_mark(impl)
    sr.wall = time.time() - t0
    sr.n = len(cases)
    seen = set()
    for c, a, b in zip(cases, impl, model):
        bs = strip_class(b)
        classes = CLASS.findall(b)
        if hist_key:
            k = hist_key(c, a)
            sr.hist[k] = sr.hist.get(k, 0) + 1
        if (project(a) != project(bs)) if project else (a != bs):
            sr.disagree.append((c, a, b))
        fails = OK_FAIL.findall(a)
        if oracles is not None:
            fails = [f for f in fails if f in oracles]
        if fails:
            sr.oracle_fail.append((c, a, b, classes, fails))
        if c not in seen:
            seen.add(c)
            if nontrivial(c, a):
                sr.distinct_nontrivial += 1
    if mode in FEED_MODEL_MODES and sr.disagree:
        # forced schedules run real threads: a disagreement that does not reproduce when the very same
        # schedule is run again (twice) is a scheduling artefact of a loaded machine, not a difference
        # between model and implementation (a real difference is deterministic under a forced schedule)
        kept = []
        for (c, a, b) in sr.disagree[:50]:
            again = [run_one(mode, c, hook) for _ in range(2)]
            same = lambda x, y: (project(x) == project(strip_class(y))) if project else (x == strip_class(y))
            if all(not same(a2, b2) for (a2, b2) in again):
                kept.append((c, a, b))
            else:
                sr.transient = getattr(sr, "transient", 0) + 1
        sr.disagree = kept + sr.disagree[50:]
    step = max(1, len(cases) // 3)
    for i in range(0, len(cases), step):
        sr.samples.append({"stream": name, "case": cases[i], "impl": impl[i], "model": model[i]})
    return sr


# --------------------------------------------------------------------------- verdict / evidence

def load_known():
    p = os.path.join(VERIF, "known_findings.json")
    return json.load(open(p)).get("findings", [])


FEED_IMPL_MODES = {"adapt"}
FEED_MODEL_MODES = {"conc"}
# modes where the model side is a checker of the (non-deterministic) implementation observation:
# its verdict line replaces the implementation line for the oracle evaluation
CHECKER_MODES = {"lin"}


def run_one(mode, case, hook=False):
    if mode in CHECKER_MODES:
        a = run_lines(H_BIN_HOOK if hook else H_BIN, mode, [case])[0]
        b = run_lines(DRIVER, mode, [case + "\t" + a])[0]
        return b + "   <= " + a, b
    if mode in FEED_MODEL_MODES:
        b = run_lines(DRIVER, mode, [case])[0]
        a = run_lines(H_BIN_HOOK if hook else H_BIN, mode, [case + "\t" + b])[0]
        return a, b
    a = run_lines(hbin_for(hook), mode, [case])[0]
    if hook == "miri":
        a = miri_mark([a])[0]
    b = run_lines(DRIVER, mode, [case + "\t" + a if mode in FEED_IMPL_MODES else case])[0]
    return a, b


def write_replay(pid, kind, body):
    d = os.path.join(VERIF, "replays")
    os.makedirs(d, exist_ok=True)
    path = os.path.join(d, "%s-%s-%d.json" % (pid, kind, int(time.time() * 1000) % 10**10))
    json.dump(body, open(path, "w"), indent=1)
    return path


def write_evidence(pid, tier, seed, gate, streams, wall, violations, assumptions, trusted, extra=None):
    ev_dir = os.path.join(VERIF, "evidence")
    os.makedirs(ev_dir, exist_ok=True)
    evaluations = sum(s.n for s in streams)
    dn = sum(s.distinct_nontrivial for s in streams)
    samples = []
    for s in streams:
        samples += s.samples[:3]
    samples.append({"obligations": gate["theorems"]})
    cov = {
        "obligations": gate["obligations"],
        "discharged": gate["discharged"],
        "checker_cmd": "make -C coq props/%s.vo && coqc props/%s.v (Print Assumptions per theorem)%s" % (
            pid, pid, " && coqchk -o -silent EBP.%s" % pid if tier == "thorough" else ""),
        "trusted_base": trusted,
        "theorems": gate["theorems"],
        "axioms_reported": gate["axioms"],
        "evaluations": evaluations,
        "distinct_nontrivial": dn,
        "rule": "; ".join("%s: %s" % (s.name, s.bounds) for s in streams),
        "samples": samples,
        "traces_validated_against_impl": evaluations,
        "exhaustive": all(s.exhaustive for s in streams) if streams else False,
        "streams": [
            {"name": s.name, "mode": s.mode, "cases": s.n, "distinct_nontrivial": s.distinct_nontrivial,
             "exhaustive": s.exhaustive, "bounds": s.bounds, "disagreements": len(s.disagree),
             "oracle_failures": len(s.oracle_fail), "known_finding_hits": s.known,
             "transient_timing_disagreements": getattr(s, "transient", 0),
             "histogram": dict(sorted(s.hist.items(), key=lambda kv: -kv[1])[:40]), "wall_s": round(s.wall, 2)}
            for s in streams],
        "disagreements_checked": evaluations,
    }
    if extra:
        cov.update(extra)
    ev = {
        "property_id": pid, "tier": tier, "seed": seed, "level": "proof",
        "coverage": cov, "assumptions": assumptions, "wall_s": round(wall, 2), "violations": violations,
    }
    json.dump(ev, open(os.path.join(ev_dir, pid + ".json"), "w"), indent=1)
