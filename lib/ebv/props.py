"""Per-property configuration: which streams are run, what is trusted."""
from . import gens

KERNEL = "Coq 8.16.1 kernel (coqc; coqchk re-check in the thorough tier); no native_compute; no axioms (Print Assumptions: Closed under the global context)"
EXTRACTION = "Coq extraction with ExtrOcamlBasic only (no Extract Constant/Inductive of our own); OCaml driver ocaml/{util,driver}.ml (parser/printer)"
CORR = "correspondence check (differential): Rust harness /verif/harness linked against /repo's working tree, case generators lib/ebv/gens.py, line comparison lib/ebv/core.py"
IMBL = "imbl::Vector modelled as list (push/pop/insert/set/remove/truncate/append); not verified"


class Stream:
    def __init__(self, name, mode, cases, nontrivial, exhaustive=False, bounds="", hist_key=None, hook=False,
                 oracles=None):
        self.name, self.mode, self.cases, self.nontrivial = name, mode, cases, nontrivial
        self.exhaustive, self.bounds, self.hist_key, self.hook = exhaustive, bounds, hist_key, hook
        self.oracles = oracles


def diff_kind(case_tok):
    for k in ("Append", "Clear", "PushFront", "PushBack", "PopFront", "PopBack", "Insert", "Set", "Remove",
              "Truncate", "Reset"):
        if case_tok.startswith(k):
            return k
    return "?"


# ---------------------------------------------------------------- C18
def c18_streams(tier, rng):
    def nontriv(case, obs):
        # the diff changes the vector or panics
        return ("apply=" + case.split()[1]) not in obs.split()
    def hk(case, obs):
        return diff_kind(case.split()[2]) + ("/panic" if "apply=panic" in obs else "")
    ml = 4 if tier == "quick" else 5
    n = 3000 if tier == "quick" else 100000
    return [
        Stream("exhaustive", "diff", gens.c18_exhaustive(ml), nontriv, True,
               "all vectors of length<=%d over {1,2,3} x every diff kind with every index 0..len+2 (Append/Reset of length 0..2) x 3 mappings; non-trivial = result differs from input or panics" % ml, hk),
        Stream("random", "diff", gens.c18_random(rng, n), nontriv, False,
               "%d seeded random (vector up to 200 items, diff 90%% in range / 10%% out of range, mapping)" % n, hk),
    ]


PROPS = {
    "C18": dict(streams=c18_streams,
                level_text="Proved in Coq for all element types, mappings, vectors and diffs: apply(map f d)(map f l) = map f (apply d l) incl. the panic case, map id = id, apply panics iff insert/set/remove is out of range, and an element-wise characterisation of every diff's effect. The list model is tied to VectorDiff::{map,apply} by an exhaustive small-scope + random differential run on every check.",
                level_note="Trusted: Coq kernel; extraction (ExtrOcamlBasic); the differential harness; imbl::Vector modelled as list. No axioms.",
                trusted=[KERNEL, EXTRACTION, CORR, IMBL],
                assumptions=["imbl::Vector behaves like a list for the operations VectorDiff::apply uses (checked differentially on every case)",
                             "usize indices/lengths do not overflow"]),
}


# ---------------------------------------------------------------- adapters
SCRIPT = "adapters are driven through scripted inner / limit streams (they are generic over their input streams); the source-side stream is covered by C05-C08"
ADAPT_TRUST = [KERNEL, EXTRACTION, CORR, IMBL,
               "std VecDeque::partition_point modelled by its result on partitioned input; SmallVec/ArrayVec buffers modelled as FIFO lists (ArrayVec capacity 2 modelled as a panic beyond 2)",
               SCRIPT]
ALL_KINDS = ("head", "tail", "skip", "filter", "filter_map", "sort", "sort_by", "sort_by_key")


def adapt_nontriv(case, obs):
    # at least one diff was emitted to the consumer
    return "R:" in obs


def adapt_hist(case, obs):
    h, _, e = case.partition(" :: ")
    w = h.split()
    evs = [x for x in e.split(" ; ") if x[:2] in ("d:", "b:", "l:")]
    last = evs[-1] if evs else "-"
    k = last[:2] + (diff_kind(last[2:]) if last[:2] != "l:" else "limit")
    return "%s/%s/%s/%s%s" % (w[0], w[1], w[2], k, "/PANIC" if "PANIC" in obs else "")


def c09_streams(tier, rng):
    q = tier == "quick"
    ml, mp = (4, 6) if q else (5, 7)
    n = 4000 if q else 150000
    kinds = ("head", "tail", "skip")
    orc = {"view", "app", "end"}
    return [
        Stream("single-step", "adapt", gens.lts_single_step(kinds, ml, mp), adapt_nontriv, True,
               "head/tail/skip x {static,dyninit,dynamic} x {unbatched,batched}: source [1..n] n<=%d x limit/count 0..%d x every diff kind with every index 0..n+1 (Append/Reset of 0..3 items) and every limit/count change 0..%d -> 0..%d; every adapter state is an initial state, so this covers the whole transition function up to the bounds; non-trivial = a diff is emitted" % (ml, mp, mp, mp),
               adapt_hist, oracles=orc),
        Stream("random", "adapt", gens.rand_adapt(rng, kinds, n), adapt_nontriv, False,
               "%d seeded random histories of 3..30 events (source diffs, batches, limit changes, single polls, drains, end of source/limit stream) over scripted streams" % n,
               adapt_hist, oracles=orc),
    ]


def c10_streams(tier, rng):
    q = tier == "quick"
    ml = 4 if q else 5
    n = 4000 if q else 150000
    orc = {"view", "app", "end"}
    return [
        Stream("single-step", "adapt", gens.filter_single_step(ml), adapt_nontriv, True,
               "filter/filter_map x {unbatched,batched}: source [0..n-1] n<=%d x all 2^n pass/fail assignments x every applicable diff with passing (6) and failing (7) new items, Append/Reset with every pass/fail pattern up to 3 items" % ml,
               adapt_hist, oracles=orc),
        Stream("random", "adapt", gens.rand_adapt(rng, ("filter", "filter_map"), n), adapt_nontriv, False,
               "%d seeded random histories of 3..30 events, random 8-bit pass mask" % n, adapt_hist, oracles=orc),
    ]


def c11_streams(tier, rng):
    q = tier == "quick"
    ml = 3 if q else 4
    n = 4000 if q else 150000
    orc = {"view", "app", "end", "sortcontract"}
    return [
        Stream("single-step", "adapt", gens.sort_single_step(ml), adapt_nontriv, True,
               "sort/sort_by/sort_by_key x {unbatched,batched}: sources of n<=%d items over keys {0,1,2} (all tie patterns; item = key*10+position) x every applicable diff with new keys 0,1,2" % ml,
               adapt_hist, oracles=orc),
        Stream("random", "adapt", gens.rand_adapt(rng, ("sort", "sort_by", "sort_by_key"), n), adapt_nontriv, False,
               "%d seeded random histories of 3..30 events; items key*10+uid, all distinct" % n, adapt_hist, oracles=orc),
    ]


def c15_streams(tier, rng):
    q = tier == "quick"
    ml, mp = (4, 6) if q else (5, 7)
    n = 3000 if q else 100000
    kinds = ("head", "tail")
    return [
        Stream("single-step", "adapt", gens.lts_single_step(kinds, ml, mp, flavs=("static",)), adapt_nontriv, True,
               "head/tail with a fixed limit x {unbatched,batched}: source [1..n] n<=%d x limit 0..%d x every diff; the view length is checked after every single emitted diff" % (ml, mp),
               adapt_hist, oracles={"bound"}),
        Stream("random", "adapt", gens.rand_adapt(rng, kinds, n, flavs=("static",)), adapt_nontriv, False,
               "%d seeded random histories on fixed-limit head/tail" % n, adapt_hist, oracles={"bound"}),
    ]


def c13_streams(tier, rng):
    q = tier == "quick"
    ml, mp = (3, 4) if q else (4, 6)
    n = 4000 if q else 150000
    orc = {"samediffs", "nonemptybatch"}
    return [
        Stream("single-step-ub", "adapt",
               gens.lts_single_step(("head", "tail", "skip"), ml, mp, bats=("ub",), flavs=("static",), include_bad=False),
               adapt_nontriv, True,
               "head/tail/skip with fixed parameter: the same single-diff history on the unbatched and the batched flavour, emitted diffs compared", adapt_hist, oracles=orc),
        Stream("random-ub", "adapt",
               gens.rand_adapt(rng, ALL_KINDS, n, bats=("ub",), flavs=("static",), lone_polls=False), adapt_nontriv, False,
               "%d seeded random histories (multi-diff batches = transactions) on all eight adapters with fixed parameters, run on both flavours; per drain the flattened diffs must be equal; no empty batch" % n,
               adapt_hist, oracles=orc),
        Stream("random-b", "adapt", gens.rand_adapt(rng, ALL_KINDS, n // 2, bats=("b",)), adapt_nontriv, False,
               "%d seeded random batched histories incl. dynamic limits (one batch per limit change; no empty batch)" % (n // 2),
               adapt_hist, oracles={"nonemptybatch"}),
    ]


def c14_streams(tier, rng):
    q = tier == "quick"
    n = 6000 if q else 200000
    return [
        Stream("single-step", "adapt", gens.lts_single_step(("head", "tail", "skip"), 3, 4, include_bad=False),
               adapt_nontriv, True,
               "head/tail/skip single-step block: the poll trace of every input (which input was polled, what it answered) is compared with the model's, and at every Pending each input's stored waker must be the caller's (will_wake)",
               adapt_hist, oracles={"reg"}),
        Stream("random", "adapt", gens.rand_adapt(rng, ALL_KINDS, n), adapt_nontriv, False,
               "%d seeded random histories with single polls interleaved after arbitrary events, ends of source / limit stream" % n,
               adapt_hist, oracles={"reg"}),
    ]


PROPS.update({
    "C09": dict(streams=c09_streams, trusted=ADAPT_TRUST,
                assumptions=["the inner stream delivers diffs applicable to the source (C05/C06 for a subscriber stream, the previous stage's theorem in a chain)",
                             "usize arithmetic does not overflow", "known finding tail_shrink_over_len excluded (see known_findings.json)"],
                strength="full outside the known-finding class tail_shrink_over_len",
                level_text="Coq theorems for all element types, buffers, limits/counts and diffs: Head/Tail/Skip one-step correctness (no panic; emitted diffs applicable one by one; view = first/last/all-but-first items), every limit/count change (Tail: outside the recorded class 0<new<len<old, for which the refutation witness is proved), lifted by induction to arbitrary event sequences, plus stream end <=> source end on the poll-loop model. The models are transcriptions of handle_diff/update_limit/update_count and the poll loops; they are tied to the crate by an exhaustive single-step run from every small state plus random histories on every check.",
                level_note="Trusted: Coq kernel, extraction, harness; imbl::Vector as list; adapters driven by scripted input streams. Known finding F4 (Tail limit decrease 0<new<len<old, pinned by an existing test) is excluded from the theorem and reported as KNOWN-FINDING."),
    "C10": dict(streams=c10_streams, trusted=ADAPT_TRUST,
                assumptions=["the inner stream delivers diffs applicable to the source", "the filter function is pure (same answer for the same item)"],
                level_text="Coq theorem for every filter/partial mapping f, source and applicable diff: filter_on_diff does not panic, keeps filtered_indices/original_len exact and emits at most one diff taking filter_map f of the old source to that of the new (incl. Reset with nothing passing, after the fix), lifted to arbitrary diff sequences; stream end <=> source end. Tied to filter.rs by an exhaustive run over all pass/fail assignments of small sources plus random histories.",
                level_note="Trusted: Coq kernel, extraction, harness; imbl::Vector as list; VecDeque::partition_point by its contract on partitioned input."),
    "C11": dict(streams=c11_streams, trusted=ADAPT_TRUST + ["imbl::Vector::sort_by is an oracle: its answer is reconstructed from the implementation's output on every call, checked to be a sorted permutation of its input (ok:sortcontract) and fed to the model", "imbl::Vector::binary_search_by transcribed from imbl-5.0.0 vector/mod.rs:583-606"],
                assumptions=["the comparison is a total preorder (cmp a b = CompOpp (cmp b a), transitivity)", "imbl sort_by returns a sorted permutation (checked at run time on every call)",
                             "known finding sort_truncate_misaligned excluded"],
                strength="full outside the known-finding class sort_truncate_misaligned",
                level_text="Coq theorem for every total-preorder comparison, source, applicable diff and valid oracle answer: the sort adapter does not panic (all expect()s and len-1 are safe), its emitted diffs are applicable one by one and take the old sorted view to the new one, and the buffer invariant (indices a permutation, values linked to the source, sorted) is preserved, hence the view is a sorted permutation of the source at every quiescent point of every admissible history; Truncate is proved outside the recorded class and refuted inside it. Tied to sort.rs by an exhaustive run over all tie patterns of small sources and random histories, with the unstable sort's answers taken from the implementation.",
                level_note="Trusted: Coq kernel, extraction, harness, imbl::Vector as list, imbl sort_by as an oracle with run-time-checked contract. Known finding F6 (Truncate forwarded to the sorted view, pinned by existing tests) is excluded and reported as KNOWN-FINDING."),
    "C15": dict(streams=c15_streams, trusted=ADAPT_TRUST,
                assumptions=["the inner stream delivers diffs applicable to the source"],
                level_text="Coq theorems: for every limit, buffer and applicable diff the diffs emitted by Head and Tail, applied one at a time, never produce an intermediate view longer than the limit (apply_all_ok_bound), and the initial values respect it. Tied to head.rs/tail.rs by the C09 correspondence restricted to fixed limits, with the view length checked after every single diff on the implementation.",
                level_note="Trusted: as C09."),
    "C13": dict(streams=c13_streams, trusted=ADAPT_TRUST,
                assumptions=["fixed parameters for the batched/unbatched equality", "a source batch is one top-level operation or one committed transaction (C07)"],
                level_text="Coq theorems generic in the adapter step function: the unbatched poll loop delivers exactly the next pending diff per poll and the batched loop a non-empty prefix ending at a source-batch boundary, both measured against the same reference (flat_map of the step function over all queued source diffs), so the two flavours deliver the same diffs in the same order; empty batches are never emitted; a limit change yields exactly one batch. Tied to ops.rs and the five poll loops by running every history on both flavours of the real adapters.",
                level_note="Trusted: as C09; the theorem is about the poll-loop/container model of ops.rs."),
    "C14": dict(streams=c14_streams, trusted=ADAPT_TRUST + ["Waker identity checked with Waker::will_wake on the implementation side"],
                assumptions=["an input stream that answers Pending keeps the waker it was polled with (Stream contract; C02 for Subscriber, tokio broadcast for the vector subscriber)"],
                strength="partial: adapters' poll loops proved; the source stream's waiter list (tokio broadcast, ReusableBoxFuture) is modelled in C05-C08, not re-proved here",
                level_text="Coq theorems on the poll-loop model, generic in the adapter: a poll answers Pending only after, in that very call, the inner stream answered Pending and the limit stream answered Pending or its terminal end, with nothing deliverable left (ready buffer and queues empty); and a drained adapter stays Pending until an input has something. Tied to the five poll_next loops by comparing the complete poll trace of both inputs on every poll and checking will_wake on every stored waker.",
                level_note="Trusted: as C09, plus the Stream contract of the inputs."),
})
