"""Per-property configuration: which streams are run, what is trusted."""
from . import gens, core

KERNEL = "Coq 8.16.1 kernel (coqc; coqchk re-check in the thorough tier); no native_compute; no axioms (Print Assumptions: Closed under the global context)"
EXTRACTION = "Coq extraction with ExtrOcamlBasic only (no Extract Constant/Inductive of our own); OCaml driver ocaml/{util,driver}.ml (parser/printer)"
CORR = "correspondence check (differential): Rust harness /verif/harness linked against /repo's working tree, case generators lib/ebv/gens.py, line comparison lib/ebv/core.py"
IMBL = "imbl::Vector modelled as list (push/pop/insert/set/remove/truncate/append); not verified"


class Stream:
    def __init__(self, name, mode, cases, nontrivial, exhaustive=False, bounds="", hist_key=None, hook=False,
                 oracles=None, project=None):
        self.name, self.mode, self.cases, self.nontrivial = name, mode, cases, nontrivial
        self.exhaustive, self.bounds, self.hist_key, self.hook = exhaustive, bounds, hist_key, hook
        self.oracles = oracles
        # projection of an observation line onto the part this property speaks of: model and
        # implementation are compared on the projection only, so that a change which breaks a
        # neighbouring property (and its correspondence) does not raise an alarm here
        self.project = project


def diff_kind(case_tok):
    for k in ("Append", "Clear", "PushFront", "PushBack", "PopFront", "PopBack", "Insert", "Set", "Remove",
              "Truncate", "Reset"):
        if case_tok.startswith(k):
            return k
    return "?"


import re as _re


# ---------------------------------------------------------------- projections
PROJ_BY_NAME = {}


def _named(name, f):
    f._name = name
    PROJ_BY_NAME[name] = f
    return f


def proj_obs(kind):
    """obs mode: keep, per call, only what the property speaks of"""
    def f(line):
        out = []
        for op in line.split(" ; "):
            toks = op.split(" ")
            first = toks[0] if toks else ""
            if kind == "counts":
                out.append(first if _re.match(r"c\d+/", first) else ".")
            elif kind == "end":
                out.append(first if first in ("N", "true", "false") else ".")
            elif kind == "wake":
                out.append(("P" if first == "P" else ".") + "".join(" " + t for t in toks[1:] if t.startswith("w")))
        return " ; ".join(out)
    return _named("obs:" + kind, f)


def _diff_shape(d):
    m = _re.match(r"(Append|Reset)\[(.*)\]$", d)
    if m:
        return "%s#%d" % (m.group(1), 0 if m.group(2) == "" else m.group(2).count(",") + 1)
    m = _re.match(r"Truncate\((\d+)\)$", d)
    if m:
        return d
    return d.split("(")[0]


def proj_adapt(kind):
    """adapt mode: 'bound' keeps the length effect of every emitted diff; 'trace' keeps the poll
    results' kinds and the input-poll traces; 'shape' keeps how many diffs each item carries"""
    def one(line):
        out = []
        for ev in line.split(" ; "):
            first = ev.split(" ")[0]
            if first in (".", "") or first.startswith("init="):
                out.append(first if kind == "bound" else ".")
                continue
            parts = []
            for r in first.split("+"):
                body, _, tr = r.partition("@")
                if body.startswith("R:"):
                    ds = body[2:].split("|")
                    if kind == "bound":
                        parts.append("R:" + "|".join(_diff_shape(d) for d in ds))
                    elif kind == "shape":
                        parts.append("R%d" % len(ds))
                    else:
                        parts.append("R@" + tr)
                else:
                    parts.append(body if kind != "trace" else body + "@" + tr)
            out.append("+".join(parts))
        return " ; ".join(out)

    def f(line):
        if " || " in line:
            a, _, b = line.partition(" || ")
            b = b.split(" ok:samediffs=")[0]
            return one(a) + " || " + one(b)
        return one(line)
    return _named("adapt:" + kind, f)


def proj_chain_reg(line):
    """chain mode for C14: whether each drain ended Pending or with the end of the stream; what the
    stages emitted is C12"""
    out = []
    for ev in line.split(" ; "):
        first = ev.split(" ")[0]
        out.append(first if first in ("P", "N", "PANIC") else ".")
    return " ; ".join(out)


def proj_none(line):
    """C13: the property relates the two container flavours of the *implementation* to each other
    (oracle ok:samediffs / ok:nonemptybatch on the same history); the poll-loop / container model the
    theorems are about is the one validated line by line by C09-C12 and C14, so no separate
    model comparison is made here"""
    return ""


def proj_ovec_plain(line):
    """ovec mode for C17: return values, visited lists, contents; what subscribers receive is C05-C08"""
    out = []
    for op in line.split(" ; "):
        first = op.split(" ")[0]
        out.append("." if first[:2] in ("R:", "P", "N") or first in ("P", "N") or first.startswith(("R:", "#")) else first)
    return " ; ".join(out)


for _f in (proj_chain_reg, proj_none, proj_ovec_plain):
    _named(_f.__name__, _f)
# make sure the parameterised projections used by the streams are registered too
for _k in ("counts", "end", "wake"):
    proj_obs(_k)
for _k in ("bound", "trace", "shape"):
    proj_adapt(_k)

# ---------------------------------------------------------------- C18
def c18_streams(tier, rng):
    def nontriv(case, obs):
        # the diff changes the vector or panics
        return ("apply=" + case.split()[1]) not in obs.split()
    def hk(case, obs):
        return diff_kind(case.split()[2]) + ("/panic" if "apply=panic" in obs else "")
    ml = 4 if tier == "quick" else 5
    n = 3000 if tier == "quick" else 100000
    return [
        Stream("exhaustive", "diff", gens.c18_exhaustive(ml), nontriv, True,
               "all vectors of length<=%d over {1,2,3} x every diff kind with every index 0..len+2 (Append/Reset of length 0..2) x 3 mappings; non-trivial = result differs from input or panics" % ml, hk),
        Stream("random", "diff", gens.c18_random(rng, n), nontriv, False,
               "%d seeded random (vector up to 200 items, diff 90%% in range / 10%% out of range, mapping)" % n, hk),
    ]


PROPS = {
    "C18": dict(streams=c18_streams,
                level_text="Proved in Coq for all element types, mappings, vectors and diffs: apply(map f d)(map f l) = map f (apply d l) incl. the panic case, map id = id, apply panics iff insert/set/remove is out of range, and an element-wise characterisation of every diff's effect. The list model is tied to VectorDiff::{map,apply} by an exhaustive small-scope + random differential run on every check.",
                level_note="Trusted: Coq kernel; extraction (ExtrOcamlBasic); the differential harness; imbl::Vector modelled as list. No axioms.",
                trusted=[KERNEL, EXTRACTION, CORR, IMBL],
                assumptions=["imbl::Vector behaves like a list for the operations VectorDiff::apply uses (checked differentially on every case)",
                             "usize indices/lengths do not overflow"]),
}


# ---------------------------------------------------------------- adapters
SCRIPT = "adapters are driven through scripted inner / limit streams (they are generic over their input streams); the source-side stream is covered by C05-C08"
ADAPT_TRUST = [KERNEL, EXTRACTION, CORR, IMBL,
               "std VecDeque::partition_point modelled by its result on partitioned input; SmallVec/ArrayVec buffers modelled as FIFO lists (ArrayVec capacity 2 modelled as a panic beyond 2)",
               SCRIPT]
ALL_KINDS = ("head", "tail", "skip", "filter", "filter_map", "sort", "sort_by", "sort_by_key")


def adapt_nontriv(case, obs):
    # at least one diff was emitted to the consumer
    return "R:" in obs


def adapt_hist(case, obs):
    h, _, e = case.partition(" :: ")
    w = h.split()
    evs = [x for x in e.split(" ; ") if x[:2] in ("d:", "b:", "l:")]
    last = evs[-1] if evs else "-"
    k = last[:2] + (diff_kind(last[2:]) if last[:2] != "l:" else "limit")
    return "%s/%s/%s/%s%s" % (w[0], w[1], w[2], k, "/PANIC" if "PANIC" in obs else "")


def _proj_full_view(line):
    """mode full for C09 / C12: everything but which operation fired the waker"""
    return " ; ".join(" ".join(t for t in e.split(" ") if t != "w") for e in line.split(" ; "))


def _proj_full_wake(line):
    """mode full for C14: per operation the kinds of the poll answers and whether the waker fired"""
    res = []
    for e in line.split(" ; "):
        toks = e.split(" ")
        t0 = toks[0]
        kinds = "".join("R" if x not in ("P", "N") else x for x in t0.split("+")) if (t0 in ("P", "N") or t0.endswith(("+P", "+N", "+R"))) else "."
        res.append(kinds + (" w" if "w" in toks[1:] else ""))
    return " ; ".join(res)


def full_hist(case, obs):
    h = case.split(" :: ")[0].split()
    return "%s/%s/%s/%s" % (h[1], h[3], "cap1" if h[0] == "cap=1" else "cap>1", "reset" if "Reset" in obs else "noreset")


def full_streams(tier, rng, orc, proj):
    """the three crates wired together (mode full): real ObservableVector + real Observable<usize> as the
    limit + dynamic_head_with_initial_value / dynamic_skip_with_initial_count, against FullStack.fstep"""
    q = tier == "quick"
    n = 4000 if q else 150000
    project = _named("full:" + proj, _proj_full_view if proj == "view" else _proj_full_wake)
    nontriv = lambda c, o: "+P" in o or "+R" in o
    return [Stream("full-stack-exhaustive", "full", gens.full_exhaustive(2 if q else 3), nontriv, True,
                   "after `append[1,2,3,4] ; attach ; drain`: every sequence of <= %d events over 15 (vector calls incl. a transaction and the drop, limit calls incl. a silent update_if and the drop of the observable, single polls), then drain, two more updates, drain; Head and Skip x Observable / SharedObservable x capacity 1 (lag, Reset) and 16 x plain and batched subscriber stream (FullStack.fstep / FullStackB.fstep_b)" % (2 if q else 3),
                   full_hist, oracles=orc, project=project),
            Stream("full-stack-random", "full", gens.full_random(rng, n), nontriv, False,
                   "%d seeded random histories of up to 40 events on a real ObservableVector (capacity 1..16: a third of them lag), a real Observable<usize> / SharedObservable<usize> as limit / count (set, set_if_not_eq, set_if_hash_not_eq, update, update_if; drop), the adapter attached after 0-3 events on the plain or the batched subscriber stream, single polls and drains; compared with the extracted FullStack.fstep / FullStackB.fstep_b line by line (an empty batch counts as inapplicable)" % n,
                   full_hist, oracles=orc, project=project)]


def c09_streams(tier, rng):
    q = tier == "quick"
    ml, mp = (4, 6) if q else (5, 7)
    n = 4000 if q else 150000
    kinds = ("head", "tail", "skip")
    orc = {"view", "app", "end", "nopanic"}
    return [
        Stream("single-step", "adapt", gens.lts_single_step(kinds, ml, mp), adapt_nontriv, True,
               "head/tail/skip x {static,dyninit,dynamic} x {unbatched,batched}: source [1..n] n<=%d x limit/count 0..%d x every diff kind with every index 0..n+1 (Append/Reset of 0..3 items) and every limit/count change 0..%d -> 0..%d; every adapter state is an initial state, so this covers the whole transition function up to the bounds; non-trivial = a diff is emitted" % (ml, mp, mp, mp),
               adapt_hist, oracles=orc),
        Stream("param-then-diff", "adapt", gens.lts_param_then_diff(kinds, 3 if q else 4, 4 if q else 5), adapt_nontriv, True,
               "head/tail/skip with a dynamic parameter: from every (vector of <= %d items, parameter 0..%d) state a change to every other parameter value, drained, then every applicable source diff, drained: what a parameter change leaves behind in the adapter is used by the next source diff" % ((3, 4) if q else (4, 5)),
               adapt_hist, oracles=orc),
        Stream("random", "adapt", gens.rand_adapt(rng, kinds, n), adapt_nontriv, False,
               "%d seeded random histories of 3..30 events (source diffs, batches, limit changes, single polls, drains, end of source/limit stream) over scripted streams" % n,
               adapt_hist, oracles=orc),
        adapt_big_stream(kinds, tier, rng, orc),
    ] + full_streams(tier, rng, {"fullview", "fullapp", "fullnopanic"}, "view")


def adapt_big_stream(kinds, tier, rng, orc, **kw):
    n = 200 if tier == "quick" else 8000
    return Stream("random-big", "adapt", gens.rand_adapt(rng, kinds, n, maxev=14, big=True, **kw), adapt_nontriv, False,
                  "%d seeded random histories on sources of 60..200 items, limits / counts up to 260, appends of up to 70 items" % n,
                  adapt_hist, oracles=orc)


def c10_streams(tier, rng):
    q = tier == "quick"
    ml = 4 if q else 5
    n = 4000 if q else 150000
    orc = {"view", "app", "end", "nopanic"}
    return [
        Stream("single-step", "adapt", gens.filter_single_step(ml), adapt_nontriv, True,
               "filter/filter_map x {unbatched,batched}: source [0..n-1] n<=%d x all 2^n pass/fail assignments x every applicable diff with passing (6) and failing (7) new items, Append/Reset with every pass/fail pattern up to 3 items" % ml,
               adapt_hist, oracles=orc),
        Stream("multi-step-ends", "adapt", gens.filter_multi_step(4 if q else 5), adapt_nontriv, True,
               "every sequence of %d operations over 10 that work at the ends of the source (push a passing / a rejected item at either end, pop at either end, set / remove / insert at the last position), polled once at the end, from an all-passing and a mixed source, filter and filter_map: a cached quantity that goes stale on one path needs that path and two or three further steps before it is used" % (4 if q else 5),
               adapt_hist, oracles=orc),
        Stream("two-step", "adapt", gens.filter_two_step(2 if q else 3), adapt_nontriv, True,
               "filter/filter_map x {unbatched,batched}: source [0..n-1] n<=%d x all pass/fail assignments x every PAIR of applicable diffs (drained after each): defects where one diff corrupts filtered_indices/original_len and the next exposes it" % (2 if q else 3),
               adapt_hist, oracles=orc),
        Stream("random", "adapt", gens.rand_adapt(rng, ("filter", "filter_map"), n), adapt_nontriv, False,
               "%d seeded random histories of 3..30 events, random 8-bit pass mask" % n, adapt_hist, oracles=orc),
        adapt_big_stream(("filter", "filter_map"), tier, rng, orc),
    ]


def c11_streams(tier, rng):
    q = tier == "quick"
    ml = 3 if q else 4
    n = 4000 if q else 150000
    orc = {"view", "app", "end", "sortcontract", "nopanic"}
    return [
        Stream("single-step", "adapt", gens.sort_single_step(ml), adapt_nontriv, True,
               "sort/sort_by/sort_by_key x {unbatched,batched}: sources of n<=%d items over keys {0,1,2} (all tie patterns; item = key*10+position) x every applicable diff with new keys 0,1,2" % ml,
               adapt_hist, oracles=orc),
        Stream("two-step", "adapt", gens.sort_two_step(2, bats=("u",) if q else ("u", "b"), kinds=("sort",) if q else ("sort", "sort_by", "sort_by_key")),
               adapt_nontriv, True,
               "sort%s: sources of n<=2 items over keys {0,1,2} x every PAIR of applicable diffs (drained after each; no Truncate)" % ("" if q else "/sort_by/sort_by_key x {unbatched,batched}"),
               adapt_hist, oracles=orc),
        Stream("random", "adapt", gens.rand_adapt(rng, ("sort", "sort_by", "sort_by_key"), n), adapt_nontriv, False,
               "%d seeded random histories of 3..30 events; items key*10+uid, all distinct" % n, adapt_hist, oracles=orc),
        adapt_big_stream(("sort", "sort_by", "sort_by_key"), tier, rng, orc),
    ]


def c15_streams(tier, rng):
    q = tier == "quick"
    ml, mp = (4, 6) if q else (5, 7)
    n = 3000 if q else 100000
    kinds = ("head", "tail")
    return [
        Stream("single-step", "adapt", gens.lts_single_step(kinds, ml, mp, flavs=("static",)), adapt_nontriv, True,
               "head/tail with a fixed limit x {unbatched,batched}: source [1..n] n<=%d x limit 0..%d x every diff; the view length is checked after every single emitted diff" % (ml, mp),
               adapt_hist, oracles={"bound"}, project=proj_adapt("bound")),
        Stream("random", "adapt", gens.rand_adapt(rng, kinds, n, flavs=("static",)), adapt_nontriv, False,
               "%d seeded random histories on fixed-limit head/tail" % n, adapt_hist, oracles={"bound"},
               project=proj_adapt("bound")),
        Stream("end-to-end-bound", "e2e", _e2e_bounded(rng, 2500 if q else 80000), lambda c, o: "ok:e2eview" in o, False,
               "%d seeded random histories of 1-2 stage stacks with a fixed-limit Head or Tail ON TOP, on a plain and a batched subscriber of a real ObservableVector (capacity 1..16, so lag and Reset occur; transactions): neither rebuilt view ever holds more than `limit` items - checked after every single diff of every item and for the initial values" % (2500 if q else 80000),
               e2e_hist, oracles={"e2ebound"}, project=proj_none),
    ]


def _e2e_bounded(rng, n):
    """e2e cases whose top stage is a fixed-limit head / tail"""
    out = []
    while len(out) < n:
        for c in gens.e2e_cases(rng, 4 * n):
            top = c.split(" :: ")[0].split(" | ")[-1].strip()
            if top.startswith(("head:static", "tail:static")):
                out.append(c)
                if len(out) >= n:
                    break
    return out


def e2e_nontriv(case, obs):
    return _re.search(r" p=[1-9]", obs) is not None


def e2e_hist(case, obs):
    return ">".join(":".join(st.split(":")[:2]) for st in case.split(" :: ")[0].split(" | ")[1:])


def c13_streams(tier, rng):
    q = tier == "quick"
    ml, mp = (3, 4) if q else (4, 6)
    n = 4000 if q else 150000
    orc = {"samediffs", "nonemptybatch"}
    return [
        Stream("single-step-ub", "adapt",
               gens.lts_single_step(("head", "tail", "skip"), ml, mp, bats=("ub",), flavs=("static",), include_bad=False),
               adapt_nontriv, True,
               "head/tail/skip with fixed parameter: the same single-diff history on the unbatched and the batched flavour, emitted diffs compared", adapt_hist, oracles=orc, project=proj_none),
        Stream("random-ub", "adapt",
               gens.rand_adapt(rng, ALL_KINDS, n, bats=("ub",), flavs=("static",), lone_polls=False), adapt_nontriv, False,
               "%d seeded random histories (multi-diff batches = transactions) on all eight adapters with fixed parameters, run on both flavours; per drain the flattened diffs must be equal; no empty batch" % n,
               adapt_hist, oracles=orc, project=proj_none),
        Stream("random-b", "adapt", gens.rand_adapt(rng, ALL_KINDS, n // 2, bats=("b",)), adapt_nontriv, False,
               "%d seeded random batched histories incl. dynamic limits (one batch per limit change; no empty batch)" % (n // 2),
               adapt_hist, oracles={"nonemptybatch"}, project=proj_none),
        Stream("end-to-end", "e2e", gens.e2e_cases(rng, 6000 if q else 200000), e2e_nontriv, False,
               "%d seeded random histories on a real ObservableVector (capacity 1..16, so lag occurs) with a plain and a batched subscriber carrying the same stack of 1-2 adapters (head/tail/skip static, with initial value, dynamic; filter; filter_map; sort first): mutators, multi-operation transactions (commit, rollback, drop), limit changes, drains; after every batch the batched view must be the stack's view of a state the vector had between top-level operations, at Pending both views equal the stack's view of the contents, no empty batch, fixed-parameter stacks deliver the same diffs on both flavours unless one lagged" % (6000 if q else 200000),
               e2e_hist, oracles={"e2eview", "e2estate", "e2eapp", "e2enopanic", "e2einit", "nonemptybatch", "samediffs"},
               project=proj_none),
    ] + full_streams(tier, rng, {"fullview", "fullapp", "fullnopanic"}, "view")


_POLL_ENTRY = _re.compile(r"^(R:\S*|P|N)(\+(R:\S*|P|N))*$")
_WOKEN = _re.compile(r"^w[\d,]+$")


def proj_ovec_wake(line):
    """ovec mode for C14: per operation, the kinds of the poll answers (item / Pending / end) and which
    subscribers' wakers fired; what the items contain is C05-C08"""
    res = []
    for entry in line.split(" ; "):
        toks = entry.split(" ")
        t0 = toks[0] if toks else ""
        kinds = "".join(x[0] for x in t0.split("+")) if _POLL_ENTRY.match(t0) else "."
        res.append(kinds + "".join(t for t in toks[1:] if _WOKEN.match(t)))
    return " ; ".join(res)


def c14_streams(tier, rng):
    q = tier == "quick"
    n = 6000 if q else 200000
    leaf_orc = {"wake", "wakedue", "stuck"}
    leaf = [s for s in ovec_streams("c08", leaf_orc, _named("poll kinds and woken subscribers per operation", proj_ovec_wake))(tier, rng)
            if s.mode == "ovec"]
    for s in leaf:
        s.name = "leaf-" + s.name
    return leaf + [
        Stream("single-step", "adapt", gens.lts_single_step(("head", "tail", "skip"), 3, 4, include_bad=False),
               adapt_nontriv, True,
               "head/tail/skip single-step block: the poll trace of every input (which input was polled, what it answered) is compared with the model's, and at every Pending each input's stored waker must be the caller's (will_wake)",
               adapt_hist, oracles={"reg"}, project=proj_adapt("trace")),
        Stream("random", "adapt", gens.rand_adapt(rng, ALL_KINDS, n), adapt_nontriv, False,
               "%d seeded random histories with single polls interleaved after arbitrary events, ends of source / limit stream" % n,
               adapt_hist, oracles={"reg"}, project=proj_adapt("trace")),
        Stream("quiet-bursts", "adapt", gens.adapt_quiet_bursts(), adapt_nontriv, True,
               "head / tail / skip / filter / filter_map: a run of 1, 2, 31..34, 63..66, 130 source updates that map to nothing, all available within ONE poll (as single items and as one batch), then one poll or a drain, then a visible update: the loop must keep polling the inner stream until that answers Pending, however long the run",
               adapt_hist, oracles={"reg"}, project=proj_adapt("trace")),
        Stream("chains", "chain", gens.chain_cases(rng, True, 60 if q else 1500, 4 if q else 30),
               lambda c, o: " ok:reg=" in o, False,
               "two- and three-stage chains (C12's generator: head/tail/skip in every flavour incl. by-itself hand-over, filter, filter_map; unbatched and batched): after every full drain that ends Pending, the source stream and every limit/count stream of the stack must hold the waker of that poll (will_wake)",
               chain_hist, oracles={"reg"}, project=proj_chain_reg),
    ] + full_streams(tier, rng, {"fullwake", "fullstuck"}, "wake")


PROPS.update({
    "C09": dict(streams=c09_streams, trusted=ADAPT_TRUST,
                assumptions=["the inner stream delivers diffs applicable to the source (C05/C06 for a subscriber stream, the previous stage's theorem in a chain)",
                             "usize arithmetic does not overflow", "known finding tail_shrink_over_len excluded (see known_findings.json)"],
                strength="full outside the known-finding class tail_shrink_over_len",
                level_text="Coq theorems for all element types, buffers, limits/counts and diffs: Head/Tail/Skip one-step correctness (no panic; emitted diffs applicable one by one; view = first/last/all-but-first items), every limit/count change (Tail: outside the recorded class 0<new<len<old, for which the refutation witness is proved), lifted by induction to arbitrary event sequences, plus stream end <=> source end on the poll-loop model; and with the three crates wired together (FullStack.v: any history of calls on an ObservableVector and on an Observable<usize> holding the limit / count, a dynamic Head / Skip on a fresh subscriber of the vector with a Subscriber of the observable as its limit stream): whenever the adapter answers Pending and the observable has an owner, the view is the first / all-but-first (current value of the observable) items of the vector's current contents (silent update_if stores excluded). The models are transcriptions of handle_diff/update_limit/update_count and the poll loops; they are tied to the crate by an exhaustive single-step run from every small state plus random histories on every check, and by running the real ObservableVector + Observable + dynamic adapter against the extracted FullStack.fstep (mode full).",
                level_note="Trusted: Coq kernel, extraction, harness; imbl::Vector as list; adapters driven by scripted input streams. Known finding F4 (Tail limit decrease 0<new<len<old, pinned by an existing test) is excluded from the theorem and reported as KNOWN-FINDING."),
    "C10": dict(streams=c10_streams, trusted=ADAPT_TRUST,
                assumptions=["the inner stream delivers diffs applicable to the source", "the filter function is pure (same answer for the same item)"],
                level_text="Coq theorem for every filter/partial mapping f, source and applicable diff: filter_on_diff does not panic, keeps filtered_indices/original_len exact and emits at most one diff taking filter_map f of the old source to that of the new (incl. Reset with nothing passing, after the fix), lifted to arbitrary diff sequences; stream end <=> source end. Tied to filter.rs by an exhaustive run over all pass/fail assignments of small sources plus random histories.",
                level_note="Trusted: Coq kernel, extraction, harness; imbl::Vector as list; VecDeque::partition_point by its contract on partitioned input."),
    "C11": dict(streams=c11_streams, trusted=ADAPT_TRUST + ["imbl::Vector::sort_by is an oracle: its answer is reconstructed from the implementation's output on every call, checked to be a sorted permutation of its input (ok:sortcontract) and fed to the model", "imbl::Vector::binary_search_by transcribed from imbl-5.0.0 vector/mod.rs:583-606"],
                assumptions=["the comparison is a total preorder (cmp a b = CompOpp (cmp b a), transitivity)", "imbl sort_by returns a sorted permutation (checked at run time on every call)",
                             "known finding sort_truncate_misaligned excluded"],
                strength="full outside the known-finding class sort_truncate_misaligned",
                level_text="Coq theorem for every total-preorder comparison, source, applicable diff and valid oracle answer: the sort adapter does not panic (all expect()s and len-1 are safe), its emitted diffs are applicable one by one and take the old sorted view to the new one, and the buffer invariant (indices a permutation, values linked to the source, sorted) is preserved, hence the view is a sorted permutation of the source at every quiescent point of every admissible history; Truncate is proved outside the recorded class and refuted inside it. Tied to sort.rs by an exhaustive run over all tie patterns of small sources and random histories, with the unstable sort's answers taken from the implementation.",
                level_note="Trusted: Coq kernel, extraction, harness, imbl::Vector as list, imbl sort_by as an oracle with run-time-checked contract. Known finding F6 (Truncate forwarded to the sorted view, pinned by existing tests) is excluded and reported as KNOWN-FINDING."),
    "C15": dict(streams=c15_streams, trusted=ADAPT_TRUST,
                assumptions=["the inner stream delivers diffs applicable to the source"],
                level_text="Coq theorems: for every limit, buffer and applicable diff the diffs emitted by Head and Tail, applied one at a time, never produce an intermediate view longer than the limit (apply_all_ok_bound), and the initial values respect it. Tied to head.rs/tail.rs by the C09 correspondence restricted to fixed limits, with the view length checked after every single diff on the implementation.",
                level_note="Trusted: as C09."),
    "C13": dict(streams=c13_streams, trusted=ADAPT_TRUST,
                assumptions=["fixed parameters for the batched/unbatched equality", "a source batch is one top-level operation or one committed transaction (C07)"],
                level_text="Coq theorems generic in the adapter step function: the unbatched poll loop delivers exactly the next pending diff per poll and the batched loop a non-empty prefix ending at a source-batch boundary, both measured against the same reference (flat_map of the step function over all queued source diffs), so the two flavours deliver the same diffs in the same order; empty batches are never emitted; a limit change yields exactly one batch. Tied to ops.rs and the five poll loops by running every history on both flavours of the real adapters.",
                level_note="Trusted: as C09; the theorem is about the poll-loop/container model of ops.rs."),
    "C14": dict(streams=c14_streams, trusted=ADAPT_TRUST + ["Waker identity checked with Waker::will_wake on the implementation side"],
                assumptions=["a leaf stream (the vector subscriber's stream, a limit/count stream) that answers Pending keeps the waker it was polled with (Stream contract; C02 for Subscriber, tokio broadcast for the vector subscriber)"],
                strength="adapters alone and chained: proved for stacks of any height; the leaf streams' waiter lists (tokio broadcast, ReusableBoxFuture) are modelled in C05-C08, not re-proved here",
                level_text="Coq theorems on the poll-loop model, generic in the adapter: a poll answers Pending only after, in that very call, the inner stream answered Pending and the limit stream answered Pending or its terminal end, with nothing deliverable left (ready buffer and queues empty); and a drained adapter stays Pending until an input has something. For chains (ChainPoll.v / ChainPollB.v: the unbatched and the batched loop over an arbitrary inner stream, stacks as lists of stages of any state type): a Pending answer of the top of a stack of any height leaves the waker registered with the source and with every limit/count stream of the stack; a stack with nothing deliverable stays Pending and unchanged; over a scripted queue the generic loop equals the scripted loop that the correspondence check compares with the five poll_next implementations call by call; the model's fuel/depth bounds never change an answer. Tied to the crate by comparing the complete poll trace of both inputs on every poll, checking will_wake on every stored waker, and - for chains of 2-3 real adapters - checking after every drain that ends Pending that every leaf holds the waker of that poll; the leaf streams themselves (plain and batched subscriber stream of a real ObservableVector) are run with a counting waker: ready again after Pending only if it fired, a publish or the drop of the vector while Pending fires it before the call returns, a Pending stream whose waker has not fired is still Pending when polled again. On the two real leaves together (FullStack.v): a Pending answer of the adapter leaves the vector's receiver waiting and the limit subscriber in the observable's waker list, so every published message, the drop of the vector, every announced limit change and the closing of the observable wake the task, and a poll always terminates - run against the three real crates in mode full (oracles fullwake, fullstuck).",
                level_note="Trusted: as C09, plus the Stream contract of the leaves. Both loops (unbatched with its ready buffer, batched without) are modelled generically over an arbitrary inner stream and proved for stacks of any height."),
})


# ---------------------------------------------------------------- C12 chains
def chain_hist(case, obs):
    st = case.split(" :: ")[0].split(" | ")[1:]
    return ">".join(":".join(s.split(":")[:2] + (["self"] if s.endswith(":self") else [])) for s in st)


def hand_hist(case, obs):
    h = case.split(" :: ")[0].split(" | ")
    evs = case.split(" :: ")[1].split(" ; ")
    i = evs.index("H") if "H" in evs else 0
    return h[0].split()[0] + "/" + ":".join(h[1].split(":")[:2]) + "/" + (evs[i - 1].split(":")[0] if i > 0 else "-") + ">H"


def c12_streams(tier, rng):
    q = tier == "quick"
    ntr, per = (150, 4) if q else (2000, 30)
    cases = gens.chain_cases(rng, True, ntr, per)
    orc = {"stage0", "stage1", "stage2", "nopanic"}
    return [Stream("chains", "chain", cases, lambda c, o: _re.search(r" t\d=[^- ]", o) is not None, False,
                   "all two-stage chains over {head,tail,skip} x {static p in 0/2/5, dyninit, dynamic; handed over as (values, stream) or - for dynamic, static 2, dyninit 2 - as the adapter itself} + filter/filter_map (4 masks) and %d seeded three-stage chains, %d random histories each (source diffs, batches, limit changes of any stage, full drains), per-stage taps; plus chains with sort at the bottom under every other stage (distinct values, no Truncate)" % (ntr, per),
                   chain_hist, oracles=orc),
            Stream("late-handover", "hand", gens.hand_exhaustive(q), lambda c, o: "H=[" in o and "H=[]" not in o, True,
                   "the by-itself hand-over of head/tail/skip (static 2, dyninit 2, dynamic) at an arbitrary moment: every applicable source diff on [1,2,3] x stage 0 then not polled / polled once (a second diff of the burst stays parked in its ready buffer) / drained x optional limit change to 0/1/3 again followed by nothing / one poll / a drain; then into_parts, stage 1 (%d kinds) on top, drain, two more source updates with drains; unbatched and batched" % (3 if q else 5),
                   hand_hist, oracles={"stage0", "stage1", "stage2", "app", "nopanic"}),
            Stream("late-handover-twice", "hand", gens.hand_three(q), lambda c, o: o.count("H=[") >= 2, True,
                   "two by-itself hand-overs in a row, both flavours (adapter over adapter over adapter, evaluated lazily in the model: ChainPoll.gpoll / ChainPollB.gpoll_b over the poll function of the level below): stage 0 x 7 source updates x not polled / one poll / drained, handed to stage 1 (head dyninit 2 / tail dynamic / skip dyninit 1), a second update x not polled / ONE POLL OF THE TWO-STAGE STACK / drained, handed to stage 2, drained, one more update, drained",
                   hand_hist, oracles={"stage0", "stage1", "stage2", "app", "nopanic"}),
            Stream("late-handover-random", "hand", gens.hand_random(rng, 3000 if q else 100000), lambda c, o: "H=[" in o and "H=[]" not in o, False,
                   "%d seeded random histories: stage 0 (any flavour, limit 0..4) driven through source diffs, batches, limit changes, single polls and drains, handed over by itself at a random moment, then the two-stage stack driven further (limit changes of both stages)" % (3000 if q else 100000),
                   hand_hist, oracles={"stage0", "stage1", "stage2", "app", "nopanic"}),
            Stream("end-to-end", "e2e", gens.e2e_cases(rng, 3000 if q else 100000), e2e_nontriv, False,
                   "%d seeded random histories of 1-2 stage stacks on a real ObservableVector subscriber (plain and batched), see C13; here: rebuilt view = stack's view of the vector at every Pending, every diff applicable, no panic" % (3000 if q else 100000),
                   e2e_hist, oracles={"e2eview", "e2eapp", "e2enopanic", "e2einit"}, project=proj_none)] + \
        full_streams(tier, rng, {"fullview", "fullapp", "fullnopanic"}, "view")


PROPS["C12"] = dict(
    streams=c12_streams, trusted=ADAPT_TRUST + ["mode chain evaluates chains stage by stage to quiescence in the model (all its cases use full drains; for unbatched stacks ChainView.v proves that lazy and eager evaluation end in the same quiet state); mode hand evaluates lazily"],
    assumptions=["every stage satisfies its one-step theorem (C09-C11)", "known finding tail_shrink_over_len excluded (a chain is claimed only while no stage is in a recorded class)",
                 ],
    strength="full given C09-C11; inherits their known-finding classes",
    level_text="Coq theorems: if two stages satisfy the one-step correctness statement then so does their composition (the lower stage's guarantee that every emitted diff is applicable to its view is the upper stage's input guard), for limit changes of either stage, for chains of any length by iteration (stated for three), lifted to whole histories; for the NESTED POLL LOOPS of real stacked adapters (every level with its own ready buffer, pulling lazily from the level below; stacks of any height): one poll of the top keeps every level behind the level below by exactly its parked diffs, hands out only applicable diffs, at Pending every buffer and queue is empty and the consumer's view is the top stage's view of ... of the bottom stage's view of the source, and the stack always answers - also with the plain stream of a subscriber of an ObservableVector at the bottom, in any history of the vector (ChainE2E.v: no panic, applicable items, at Pending the view is the composition of the stages' views of the vector's current contents, every poll terminates); and into_parts of Head/Tail/Skip returns the current view - at ANY moment of the adapter's life: the consumer of an unbatched adapter is behind it by exactly the diffs parked in its ready buffer (an invariant of the poll loop for any correct adapter), and the hand-over (as repaired in cc06c71: parked diffs dropped) starts the next stage from the adapter's own view with nothing parked; refuted for the code before the repair; end to end: an ObservableVector under any history, one of its subscribers and any correct adapter fed with what that subscriber's stream delivers - no panic, every emitted diff applicable, and at every Pending the view stands for the vector's current contents (instance spelled out for Head). Tied to the crate by running all two-stage chains and sampled three-stage chains of the real adapters with taps between the stages, by handing head/tail/skip over by themselves at arbitrary moments (mode hand: after single polls, drains, limit changes, with a diff still parked), and 1-2 stage stacks end to end on a real ObservableVector subscriber (oracle-only stream).",
    level_note="Trusted: as C09. Known finding F4 (tail_shrink_over_len) is inherited and reported as KNOWN-FINDING; F7 (into_parts handed the source copy) was repaired in 8c08ab1, F9 (hand-over in the middle of a burst replayed the parked diffs) in cc06c71.")


# ---------------------------------------------------------------- observable value
OBS_TRUST = [KERNEL, EXTRACTION, CORR,
             "std::sync::RwLock, Arc/Weak counters, readlock::Shared modelled at operation granularity (one call = one atomic transition); DefaultHasher as a function (harness checks at start that the hash classes used do not collide)",
             "u64 version counter modelled as unbounded nat: fewer than 2^64-1 notifying updates"]


def obs_nontriv(case, obs):
    return "R:" in obs or " w" in obs


def obs_hist(case, obs):
    ops = case.split(" :: ")[1].split(" ; ")
    return case.split(" :: ")[0] + "/" + (ops[-3].split("(")[0] if len(ops) >= 3 else "-")


def obs_streams(orc, project=None):
    def f(tier, rng):
        q = tier == "quick"
        ml = 2 if q else 3
        n = 4000 if q else 150000
        return [
            Stream("exhaustive", "obs", gens.obs_exhaustive(ml), obs_nontriv, True,
                   "every sequence of <= %d calls over a 25-call alphabet (all six setters with equal / hash-equal / different values, get, subscribe(_reset), poll, next_now, reset, clone, drop of subscribers, clone / drop / downgrade / upgrade / into_shared of handles, clone / drop of weak references, counts; each call is issued through one of its equivalent entry points chosen by its position: poll = Stream::poll_next | next() | next_ref(); next_now = next_now | next_ref_now; get = get | read | try_read | Deref; set = set | write guard | try_write guard; new | Default), from a fresh handle and from a handle with one pending subscriber, on Observable, SharedObservable and through write guards" % ml,
                   obs_hist, oracles=orc, project=project),
            Stream("random", "obs", gens.obs_random(rng, n), obs_nontriv, False,
                   "%d seeded random histories of 10..40 calls (up to ~8 subscribers, several clones and weak references), ending with all owners dropped and every subscriber polled" % n,
                   obs_hist, oracles=orc, project=project),
            Stream("after-last-owner", "obs", gens.obs_after_last_owner(3 if q else 4), lambda c, o: True, True,
                   "handle life cycles around the death of the last owner (a subscriber and a weak reference outlive every handle, or a handle obtained by upgrade outlives the original): 4 prefixes x every sequence of <= %d calls over upgrade / counts / clone / drop_owner / poll / clone_weak / drop_weak / drop of the subscriber / set, on SharedObservable and through write guards" % (3 if q else 4),
                   obs_hist, oracles=orc, project=project),
        ]
    return f


def c01_streams(tier, rng):
    """C01 is stated over sequences of calls; its sentences about what a subscriber hands out and when it
    is ready must also survive a writer on another thread (a value and the version it is marked observed
    with have to come from one lock acquisition) - two free-running families of C04 are run here too"""
    q = tier == "quick"
    r1, r2 = (4000, 50) if q else (100000, 1500)
    return obs_streams({"spec"})(tier, rng) + [
        Stream("threads-nextnow-pollstream", "race",
               ["kind=nextnowset rounds=%d" % r1 for _ in range(4)] + ["kind=pollstream rounds=%d" % r2 for _ in range(4)],
               lambda c, o: True, False,
               "4 x %d free-running rounds of one next_now racing one set (afterwards the subscriber must end on the final value: what next_now hands out and what it marks observed belong together) and 4 x %d rounds of a writer storing 300 values back to back while the subscriber polls (every value handed out is newer than the previous one, the subscriber ends on the final value and is then Pending)" % (r1, r2),
               lambda c, o: c.split()[0], oracles={"racefinal", "raceorder"})]


PROPS.update({
    "C01": dict(streams=c01_streams, trusted=OBS_TRUST,
                assumptions=["single-threaded histories for the refinement theorem (thread interleavings: C02/C04; two free-running thread families are run here as well)", "fewer than 2^64-1 notifying updates"],
                level_text="Coq theorem: the implementation model (version counter + observed_version) refines, call by call and for whole histories, the specification written from the property text (current value + one unseen flag per subscriber) - for all values, equality/hash functions, numbers of subscribers and call sequences. Tied to state.rs/subscriber.rs/unique.rs/shared.rs by an exhaustive short-history run and random histories on Observable, SharedObservable and write guards, with the specification re-implemented in the harness as an independent oracle.",
                level_note="Trusted: Coq kernel, extraction, harness; locks/Arc at operation granularity; version counter unbounded."),
    "C19": dict(streams=obs_streams({"counts", "inventory"}, proj_obs("counts")), trusted=OBS_TRUST,
                assumptions=["default (sync) lock flavour; the async flavour is handled with C16"],
                strength="full for the default lock flavour; async flavour: see C16 / known findings",
                level_text="Coq theorems: the four count functions report exactly the populations of owners, live subscribers and weak references, and every call changes those populations by exactly the handles it creates or drops (delta table), in every reachable state. Tied to the crate by calling the real count functions inside the C01 histories (counts is part of the alphabet) and comparing with the model and with the harness's own handle bookkeeping.",
                level_note="Trusted: as C01. Arc::strong_count/weak_count are read at quiescent moments only."),
})


# ---------------------------------------------------------------- ObservableVector
OVEC_TRUST = [KERNEL, EXTRACTION, CORR, IMBL,
              "tokio::sync::broadcast 1.53.1 modelled as a position-based log (capacity rounded up to a power of two, retains the last cap2 messages, Lagged moves the receiver to pos-cap2, Closed only after the buffer is drained, send wakes all waiting receivers); not verified",
              "ReusableBoxFuture / the recv future modelled as 'poll = try_recv + register waiter'",
              "hooks (cfg eyeball_verif, eyeball-im/src/verif.rs): a thread-local callback before each try_recv of the drain loops; assumed to add nothing but the callback's own effects"]


def ovec_nontriv(case, obs):
    return "R:" in obs


def ovec_hist(case, obs):
    ops = case.split(" :: ")[1].split(" ; ")
    kinds = sorted({o.split("(")[0].split("[")[0] for o in ops if not o.startswith(("poll", "drain", "sub", "get"))})
    return case.split(" :: ")[0] + "/" + ("txn" if "tb" in ops else "direct") + "/" + ("lagged" if "Reset" in obs else "window") + "/" + (kinds[0] if len(kinds) == 1 else "mixed")


def drain_hist(case, obs):
    import re
    used = re.findall(r" u=(\d+)", obs)
    return case.split(" :: ")[0] + "/" + ("lagged" if "Reset" in obs else "window") + "/used<=%s" % (max(map(int, used)) if used else 0)


def ovec_streams(kind, orc, project=None):
    def f(tier, rng):
        q = tier == "quick"
        n = 4000 if q else 150000
        st = []
        if kind in ("c05", "c17"):
            st.append(Stream("exhaustive", "ovec", gens.ovec_exhaustive(2 if q else 3, (16,) if kind == "c05" else (2, 16)),
                             ovec_nontriv, True,
                             "every sequence of <= %d direct calls over 11 calls (incl. out-of-range and the documented no-ops) x start [] / [1,2,3] x plain/batched stream x poll-after-each / drain-at-end" % (2 if q else 3),
                             ovec_hist, oracles=orc, project=project))
        if kind == "c17":
            st.append(Stream("traversal", "ovec", gens.ovec_traversal_exhaustive(4 if q else 5), ovec_nontriv, True,
                             "every decision sequence keep/set/remove/set-then-remove/stop over vectors of <= %d items, directly and inside a committed / dropped transaction; every index 0..len+2 for insert/set/remove/truncate/entry" % (4 if q else 5),
                             ovec_hist, oracles=orc, project=project))
        if kind in ("c06", "c08"):
            st.append(Stream("lag-block", "ovec", gens.ovec_lag_block((1, 2, 3, 5, 16)), ovec_nontriv, True,
                             "k operations then poll for k = 0..cap2+3 at capacities 1,2,3,5,16, second subscriber created midway, multi-diff transaction in the backlog, with and without dropping the vector before polling",
                             ovec_hist, oracles=orc, project=project))
            st.append(Stream("exhaustive-smallcap", "ovec", gens.ovec_exhaustive(2 if q else 3, (1, 2, 3)), ovec_nontriv, True,
                             "every sequence of <= %d direct calls at capacities 1,2,3" % (2 if q else 3), ovec_hist, oracles=orc, project=project))
        if kind == "c07":
            st.append(Stream("txn-exhaustive", "ovec", gens.ovec_txn_exhaustive(2 if q else 3), ovec_nontriv, True,
                             "every transaction body of <= %d operations over 16 (mutators, clear, rollback, entry ops, a subscriber dropped mid-body) x commit / drop / rollback+drop / rollback+commit x 0/1/2 subscribers, followed by a direct call" % (2 if q else 3),
                             ovec_hist, oracles=orc, project=project))
        if kind == "c06":
            r = 150 if q else 5000
            st.append(Stream("writer-thread", "race", ["kind=%s rounds=%d" % (k, r) for k in ("vecstream", "vecstreamb") for _ in range(4)],
                             lambda c, o: True, False,
                             "2 x 4 x %d free-running rounds: the ObservableVector (capacity 1..4) is mutated back to back on another thread (200 operations incl. transactions) while the plain / batched stream is polled, so lag is detected in the middle of a drain (the Lagged arms inside handle_lag and the batched drain loop, which a single-threaded history cannot reach); every delivered diff must be applicable and the replica equals the contents once the writer is done" % r,
                             lambda c, o: c.split()[0], oracles={"racefinal", "raceorder"}))
        if kind in ("c05", "c07"):
            st.append(Stream("txn-long", "ovec", gens.ovec_txn_long(5 if q else 6), ovec_nontriv, True,
                             "every transaction body of 4..%d operations over 7 (two values for position 2, position 0, pop / push at either end) on [1,2,3] that writes some position at least twice with a length change in between, committed, plain and batched subscriber alternately: what a batch that coalesces or reorders recorded diffs gets wrong" % (5 if q else 6),
                             ovec_hist, oracles=orc, project=project))
        if kind in ("c07", "c17"):
            st.append(Stream("txn-entries", "ovec", gens.ovec_txn_entries(3 if q else 4), ovec_nontriv, True,
                             "every transaction body of <= %d operations over 12 (index-addressed set, entry set, index shifts by remove / pop_front / push_front / insert, entry removals, traversals with set / remove / set-then-remove) on [1,2,3,4], committed or dropped, plain and batched subscriber" % (3 if q else 4),
                             ovec_hist, oracles=orc, project=project))
        st.append(Stream("random", "ovec", gens.ovec_random(rng, n, lagbias=(kind in ("c06", "c08"))), ovec_nontriv, False,
                         "%d seeded random histories of 3..60 operations: all mutators (5%% out of range), entry traversals, transactions with rollbacks, up to 4 subscribers of both flavours created and dropped at any time, polls and drains, capacities 1..16%s" % (n, ", low poll rates" if kind in ("c06", "c08") else ""),
                         ovec_hist, oracles=orc, project=project))
        if kind in ("c06", "c08"):
            st.append(Stream("channel-model", "bcast", gens.bcast_exhaustive(4 if q else 6) + gens.bcast_random(rng, 3000 if q else 60000),
                             lambda c, o: "Lagged" in o or "Closed" in o, False,
                             "the channel model itself (OVec.try_recv over a position log, capacity rounded up to a power of two) against tokio::sync::broadcast, no eyeball code in between: every sequence of <= %d operations over send / subscribe / resubscribe / try_recv on two receivers / drop of a receiver / drop of the sender at capacities 1..5, and %d random sequences of up to 80 operations with up to 5 receivers at capacities 1..17; results compared including the number a Lagged reports" % ((4, 3000) if q else (6, 60000)),
                             lambda c, o: c.split(" :: ")[0] + "/" + ("lagged" if "Lagged" in o else "window") + "/" + ("closed" if "Closed" in o else "open"),
                             oracles=set()))
        if kind in ("c05", "c06", "c08"):
            dorc = {"c05": {"app", "hist", "replica"},
                    "c06": {"app", "hist", "replica", "uptodate", "lagreset", "nonempty"},
                    "c08": {"app", "endalive", "final"}}[kind]
            st.append(Stream("mid-drain", "drain", gens.drain_exhaustive((1, 2, 3) if q else (1, 2, 3, 4), 3 if q else 4), ovec_nontriv, True,
                             "a subscriber 0..cap+2 messages behind is polled while the vector publishes BETWEEN the receive attempts of that one poll (forced through the drain points before each try_recv of the batched loop and of handle_lag): every combination of %d injections over 8 (nothing, 1-3 pushes, a 2-diff transaction, drop, pop+drop, clear) at capacities %s, plain and batched stream, then polled until quiet, then the vector dropped and the stream polled to its end; the number of drain points reached is compared with the model's" % ((3, "1,2,3") if q else (4, "1,2,3,4")),
                             drain_hist, hook=True, oracles=dorc))
            nd = 4000 if q else 100000
            st.append(Stream("mid-drain-random", "drain", gens.drain_random(rng, nd), ovec_nontriv, False,
                             "%d seeded random histories with up to 4 subscribers of both flavours in which 40%% of the polls race the vector: up to 4 injections of 0-3 operations each (all mutators, 4%% out of range, transactions, drop of the vector or of another subscriber), capacities 1..8" % nd,
                             drain_hist, hook=True, oracles=dorc))
        nb = 150 if q else 6000
        st.append(Stream("random-big", "ovec", gens.ovec_random(rng, nb, maxops=25, big=True), ovec_nontriv, False,
                         "%d seeded random histories on vectors of 70..200 items (appends of up to 70, capacities 3..64): sizes beyond imbl's chunk size and beyond every small-scope bound" % nb,
                         ovec_hist, oracles=orc, project=project))
        return st
    return f


PROPS.update({
    "C05": dict(streams=ovec_streams("c05", {"stepwise", "count", "app", "replica", "endalive"}), hook=True, trusted=OVEC_TRUST,
                assumptions=["lag bounded by the capacity for the stepwise statement (the lagging case is C06)"],
                level_text="Coq theorems over all histories (any interleaving of mutators, entry traversals, transactions, subscriptions of both flavours, polls, drops): every published diff is strictly applicable and takes the contents before the call to the contents after it; a direct call publishes exactly one diff, the documented no-ops none; a subscriber that never lagged has, at every Pending, received exactly the concatenation of everything published since it subscribed whatever the polling pattern and flavour, and its replica is the contents. Tied to vector.rs/subscriber.rs by exhaustive short histories and random long ones; the harness checks independently (with a plain Vec as shadow) that the replica passes through every state in order and that the number of delivered diffs is the number specified.",
                level_note="Trusted: Coq kernel, extraction, harness, imbl::Vector as list, tokio broadcast as a position log."),
    "C06": dict(streams=ovec_streams("c06", {"replica", "app", "lagreset", "resetcurrent", "batchcurrent"}), hook=True, trusted=OVEC_TRUST,
                assumptions=["vector operations interleave with polls at call granularity (OVec.v) and, for a vector moved to another thread, between the receive attempts of one poll (OVecDrain.v: every try_recv and send atomic, schedules forced on one thread through the drain points); memory ordering between real threads is exercised by the free-running writer-thread stream only"],
                level_text="Coq theorems for every capacity, history and polling pattern: at every Pending the replica equals the contents; a Reset is delivered only to a receiver more than cap2 >= capacity messages behind, alone in its item, carrying the contents as of delivery; no delivered diff is ever inapplicable; every batched item catches up completely; the unreachable!()s, the expect() and the drain loops are safe; all of it also when the vector publishes or is dropped BETWEEN the receive attempts of one poll (lag detected in the middle of a drain: OVecDrain.v, the invariant is preserved by racing polls). Proved through an inductive invariant (window clause, last-message clause, YieldBatch clause) over the history semantics. Tied to the crate by lag-focused exhaustive blocks around the rounded capacity and random low-poll-rate histories.",
                level_note="Trusted: as C05. The broadcast channel model is the main modelling risk; it is exercised at capacities 1, 2, 3, 5, 16."),
    "C07": dict(streams=ovec_streams("c07", {"replica", "count", "stepwise", "plain", "app"}), trusted=OVEC_TRUST,
                assumptions=["no subscribe while a transaction is open (the transaction holds &mut ObservableVector)"],
                level_text="Coq theorems: abandoning a transaction at any point (drop, rollback, drop after partial rollbacks; any body incl. panicking calls) returns exactly the state before it, so every later observation is as without it; before commit nothing is visible outside and the handle sees the working contents; commit installs the working contents and publishes at most one message holding the whole batch, which takes the old contents to the new ones; an empty batch publishes nothing; a batched subscriber's replica only ever equals contents at operation boundaries. Tied to transaction.rs by exhaustive transaction bodies with every way of ending them.",
                level_note="Trusted: as C05."),
    "C08": dict(streams=ovec_streams("c08", {"endalive", "final", "wake", "wakedue", "app"}), hook=True, trusted=OVEC_TRUST,
                assumptions=["as C06"],
                level_text="Coq theorems for every capacity and polling pattern: a poll reports the end only after the vector is dropped, and then the replica equals the final contents - also for a subscriber lagged beyond capacity (after the repair of handle_lag's Closed arm) or in the middle of a batch; a Pending subscriber is registered and the drop wakes every registered subscriber. Tied to the crate by histories ending in drop + drain in all four lag situations.",
                level_note="Trusted: as C05. Finding F2 (stale final state after lag + drop) was repaired in 0590f0c."),
    "C17": dict(streams=ovec_streams("c17", {"plain", "oobsilent"}, proj_ovec_plain), trusted=OVEC_TRUST,
                assumptions=[],
                level_text="Coq theorems: ObservableVector's and the transaction's mutators leave and return exactly what the plain-list operation does; insert/set/remove panic exactly when out of range and a panicking call has no effect; for_each/entries never panics, hands every original element to the closure once in order with its current index, and leaves the decisions' results followed by the untouched rest (cursor invariant). Tied to vector.rs/entry.rs/transaction.rs by exhaustive decision sequences and all indices 0..len+2, compared with a plain Vec in the harness.",
                level_note="Trusted: as C05."),
})


# ---------------------------------------------------------------- C16 async flavour / C19 async
AHEADS = ("unique_async", "shared_async", "guard_async")


def aobs_nontriv(case, obs):
    return "PEND" in obs


def aobs_hist(case, obs):
    n = obs.count("PEND")
    return "pending-polls:" + ("0" if n == 0 else "1-2" if n <= 2 else "3-5" if n <= 5 else "6+")


def c16_streams(tier, rng):
    q = tier == "quick"
    ml = 2 if q else 3
    n = 4000 if q else 150000
    orc = {"spec", "wake"}
    aorc = {"aspec", "alive"}
    na = 8000 if q else 200000
    gl = [(3, 1), (3, 2)] if q else [(4, 1), (4, 2)]
    gcases = []
    for (l, k) in gl:
        gcases += gens.aobs_exhaustive(l, k)
    return [
        Stream("exhaustive", "obs", gens.obs_exhaustive(ml, heads=AHEADS, counts=False), obs_nontriv, True,
               "the C01-C03 exhaustive histories (<= %d calls over the 24-call alphabet without the count functions) on Observable/SharedObservable/write guards created with the async lock, every future polled once by a hand-rolled executor (WOULDBLOCK if it does not complete)" % ml,
               obs_hist, oracles=orc),
        Stream("random", "obs", gens.obs_random(rng, n, heads=AHEADS, counts=False), obs_nontriv, False,
               "%d seeded random histories of 10..40 calls on the async flavour" % n, obs_hist, oracles=orc),
        Stream("guarded-exhaustive", "aobs", gcases, aobs_nontriv, True,
               "every history of <= %s calls (1 / 2 subscribers) over write().await / read().await guards kept across calls, set, set_if_not_eq, set_if_hash_not_eq, take, update, update_if, get, subscribe, next, next_ref, next_now, Stream polling, set through a held guard, dropping a held guard; every call is a future with its own counting waker, re-polled by the executor (smallest id first) whenever its waker fired; guards still held are dropped at the end" % " / ".join(str(l) for l, _ in gl),
               aobs_hist, oracles=aorc),
        Stream("guarded-sandwich", "aobs", gens.aobs_sandwich(1, q) + (gens.aobs_sandwich(2, q) if not q else []), aobs_nontriv, True,
               "write ; X ; Y ; set through the guard ; drop the guard ; Z ; W for all calls X Y Z W (two futures queued behind a held write guard in either order, then two follow-up calls)",
               aobs_hist, oracles=aorc),
        Stream("guarded-random", "aobs", gens.aobs_random(rng, na), aobs_nontriv, False,
               "%d seeded random guarded histories of 8..30 calls, 1-3 subscribers" % na, aobs_hist, oracles=aorc),
        Stream("async-threads", "race", ["kind=%s rounds=%d" % (k, 3000 if q else 100000) for k in ("apollset", "asetifeq", "anextnowset") for _ in range(4)],
               lambda c, o: True, False,
               "the async flavour with the tokio RwLock contended by a real second thread, 3 x 4 x %d free-running rounds (each future driven by a park / unpark block_on): a Stream poll racing set().await (a Pending answer is woken, the value is then delivered once, then Pending), two set_if_not_eq().await with equal values (exactly one stores), next_now().await racing set().await (what it hands out and what it marks observed belong together)" % (3000 if q else 100000),
               lambda c, o: c.split()[0], oracles={"racewake", "racefinal", "raceorder"}),
    ]


_c19_sync = PROPS["C19"]["streams"]


def c19_streams(tier, rng):
    q = tier == "quick"
    st = _c19_sync(tier, rng)
    n = 2000 if q else 50000
    st.append(Stream("async", "obs", gens.obs_exhaustive(2 if q else 3, heads=AHEADS) + gens.obs_random(rng, n, heads=AHEADS),
                     obs_nontriv, False,
                     "the same histories (count functions included) on the async-lock flavour", obs_hist, oracles={"counts", "inventory"},
                     project=proj_obs("counts")))
    return st


PROPS["C19"]["streams"] = c19_streams
PROPS["C19"]["strength"] = "full for the default lock flavour; async flavour: known finding async_subscriber_double_count"
PROPS["C19"]["level_note"] += " Known finding F8: with the async lock every subscriber owns two references, so subscriber_count/strong_count count each subscriber twice (C16_async_counts_refuted); reported as KNOWN-FINDING."
PROPS["C16"] = dict(
    streams=c16_streams,
    trusted=OBS_TRUST + ["tokio::sync::RwLock modelled as a FIFO permit semaphore (tokio-1.53.1 sync/batch_semaphore.rs: read = 1 permit, write = all; released permits go to the queue head first; a waiter is woken when fully served); modelled, not verified; the model's permit total is 64 (tokio: 2^29-1), which only matters with more than 63 concurrent readers",
                         "hand-rolled executor in the harness: every call is a boxed future with its own counting waker, polled at creation and again (smallest id first) whenever its waker has fired",
                         "dropping a future that is still queued for the lock (cancellation) is not exercised or modelled"],
    assumptions=["guarded histories: one SharedObservable with 1-3 subscribers; handles are not cloned/dropped while guards are held (handle life-cycle is covered by the unguarded histories)",
                 "thread schedules of the async flavour are not forced (single-threaded executor); the default flavour's schedules are C02-C04",
                 "as the property's quantifier says, every future is polled again once its waker has fired and a subscriber has at most one unfinished call: a Stream poll that answered Pending while a guard was held and is then abandoned is outside (DESIGN.md section 6, observation)"],
    strength="full at operation/poll granularity for single-threaded executors (unguarded histories: equality with the default flavour call by call; guarded histories: refinement of the default flavour's specification linearised at future completion, no lost wake-up); tokio's RwLock is modelled",
    level_text="Coq theorems: except for the count functions the async-flavour model is the default-flavour model call by call, hence refines the same specification (C01-C03 transfer); in the permit-semaphore model of tokio's RwLock an acquire with nothing held or queued succeeds at once, and a queued writer is woken when the holders release. For histories with guards held across calls (AsyncGuard.v: every call a future that acquires, steps, releases; next()/next_ref() acquire twice) the theorems of AsyncGuardFacts.v apply (see props/C16.v). Tied to the crate by running the C01-C03 histories on the async API with every future polled once, and exhaustive + random guarded histories with a waker-driven executor, against the model and against the specification oracle (ok:aspec: each completed call equals the default flavour's specification at its completion; ok:alive: with no guard held and nothing woken, no call is stuck unless it is a subscriber with nothing new to see).",
    level_note="Trusted: as C01, plus tokio's RwLock as a permit semaphore. The count functions differ (F8, see C19).")


# ---------------------------------------------------------------- C20 ownership
def c20_streams(tier, rng):
    q = tier == "quick"
    n = 4000 if q else 150000
    st = [Stream("ledger", "own", gens.own_cases(rng, n), lambda c, o: True, False,
                 "%d seeded random histories (vector mutators, entry traversals, transactions with subscribers polled / dropped while they are open, subscribers of both flavours with and without adapter stacks head/tail/skip/filter/sort, lag, drops in any order, an Observable turned SharedObservable with clones and subscribers) run with an instrumented element type: instance ledger checks no second drop, no read after drop, nothing alive at the end" % n,
                 lambda c, o: c.split(" :: ")[0], oracles={"nodoubledrop", "noleak", "usealive"})]
    if not q and core.miri_available():
        m = 96
        st.append(Stream("ledger-under-miri", "own", gens.own_cases(rng, m), lambda c, o: True, False,
                         "%d of the same histories with the harness interpreted by miri (nightly, -Zmiri-tree-borrows; Stacked Borrows is not used because imbl-sized-chunks 0.1.3 InlineArray::remove, a dependency, violates it on its own): any undefined behaviour or leak that miri reports in ReusableBoxFuture::set, Observable::into_shared, the YieldBatch swap or anywhere else on these paths aborts the run and is reported as oracle miri" % m,
                         lambda c, o: c.split(" :: ")[0], hook="miri", oracles={"nodoubledrop", "noleak", "usealive", "miri"}))
    return st


PROPS["C20"] = dict(
    streams=c20_streams,
    trusted=[KERNEL, EXTRACTION, CORR, "the instance ledger (thread-local HashSet keyed by a per-instance id) of the harness",
             "undefined behaviour of unsafe code cannot be exhibited by a Gallina model: the protocol of the unsafe sites is proved in a token model, the end-to-end statement is checked by the ledger on the real crates (thorough tier: additionally under miri when available)"],
    assumptions=["exact clone counts are not predicted (imbl shares structure)"],
    strength="partial: ownership protocol of the three unsafe sites proved in a token model; end-to-end exactly-once / no-leak checked, not proved",
    level_text="Coq theorems on a token model of the three unsafe sites: ReusableBoxFuture::set drops the old future exactly once and installs (or, on the unwinding mismatch path, drops) the new one exactly once on every path incl. a panicking destructor; Observable::into_shared moves the state exactly once without running Drop; the unreachable_unchecked arm of the YieldBatch swap is unreachable; the ledger used by the check is sound. The end-to-end property is checked by running random histories over observable, vector, subscribers and adapter stacks with an instrumented element type.",
    level_note="PARTIAL: a proof about machine-level double drops / leaks is outside what an executable Gallina model can express; stated in DESIGN.md §10.")


# ---------------------------------------------------------------- C02 C03 C04 (threads)
CONC_TRUST = OBS_TRUST + [
    "std::sync::RwLock modelled as readers/writer exclusion with writer preference (new readers wait while a writer is queued, as the futex implementation does); fairness beyond that, memory ordering (all steps sequentially consistent) and the OS scheduler are outside the model",
    "the eyeball_verif pause points (commit b6ca4dd, adapted in 8ebfecc) change timing only; forced schedules are driven by a director thread; a thread the model predicts to be blocked gets a 40 ms confirmation wait, a thread predicted to advance gets 4 s"]


def conc_nontriv(case, obs):
    return "blocked" in obs or "+" in obs


def conc_hist(case, obs):
    return case.split(" || ")[1]


def conc_streams(orc, with_lin=False, with_seq=None):
    def f(tier, rng):
        q = tier == "quick"
        st = []
        if with_seq:
            st += obs_streams(with_seq[0], with_seq[1])(tier, rng)
        st.append(Stream("schedules-exhaustive", "conc", gens.conc_exhaustive(), conc_nontriv, True,
                         "every schedule (sequence of thread releases over the pause points, length covering all micro-steps) of 12 two-thread configurations: poller x setter, poller x last-clone dropper, two droppers of the last two / two of three clones, dropper x upgrader, setter x dropper, two setters, setter x getter, cloner x dropper; with and without an already-pending subscriber",
                         conc_hist, hook=True, oracles=orc))
        n = 300 if q else 20000
        st.append(Stream("schedules-random", "conc", gens.conc_random(rng, n), conc_nontriv, False,
                         "%d seeded random schedules of 3- and 4-thread configurations (two pollers + setter, two/three droppers (+ upgrader), poller + setter + dropper (+ upgrader), two setters + getter)" % n,
                         conc_hist, hook=True, oracles=orc))
        race_orc = ({"racewake"} if "wake" in orc else set()) | \
                   ({"raceended", "racenotearly"} if ("ended" in orc or "notearly" in orc) else set())
        if with_lin:
            r = 5000 if q else 100000
            st.append(Stream("free-running-nextnow", "race", ["kind=nextnowset rounds=%d" % r for _ in range(4)],
                             lambda c, o: True, False,
                             "4 x %d free-running rounds of one next_now racing one set; afterwards the subscriber must end on the final value (a value and its version must be taken under one lock)" % r,
                             lambda c, o: c.split()[0], oracles={"racefinal"}))
            r2, r3 = (60, 3000) if q else (1500, 60000)
            st.append(Stream("free-running-order", "race",
                             ["kind=pollstream rounds=%d" % r2 for _ in range(4)] + ["kind=%s rounds=%d" % (k, r3) for k in ("setifeq", "setifhash", "condset") for _ in range(4)],
                             lambda c, o: True, False,
                             "4 x %d rounds of a writer storing 300 values back to back while the subscriber polls (every value handed out must be newer than the previous one, the subscriber ends on the final value and is then Pending), and 4 x %d rounds each of: two concurrent set_if_not_eq with equal values, two concurrent set_if_hash_not_eq with equal hashes (exactly one of them stores), a conditional writer racing a plain set of a value equal to its argument (it never replaces a value equal to its own)" % (r2, r3),
                             lambda c, o: c.split()[0], oracles={"racefinal", "raceorder"}))
        if race_orc:
            r = 2500 if q else 50000
            st.append(Stream("free-running-races", "race",
                             ["kind=%s rounds=%d" % (k, r) for k in ("polldrop", "pollset", "drop2", "dropupgrade")
                              for _ in range(4)],
                             lambda c, o: True, False,
                             "4 x %d free-running rounds each of: poll vs drop of the last clone, poll vs set, two concurrent drops of the last two clones, drop vs upgrade (no pause points: the OS scheduler picks the interleaving); a Pending poll must have been woken, the stream must end once all owners are gone and must not end under a live owner" % r,
                             lambda c, o: c.split()[0], oracles=race_orc))
        if with_lin:
            m = 4000 if q else 300000
            st.append(Stream("free-running", "lin", gens.lin_cases(rng, m), lambda c, o: True, False,
                             "%d rounds of 2-4 free-running threads, each a random program of 2-5 operations (set / update / set_if_not_eq / set_if_hash_not_eq / take / update_if / get / subscribe + poll / next_now of the subscribers created in the thread / next_now / poll / read-guard hold with try_write probe / write-guard hold with try_read+try_write probes and guarded sets) on clones of one SharedObservable; invocation/response stamped with a global atomic counter; the recorded history is checked for linearizability against the extracted sequential model (Wing-Gong search), plus set-chain, guard-exclusion and final-value checks" % m,
                             lambda c, o: "threads=%d" % (c.count(" | ") + 1), oracles={"lin", "setchain", "rguard", "wguard", "guardprobe", "final"}))
        return st
    return f


PROPS.update({
    "C02": dict(streams=conc_streams({"wake", "nopanic"}, with_seq=({"wake", "nosuspend"}, proj_obs("wake"))), hook=True, trusted=CONC_TRUST,
                assumptions=["locks behave as modelled; sequentially consistent steps"],
                strength="full for the protocol as modelled (operation granularity + lock granularity); partial w.r.t. the runtime: lock implementation, memory ordering and OS scheduling are assumed / sampled",
                level_text="Coq theorems at operation granularity (any history: a Pending poll registers its waker; every version change wakes the whole list and empties it; a registered waker stays registered until woken) and, once the micro-step model's proofs are in, at lock granularity for every schedule. Tied to the crate at operation granularity by the C01 histories with wake counters compared after every call (and the oracle that the implementation never answers Pending where the specification has an update or the end of the stream to deliver), and at thread granularity by forced schedules over pause points inside poll/set/close/drop/upgrade (exhaustive for two-thread configurations) with real threads.",
                level_note="Trusted: Coq kernel, extraction, harness; std RwLock/Arc as modelled; the director's timeouts. PARTIAL w.r.t. the runtime (see strength)."),
    "C03": dict(streams=conc_streams({"notearly", "ended", "nopanic"}, with_seq=({"endspec"}, proj_obs("end"))), hook=True, trusted=CONC_TRUST,
                assumptions=["locks and Arc counters behave as modelled"],
                strength="full for the protocol as modelled; runtime caveats as C02",
                level_text="Coq theorems at operation granularity: a poll answers None iff no owner exists, only the drop of the last owner ends the stream (not into_shared, downgrade, dropping some clones / subscribers / weak references), it stays ended with get/read returning the last value, upgrade succeeds iff an owner exists; at lock granularity (once the micro-step proofs are in): with the repaired Drop the state is closed iff no owner is left at every quiescent point of every schedule, and the original Drop is refuted by a 4-step schedule. Tied to the crate by the C01 histories and by forced schedules of two and three concurrent droppers / upgraders at the pause point between the 'am I last?' decision and the release.",
                level_note="Trusted: as C02. Finding F1 (concurrent last drops never close; drop racing with upgrade closes under a live owner) was reproduced deterministically through the pause points and repaired in 8ebfecc."),
})


PROPS["C04"] = dict(
    streams=conc_streams({"setchain", "nopanic"}, with_lin=True), hook=True, trusted=CONC_TRUST + [
        "the Wing-Gong linearizability search (ocaml/m_lin.ml) over the recorded, atomically stamped history"],
    assumptions=["std::sync::RwLock provides reader/writer exclusion; Arc counters are atomic; sequentially consistent steps"],
    strength="partial: the lock protocol is proved (linearization points, exclusion); the lock implementation, memory ordering and real schedules are trusted / sampled",
    level_text="Coq theorems on the micro-step model: every micro-step of a value operation (poll, set, get, clone) is either its single linearization point, where the abstract state moves by exactly the sequential step of that operation with the same result and wakes, or leaves the abstract state unchanged; each operation passes its point exactly once; reader/writer exclusion holds in every reachable micro-state of every schedule. Tied to the crate by forced schedules over the pause points (exhaustive for two-thread configurations) and by free-running rounds whose stamped histories are checked for linearizability against the extracted sequential model, with set-chain, guard-exclusion and final-value checks.",
    level_note="PARTIAL. Trusted: as C02, plus the history recorder and the Wing-Gong checker.")
PROPS["C02"]["level_text"] = PROPS["C02"]["level_text"].replace("and, once the micro-step model's proofs are in, at lock granularity for every schedule", "and at lock granularity for every schedule and any number of threads (lock invariant; a registered, not yet woken subscriber has nothing new to see; a Pending decision is registered or woken; every set/close moves the whole waker list to the woken list)")
PROPS["C03"]["level_text"] = PROPS["C03"]["level_text"].replace("at lock granularity (once the micro-step proofs are in): ", "at lock granularity: ")
