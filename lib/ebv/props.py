"""Per-property configuration: which streams are run, what is trusted."""
from . import gens

KERNEL = "Coq 8.16.1 kernel (coqc; coqchk re-check in the thorough tier); no native_compute; no axioms (Print Assumptions: Closed under the global context)"
EXTRACTION = "Coq extraction with ExtrOcamlBasic only (no Extract Constant/Inductive of our own); OCaml driver ocaml/{util,driver}.ml (parser/printer)"
CORR = "correspondence check (differential): Rust harness /verif/harness linked against /repo's working tree, case generators lib/ebv/gens.py, line comparison lib/ebv/core.py"
IMBL = "imbl::Vector modelled as list (push/pop/insert/set/remove/truncate/append); not verified"


class Stream:
    def __init__(self, name, mode, cases, nontrivial, exhaustive=False, bounds="", hist_key=None, hook=False,
                 oracles=None):
        self.name, self.mode, self.cases, self.nontrivial = name, mode, cases, nontrivial
        self.exhaustive, self.bounds, self.hist_key, self.hook = exhaustive, bounds, hist_key, hook
        self.oracles = oracles


def diff_kind(case_tok):
    for k in ("Append", "Clear", "PushFront", "PushBack", "PopFront", "PopBack", "Insert", "Set", "Remove",
              "Truncate", "Reset"):
        if case_tok.startswith(k):
            return k
    return "?"


# ---------------------------------------------------------------- C18
def c18_streams(tier, rng):
    def nontriv(case, obs):
        # the diff changes the vector or panics
        return ("apply=" + case.split()[1]) not in obs.split()
    def hk(case, obs):
        return diff_kind(case.split()[2]) + ("/panic" if "apply=panic" in obs else "")
    ml = 4 if tier == "quick" else 5
    n = 3000 if tier == "quick" else 100000
    return [
        Stream("exhaustive", "diff", gens.c18_exhaustive(ml), nontriv, True,
               "all vectors of length<=%d over {1,2,3} x every diff kind with every index 0..len+2 (Append/Reset of length 0..2) x 3 mappings; non-trivial = result differs from input or panics" % ml, hk),
        Stream("random", "diff", gens.c18_random(rng, n), nontriv, False,
               "%d seeded random (vector up to 200 items, diff 90%% in range / 10%% out of range, mapping)" % n, hk),
    ]


PROPS = {
    "C18": dict(streams=c18_streams,
                level_text="Proved in Coq for all element types, mappings, vectors and diffs: apply(map f d)(map f l) = map f (apply d l) incl. the panic case, map id = id, apply panics iff insert/set/remove is out of range, and an element-wise characterisation of every diff's effect. The list model is tied to VectorDiff::{map,apply} by an exhaustive small-scope + random differential run on every check.",
                level_note="Trusted: Coq kernel; extraction (ExtrOcamlBasic); the differential harness; imbl::Vector modelled as list. No axioms.",
                trusted=[KERNEL, EXTRACTION, CORR, IMBL],
                assumptions=["imbl::Vector behaves like a list for the operations VectorDiff::apply uses (checked differentially on every case)",
                             "usize indices/lengths do not overflow"]),
}
