"""Regenerates MANIFEST.json from the property table (bin/ebv manifest)."""
import json, os
from .props import PROPS
from . import core

ALL = ["C%02d" % i for i in range(1, 21)]

def write():
    checks = []
    for pid in ALL:
        if pid not in PROPS:
            continue
        s = PROPS[pid]
        checks.append({
            "property_id": pid,
            "quick_cmd": "bin/ebv check %s --tier quick" % pid,
            "thorough_cmd": "bin/ebv check %s --tier thorough" % pid,
            "evidence_file": "/verif/evidence/%s.json" % pid,
            "replay_cmd_template": "bin/ebv replay {path}",
            "engine": "coq-model+correspondence",
            "level_claimed": {"category": "proof", "text": s["level_text"], "design_ref": s.get("design_ref", "DESIGN.md §5 " + pid)},
            "level_note": s["level_note"],
            "technique": s.get("technique", "Coq 8.16 theorems on a hand-written Gallina model + extracted-model vs implementation correspondence check"),
        })
    na = [{"property_id": pid, "reason": "check not built yet in this round (planned: see DESIGN.md §5); not claimed until its theorems and correspondence run exist"}
          for pid in ALL if pid not in PROPS]
    m = {
        "version": 1,
        "setup_cmd": "bin/ebv setup",
        "hooks": {
            "guard": "eyeball_verif",
            "enable": "RUSTFLAGS=\"--cfg eyeball_verif\" (only the thread-schedule checks C02-C04 and the mid-drain streams of C05/C06/C08 need it)",
            "baseline_off_cmd": "cd /repo && cargo nextest run --workspace --no-fail-fast --offline || cargo test --workspace --no-fail-fast --offline",
            "source_commits": ["b6ca4dd1273035caa31757a04883e9b9002fc002", "e55f6912e2cffad7d447ed9cb340d39010918b11"],
            "add_only": True,
        },
        "engines": [{"name": "coq-model+correspondence", "path": "/verif/bin/ebv",
                     "serves_properties": [c["property_id"] for c in checks],
                     "kind_free_text": "Coq theorems about a hand-written executable model (coq/theories, coq/props); model extracted to OCaml and run against the real crates on generated histories (harness/, ocaml/, lib/ebv)"}],
        "checks": checks,
        "not_applicable": na,
        "notes": "See DESIGN.md. known_findings.json lists recorded/fixed genuine defects.",
    }
    json.dump(m, open(os.path.join(core.VERIF, "MANIFEST.json"), "w"), indent=1)
